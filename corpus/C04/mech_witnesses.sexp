; (K2) the witnesses of Props/C04.lean part B, run on the real runtime and on the mechanism model
; wReturn: finally skipped when the try block returns
(prog (globals 0) (classes) (defs (fn 0 1 (seq (try (seq (emit 1) (ret (lit i1))) (catches (c any 0 (emit 2))) (fin (emit 3))) (lit i2)))) (main 0 (seq (call 0) (emit 4))))
; wBreak / wContinue (no later error, so the stale catch entry stays harmless)
(prog (globals 0) (classes) (defs) (main 2 (seq (forl 0 (mklist (lit i0) (lit i1)) (try (seq (emit 1) (brk)) (catches (c any 1 (emit 2))) (fin (emit 3)))) (emit 4))))
(prog (globals 0) (classes) (defs) (main 2 (seq (forl 0 (mklist (lit i0) (lit i1)) (try (seq (emit 1) (cont)) (catches (c any 1 (emit 2))) (fin (emit 3)))) (emit 4))))
; wRethrow
(prog (globals 0) (classes) (defs) (main 2 (try (try (throw (lit s0)) (catches (c any 0 (seq (emit 1) (throw (lit s1))))) (fin (emit 2))) (catches (c any 1 (emit 3))) (fin (emit 4)))))
; wGood: normal + caught, typed chain, error two frames deep inside a native callback
(prog (globals 0) (classes) (defs (fn 0 0 (seq (emit 7) (throw (lit i5)))) (fn 1 1 (call 0))) (main 2 (seq (try (emit 1) (catches (c any 0 (emit 2))) (fin (emit 3))) (try (seq (emit 4) (native each 1 (mklist (lit i0) (lit i1))) (emit 9)) (catches (c String 0 (emit 5)) (c Number 0 (emit 6)) (c any 1 (emit 8))) (fin (emit 10))))))
; return from a catch block with finally; break from a catch block with finally
(prog (globals 0) (classes) (defs (fn 0 1 (seq (try (seq (emit 1) (throw (lit s0))) (catches (c any 0 (seq (emit 2) (ret (lit i1))))) (fin (emit 3))) (lit i2)))) (main 0 (seq (call 0) (emit 4))))
(prog (globals 0) (classes) (defs) (main 2 (seq (forl 0 (mklist (lit i0) (lit i1)) (try (seq (emit 1) (throw (lit null))) (catches (c any 1 (seq (emit 2) (brk)))) (fin (emit 3)))) (emit 4))))
; wStale (former F-C04-5 witness): break out of a try block, later uncaught error — no stale handler since 0e9e81b
(prog (globals 0) (classes) (defs) (main 2 (seq (forl 0 (mklist (lit i0) (lit i1)) (try (seq (emit 1) (brk)) (catches (c any 1 (emit 2))))) (emit 3) (throw (lit s0)) (emit 4))))
; continue out of two nested try blocks, then an error caught by the enclosing try only
(prog (globals 0) (classes) (defs) (main 2 (seq (try (seq (forl 0 (mklist (lit i0) (lit i1)) (try (try (seq (emit 1) (cont)) (catches (c any 1 (emit 2)))) (catches (c any 1 (emit 3))))) (emit 4) (throw (lit s0))) (catches (c any 1 (emit 5)))) (emit 6))))
