#!/bin/sh
# Build the framework from files on disk only (offline): translators -> Lean project -> harness.
# Only the properties claimed in MANIFEST.json are built here; ./check rebuilds what it needs anyway.
set -e
cd "$(dirname "$0")"
export CARGO_NET_OFFLINE=true
IDS=$(python3 -c "import json;print(' '.join(c['property_id'] for c in json.load(open('MANIFEST.json'))['checks']))")
for id in $IDS; do
  for t in $(python3 -c "import json;print(' '.join(json.load(open('props/$id.json')).get('translators',[])))"); do
    python3 "translators/$t"
  done
done
LEAN_TARGETS=$(python3 - $IDS <<'PY'
import json,sys
t=set()
for i in sys.argv[1:]:
    p=json.load(open(f'props/{i}.json'))
    if p.get('props_module'): t.add(p['props_module'])
    if p.get('driver_exe'): t.add(p['driver_exe'])
    for x in p.get('extra_lean_targets',[]): t.add(x)
    for x in p.get('extra_props_modules',[]): t.add(x)
print(' '.join(sorted(t)))
PY
)
(cd lean && lake build $LEAN_TARGETS)
[ -f harness/Cargo.lock ] || cp /repo/Cargo.lock harness/Cargo.lock
BINS=$(python3 - $IDS <<'PY'
import json,sys
b=set()
for i in sys.argv[1:]:
    p=json.load(open(f'props/{i}.json'))
    b.add(p['harness_bin'])
    for x in p.get('extra_bins',[]): b.add(x['harness_bin'])
print(' '.join('--bin '+x for x in sorted(b)))
PY
)
(cd harness && RUSTFLAGS="--cfg koto_verif" cargo build --offline $BINS)
ARC=$(python3 - $IDS <<'PY'
import json,sys
print(' '.join('--bin '+json.load(open(f'props/{i}.json'))['harness_bin'] for i in sys.argv[1:] if json.load(open(f'props/{i}.json')).get('arc_build')))
PY
)
if [ -n "$ARC" ]; then
  (cd harness && CARGO_TARGET_DIR=target-arc RUSTFLAGS="--cfg koto_verif" cargo build --offline --no-default-features --features arc $ARC)
fi
echo setup done
