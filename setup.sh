#!/bin/sh
# Build the framework from files on disk only (offline): translators -> Lean project -> harness.
set -e
cd "$(dirname "$0")"
export CARGO_NET_OFFLINE=true
for t in translators/*.py; do python3 "$t"; done
(cd lean && lake build $(python3 - <<'PY'
import json,glob
ps=[json.load(open(f)) for f in sorted(glob.glob('../props/C*.json'))]
print(' '.join(sorted({p['driver_exe'] for p in ps if p.get('driver_exe')} | {p['props_module'] for p in ps if p.get('props_module')})))
PY
))
[ -f harness/Cargo.lock ] || cp /repo/Cargo.lock harness/Cargo.lock
(cd harness && RUSTFLAGS="--cfg koto_verif" cargo build --offline --bins)
if grep -qs '"arc_build": true' props/C*.json; then
  (cd harness && CARGO_TARGET_DIR=target-arc RUSTFLAGS="--cfg koto_verif" cargo build --offline --no-default-features --features arc $(python3 - <<'PY'
import json,glob
ps=[json.load(open(f)) for f in sorted(glob.glob('props/C*.json'))]
print(' '.join('--bin '+p['harness_bin'] for p in ps if p.get('arc_build')))
PY
))
fi
echo setup done
