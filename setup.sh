#!/bin/sh
# Build the framework from files on disk only (offline): translators -> Lean project -> harness.
set -e
cd "$(dirname "$0")"
export CARGO_NET_OFFLINE=true
for t in translators/*.py; do python3 "$t"; done
(cd lean && lake build KotoVerif Drivers $(python3 - <<'PY'
import json
c=json.load(open('../props.json'))
print(' '.join(sorted({p['driver_exe'] for p in c['properties'].values() if p.get('driver_exe')} | {p['props_module'] for p in c['properties'].values() if p.get('props_module')})))
PY
))
[ -f harness/Cargo.lock ] || cp /repo/Cargo.lock harness/Cargo.lock
(cd harness && RUSTFLAGS="--cfg koto_verif" cargo build --offline --bins)
if grep -q '"arc_build": true' props.json; then
  (cd harness && CARGO_TARGET_DIR=target-arc RUSTFLAGS="--cfg koto_verif" cargo build --offline --no-default-features --features arc $(python3 - <<'PY'
import json
c=json.load(open('props.json'))
print(' '.join('--bin '+p['harness_bin'] for p in c['properties'].values() if p.get('arc_build')))
PY
))
fi
echo setup done
