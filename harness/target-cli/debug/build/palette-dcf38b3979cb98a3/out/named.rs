
///<div style="display: inline-block; width: 3em; height: 1em; border: 1px solid black; background: aliceblue;"></div>
pub const ALICEBLUE: crate::rgb::Srgb<u8> = crate::rgb::Srgb::new(240, 248, 255);

///<div style="display: inline-block; width: 3em; height: 1em; border: 1px solid black; background: antiquewhite;"></div>
pub const ANTIQUEWHITE: crate::rgb::Srgb<u8> = crate::rgb::Srgb::new(250, 235, 215);

///<div style="display: inline-block; width: 3em; height: 1em; border: 1px solid black; background: aqua;"></div>
pub const AQUA: crate::rgb::Srgb<u8> = crate::rgb::Srgb::new(0, 255, 255);

///<div style="display: inline-block; width: 3em; height: 1em; border: 1px solid black; background: aquamarine;"></div>
pub const AQUAMARINE: crate::rgb::Srgb<u8> = crate::rgb::Srgb::new(127, 255, 212);

///<div style="display: inline-block; width: 3em; height: 1em; border: 1px solid black; background: azure;"></div>
pub const AZURE: crate::rgb::Srgb<u8> = crate::rgb::Srgb::new(240, 255, 255);

///<div style="display: inline-block; width: 3em; height: 1em; border: 1px solid black; background: beige;"></div>
pub const BEIGE: crate::rgb::Srgb<u8> = crate::rgb::Srgb::new(245, 245, 220);

///<div style="display: inline-block; width: 3em; height: 1em; border: 1px solid black; background: bisque;"></div>
pub const BISQUE: crate::rgb::Srgb<u8> = crate::rgb::Srgb::new(255, 228, 196);

///<div style="display: inline-block; width: 3em; height: 1em; border: 1px solid black; background: black;"></div>
pub const BLACK: crate::rgb::Srgb<u8> = crate::rgb::Srgb::new(0, 0, 0);

///<div style="display: inline-block; width: 3em; height: 1em; border: 1px solid black; background: blanchedalmond;"></div>
pub const BLANCHEDALMOND: crate::rgb::Srgb<u8> = crate::rgb::Srgb::new(255, 235, 205);

///<div style="display: inline-block; width: 3em; height: 1em; border: 1px solid black; background: blue;"></div>
pub const BLUE: crate::rgb::Srgb<u8> = crate::rgb::Srgb::new(0, 0, 255);

///<div style="display: inline-block; width: 3em; height: 1em; border: 1px solid black; background: blueviolet;"></div>
pub const BLUEVIOLET: crate::rgb::Srgb<u8> = crate::rgb::Srgb::new(138, 43, 226);

///<div style="display: inline-block; width: 3em; height: 1em; border: 1px solid black; background: brown;"></div>
pub const BROWN: crate::rgb::Srgb<u8> = crate::rgb::Srgb::new(165, 42, 42);

///<div style="display: inline-block; width: 3em; height: 1em; border: 1px solid black; background: burlywood;"></div>
pub const BURLYWOOD: crate::rgb::Srgb<u8> = crate::rgb::Srgb::new(222, 184, 135);

///<div style="display: inline-block; width: 3em; height: 1em; border: 1px solid black; background: cadetblue;"></div>
pub const CADETBLUE: crate::rgb::Srgb<u8> = crate::rgb::Srgb::new(95, 158, 160);

///<div style="display: inline-block; width: 3em; height: 1em; border: 1px solid black; background: chartreuse;"></div>
pub const CHARTREUSE: crate::rgb::Srgb<u8> = crate::rgb::Srgb::new(127, 255, 0);

///<div style="display: inline-block; width: 3em; height: 1em; border: 1px solid black; background: chocolate;"></div>
pub const CHOCOLATE: crate::rgb::Srgb<u8> = crate::rgb::Srgb::new(210, 105, 30);

///<div style="display: inline-block; width: 3em; height: 1em; border: 1px solid black; background: coral;"></div>
pub const CORAL: crate::rgb::Srgb<u8> = crate::rgb::Srgb::new(255, 127, 80);

///<div style="display: inline-block; width: 3em; height: 1em; border: 1px solid black; background: cornflowerblue;"></div>
pub const CORNFLOWERBLUE: crate::rgb::Srgb<u8> = crate::rgb::Srgb::new(100, 149, 237);

///<div style="display: inline-block; width: 3em; height: 1em; border: 1px solid black; background: cornsilk;"></div>
pub const CORNSILK: crate::rgb::Srgb<u8> = crate::rgb::Srgb::new(255, 248, 220);

///<div style="display: inline-block; width: 3em; height: 1em; border: 1px solid black; background: crimson;"></div>
pub const CRIMSON: crate::rgb::Srgb<u8> = crate::rgb::Srgb::new(220, 20, 60);

///<div style="display: inline-block; width: 3em; height: 1em; border: 1px solid black; background: cyan;"></div>
pub const CYAN: crate::rgb::Srgb<u8> = crate::rgb::Srgb::new(0, 255, 255);

///<div style="display: inline-block; width: 3em; height: 1em; border: 1px solid black; background: darkblue;"></div>
pub const DARKBLUE: crate::rgb::Srgb<u8> = crate::rgb::Srgb::new(0, 0, 139);

///<div style="display: inline-block; width: 3em; height: 1em; border: 1px solid black; background: darkcyan;"></div>
pub const DARKCYAN: crate::rgb::Srgb<u8> = crate::rgb::Srgb::new(0, 139, 139);

///<div style="display: inline-block; width: 3em; height: 1em; border: 1px solid black; background: darkgoldenrod;"></div>
pub const DARKGOLDENROD: crate::rgb::Srgb<u8> = crate::rgb::Srgb::new(184, 134, 11);

///<div style="display: inline-block; width: 3em; height: 1em; border: 1px solid black; background: darkgray;"></div>
pub const DARKGRAY: crate::rgb::Srgb<u8> = crate::rgb::Srgb::new(169, 169, 169);

///<div style="display: inline-block; width: 3em; height: 1em; border: 1px solid black; background: darkgreen;"></div>
pub const DARKGREEN: crate::rgb::Srgb<u8> = crate::rgb::Srgb::new(0, 100, 0);

///<div style="display: inline-block; width: 3em; height: 1em; border: 1px solid black; background: darkgrey;"></div>
pub const DARKGREY: crate::rgb::Srgb<u8> = crate::rgb::Srgb::new(169, 169, 169);

///<div style="display: inline-block; width: 3em; height: 1em; border: 1px solid black; background: darkkhaki;"></div>
pub const DARKKHAKI: crate::rgb::Srgb<u8> = crate::rgb::Srgb::new(189, 183, 107);

///<div style="display: inline-block; width: 3em; height: 1em; border: 1px solid black; background: darkmagenta;"></div>
pub const DARKMAGENTA: crate::rgb::Srgb<u8> = crate::rgb::Srgb::new(139, 0, 139);

///<div style="display: inline-block; width: 3em; height: 1em; border: 1px solid black; background: darkolivegreen;"></div>
pub const DARKOLIVEGREEN: crate::rgb::Srgb<u8> = crate::rgb::Srgb::new(85, 107, 47);

///<div style="display: inline-block; width: 3em; height: 1em; border: 1px solid black; background: darkorange;"></div>
pub const DARKORANGE: crate::rgb::Srgb<u8> = crate::rgb::Srgb::new(255, 140, 0);

///<div style="display: inline-block; width: 3em; height: 1em; border: 1px solid black; background: darkorchid;"></div>
pub const DARKORCHID: crate::rgb::Srgb<u8> = crate::rgb::Srgb::new(153, 50, 204);

///<div style="display: inline-block; width: 3em; height: 1em; border: 1px solid black; background: darkred;"></div>
pub const DARKRED: crate::rgb::Srgb<u8> = crate::rgb::Srgb::new(139, 0, 0);

///<div style="display: inline-block; width: 3em; height: 1em; border: 1px solid black; background: darksalmon;"></div>
pub const DARKSALMON: crate::rgb::Srgb<u8> = crate::rgb::Srgb::new(233, 150, 122);

///<div style="display: inline-block; width: 3em; height: 1em; border: 1px solid black; background: darkseagreen;"></div>
pub const DARKSEAGREEN: crate::rgb::Srgb<u8> = crate::rgb::Srgb::new(143, 188, 143);

///<div style="display: inline-block; width: 3em; height: 1em; border: 1px solid black; background: darkslateblue;"></div>
pub const DARKSLATEBLUE: crate::rgb::Srgb<u8> = crate::rgb::Srgb::new(72, 61, 139);

///<div style="display: inline-block; width: 3em; height: 1em; border: 1px solid black; background: darkslategray;"></div>
pub const DARKSLATEGRAY: crate::rgb::Srgb<u8> = crate::rgb::Srgb::new(47, 79, 79);

///<div style="display: inline-block; width: 3em; height: 1em; border: 1px solid black; background: darkslategrey;"></div>
pub const DARKSLATEGREY: crate::rgb::Srgb<u8> = crate::rgb::Srgb::new(47, 79, 79);

///<div style="display: inline-block; width: 3em; height: 1em; border: 1px solid black; background: darkturquoise;"></div>
pub const DARKTURQUOISE: crate::rgb::Srgb<u8> = crate::rgb::Srgb::new(0, 206, 209);

///<div style="display: inline-block; width: 3em; height: 1em; border: 1px solid black; background: darkviolet;"></div>
pub const DARKVIOLET: crate::rgb::Srgb<u8> = crate::rgb::Srgb::new(148, 0, 211);

///<div style="display: inline-block; width: 3em; height: 1em; border: 1px solid black; background: deeppink;"></div>
pub const DEEPPINK: crate::rgb::Srgb<u8> = crate::rgb::Srgb::new(255, 20, 147);

///<div style="display: inline-block; width: 3em; height: 1em; border: 1px solid black; background: deepskyblue;"></div>
pub const DEEPSKYBLUE: crate::rgb::Srgb<u8> = crate::rgb::Srgb::new(0, 191, 255);

///<div style="display: inline-block; width: 3em; height: 1em; border: 1px solid black; background: dimgray;"></div>
pub const DIMGRAY: crate::rgb::Srgb<u8> = crate::rgb::Srgb::new(105, 105, 105);

///<div style="display: inline-block; width: 3em; height: 1em; border: 1px solid black; background: dimgrey;"></div>
pub const DIMGREY: crate::rgb::Srgb<u8> = crate::rgb::Srgb::new(105, 105, 105);

///<div style="display: inline-block; width: 3em; height: 1em; border: 1px solid black; background: dodgerblue;"></div>
pub const DODGERBLUE: crate::rgb::Srgb<u8> = crate::rgb::Srgb::new(30, 144, 255);

///<div style="display: inline-block; width: 3em; height: 1em; border: 1px solid black; background: firebrick;"></div>
pub const FIREBRICK: crate::rgb::Srgb<u8> = crate::rgb::Srgb::new(178, 34, 34);

///<div style="display: inline-block; width: 3em; height: 1em; border: 1px solid black; background: floralwhite;"></div>
pub const FLORALWHITE: crate::rgb::Srgb<u8> = crate::rgb::Srgb::new(255, 250, 240);

///<div style="display: inline-block; width: 3em; height: 1em; border: 1px solid black; background: forestgreen;"></div>
pub const FORESTGREEN: crate::rgb::Srgb<u8> = crate::rgb::Srgb::new(34, 139, 34);

///<div style="display: inline-block; width: 3em; height: 1em; border: 1px solid black; background: fuchsia;"></div>
pub const FUCHSIA: crate::rgb::Srgb<u8> = crate::rgb::Srgb::new(255, 0, 255);

///<div style="display: inline-block; width: 3em; height: 1em; border: 1px solid black; background: gainsboro;"></div>
pub const GAINSBORO: crate::rgb::Srgb<u8> = crate::rgb::Srgb::new(220, 220, 220);

///<div style="display: inline-block; width: 3em; height: 1em; border: 1px solid black; background: ghostwhite;"></div>
pub const GHOSTWHITE: crate::rgb::Srgb<u8> = crate::rgb::Srgb::new(248, 248, 255);

///<div style="display: inline-block; width: 3em; height: 1em; border: 1px solid black; background: gold;"></div>
pub const GOLD: crate::rgb::Srgb<u8> = crate::rgb::Srgb::new(255, 215, 0);

///<div style="display: inline-block; width: 3em; height: 1em; border: 1px solid black; background: goldenrod;"></div>
pub const GOLDENROD: crate::rgb::Srgb<u8> = crate::rgb::Srgb::new(218, 165, 32);

///<div style="display: inline-block; width: 3em; height: 1em; border: 1px solid black; background: gray;"></div>
pub const GRAY: crate::rgb::Srgb<u8> = crate::rgb::Srgb::new(128, 128, 128);

///<div style="display: inline-block; width: 3em; height: 1em; border: 1px solid black; background: grey;"></div>
pub const GREY: crate::rgb::Srgb<u8> = crate::rgb::Srgb::new(128, 128, 128);

///<div style="display: inline-block; width: 3em; height: 1em; border: 1px solid black; background: green;"></div>
pub const GREEN: crate::rgb::Srgb<u8> = crate::rgb::Srgb::new(0, 128, 0);

///<div style="display: inline-block; width: 3em; height: 1em; border: 1px solid black; background: greenyellow;"></div>
pub const GREENYELLOW: crate::rgb::Srgb<u8> = crate::rgb::Srgb::new(173, 255, 47);

///<div style="display: inline-block; width: 3em; height: 1em; border: 1px solid black; background: honeydew;"></div>
pub const HONEYDEW: crate::rgb::Srgb<u8> = crate::rgb::Srgb::new(240, 255, 240);

///<div style="display: inline-block; width: 3em; height: 1em; border: 1px solid black; background: hotpink;"></div>
pub const HOTPINK: crate::rgb::Srgb<u8> = crate::rgb::Srgb::new(255, 105, 180);

///<div style="display: inline-block; width: 3em; height: 1em; border: 1px solid black; background: indianred;"></div>
pub const INDIANRED: crate::rgb::Srgb<u8> = crate::rgb::Srgb::new(205, 92, 92);

///<div style="display: inline-block; width: 3em; height: 1em; border: 1px solid black; background: indigo;"></div>
pub const INDIGO: crate::rgb::Srgb<u8> = crate::rgb::Srgb::new(75, 0, 130);

///<div style="display: inline-block; width: 3em; height: 1em; border: 1px solid black; background: ivory;"></div>
pub const IVORY: crate::rgb::Srgb<u8> = crate::rgb::Srgb::new(255, 255, 240);

///<div style="display: inline-block; width: 3em; height: 1em; border: 1px solid black; background: khaki;"></div>
pub const KHAKI: crate::rgb::Srgb<u8> = crate::rgb::Srgb::new(240, 230, 140);

///<div style="display: inline-block; width: 3em; height: 1em; border: 1px solid black; background: lavender;"></div>
pub const LAVENDER: crate::rgb::Srgb<u8> = crate::rgb::Srgb::new(230, 230, 250);

///<div style="display: inline-block; width: 3em; height: 1em; border: 1px solid black; background: lavenderblush;"></div>
pub const LAVENDERBLUSH: crate::rgb::Srgb<u8> = crate::rgb::Srgb::new(255, 240, 245);

///<div style="display: inline-block; width: 3em; height: 1em; border: 1px solid black; background: lawngreen;"></div>
pub const LAWNGREEN: crate::rgb::Srgb<u8> = crate::rgb::Srgb::new(124, 252, 0);

///<div style="display: inline-block; width: 3em; height: 1em; border: 1px solid black; background: lemonchiffon;"></div>
pub const LEMONCHIFFON: crate::rgb::Srgb<u8> = crate::rgb::Srgb::new(255, 250, 205);

///<div style="display: inline-block; width: 3em; height: 1em; border: 1px solid black; background: lightblue;"></div>
pub const LIGHTBLUE: crate::rgb::Srgb<u8> = crate::rgb::Srgb::new(173, 216, 230);

///<div style="display: inline-block; width: 3em; height: 1em; border: 1px solid black; background: lightcoral;"></div>
pub const LIGHTCORAL: crate::rgb::Srgb<u8> = crate::rgb::Srgb::new(240, 128, 128);

///<div style="display: inline-block; width: 3em; height: 1em; border: 1px solid black; background: lightcyan;"></div>
pub const LIGHTCYAN: crate::rgb::Srgb<u8> = crate::rgb::Srgb::new(224, 255, 255);

///<div style="display: inline-block; width: 3em; height: 1em; border: 1px solid black; background: lightgoldenrodyellow;"></div>
pub const LIGHTGOLDENRODYELLOW: crate::rgb::Srgb<u8> = crate::rgb::Srgb::new(250, 250, 210);

///<div style="display: inline-block; width: 3em; height: 1em; border: 1px solid black; background: lightgray;"></div>
pub const LIGHTGRAY: crate::rgb::Srgb<u8> = crate::rgb::Srgb::new(211, 211, 211);

///<div style="display: inline-block; width: 3em; height: 1em; border: 1px solid black; background: lightgreen;"></div>
pub const LIGHTGREEN: crate::rgb::Srgb<u8> = crate::rgb::Srgb::new(144, 238, 144);

///<div style="display: inline-block; width: 3em; height: 1em; border: 1px solid black; background: lightgrey;"></div>
pub const LIGHTGREY: crate::rgb::Srgb<u8> = crate::rgb::Srgb::new(211, 211, 211);

///<div style="display: inline-block; width: 3em; height: 1em; border: 1px solid black; background: lightpink;"></div>
pub const LIGHTPINK: crate::rgb::Srgb<u8> = crate::rgb::Srgb::new(255, 182, 193);

///<div style="display: inline-block; width: 3em; height: 1em; border: 1px solid black; background: lightsalmon;"></div>
pub const LIGHTSALMON: crate::rgb::Srgb<u8> = crate::rgb::Srgb::new(255, 160, 122);

///<div style="display: inline-block; width: 3em; height: 1em; border: 1px solid black; background: lightseagreen;"></div>
pub const LIGHTSEAGREEN: crate::rgb::Srgb<u8> = crate::rgb::Srgb::new(32, 178, 170);

///<div style="display: inline-block; width: 3em; height: 1em; border: 1px solid black; background: lightskyblue;"></div>
pub const LIGHTSKYBLUE: crate::rgb::Srgb<u8> = crate::rgb::Srgb::new(135, 206, 250);

///<div style="display: inline-block; width: 3em; height: 1em; border: 1px solid black; background: lightslategray;"></div>
pub const LIGHTSLATEGRAY: crate::rgb::Srgb<u8> = crate::rgb::Srgb::new(119, 136, 153);

///<div style="display: inline-block; width: 3em; height: 1em; border: 1px solid black; background: lightslategrey;"></div>
pub const LIGHTSLATEGREY: crate::rgb::Srgb<u8> = crate::rgb::Srgb::new(119, 136, 153);

///<div style="display: inline-block; width: 3em; height: 1em; border: 1px solid black; background: lightsteelblue;"></div>
pub const LIGHTSTEELBLUE: crate::rgb::Srgb<u8> = crate::rgb::Srgb::new(176, 196, 222);

///<div style="display: inline-block; width: 3em; height: 1em; border: 1px solid black; background: lightyellow;"></div>
pub const LIGHTYELLOW: crate::rgb::Srgb<u8> = crate::rgb::Srgb::new(255, 255, 224);

///<div style="display: inline-block; width: 3em; height: 1em; border: 1px solid black; background: lime;"></div>
pub const LIME: crate::rgb::Srgb<u8> = crate::rgb::Srgb::new(0, 255, 0);

///<div style="display: inline-block; width: 3em; height: 1em; border: 1px solid black; background: limegreen;"></div>
pub const LIMEGREEN: crate::rgb::Srgb<u8> = crate::rgb::Srgb::new(50, 205, 50);

///<div style="display: inline-block; width: 3em; height: 1em; border: 1px solid black; background: linen;"></div>
pub const LINEN: crate::rgb::Srgb<u8> = crate::rgb::Srgb::new(250, 240, 230);

///<div style="display: inline-block; width: 3em; height: 1em; border: 1px solid black; background: magenta;"></div>
pub const MAGENTA: crate::rgb::Srgb<u8> = crate::rgb::Srgb::new(255, 0, 255);

///<div style="display: inline-block; width: 3em; height: 1em; border: 1px solid black; background: maroon;"></div>
pub const MAROON: crate::rgb::Srgb<u8> = crate::rgb::Srgb::new(128, 0, 0);

///<div style="display: inline-block; width: 3em; height: 1em; border: 1px solid black; background: mediumaquamarine;"></div>
pub const MEDIUMAQUAMARINE: crate::rgb::Srgb<u8> = crate::rgb::Srgb::new(102, 205, 170);

///<div style="display: inline-block; width: 3em; height: 1em; border: 1px solid black; background: mediumblue;"></div>
pub const MEDIUMBLUE: crate::rgb::Srgb<u8> = crate::rgb::Srgb::new(0, 0, 205);

///<div style="display: inline-block; width: 3em; height: 1em; border: 1px solid black; background: mediumorchid;"></div>
pub const MEDIUMORCHID: crate::rgb::Srgb<u8> = crate::rgb::Srgb::new(186, 85, 211);

///<div style="display: inline-block; width: 3em; height: 1em; border: 1px solid black; background: mediumpurple;"></div>
pub const MEDIUMPURPLE: crate::rgb::Srgb<u8> = crate::rgb::Srgb::new(147, 112, 219);

///<div style="display: inline-block; width: 3em; height: 1em; border: 1px solid black; background: mediumseagreen;"></div>
pub const MEDIUMSEAGREEN: crate::rgb::Srgb<u8> = crate::rgb::Srgb::new(60, 179, 113);

///<div style="display: inline-block; width: 3em; height: 1em; border: 1px solid black; background: mediumslateblue;"></div>
pub const MEDIUMSLATEBLUE: crate::rgb::Srgb<u8> = crate::rgb::Srgb::new(123, 104, 238);

///<div style="display: inline-block; width: 3em; height: 1em; border: 1px solid black; background: mediumspringgreen;"></div>
pub const MEDIUMSPRINGGREEN: crate::rgb::Srgb<u8> = crate::rgb::Srgb::new(0, 250, 154);

///<div style="display: inline-block; width: 3em; height: 1em; border: 1px solid black; background: mediumturquoise;"></div>
pub const MEDIUMTURQUOISE: crate::rgb::Srgb<u8> = crate::rgb::Srgb::new(72, 209, 204);

///<div style="display: inline-block; width: 3em; height: 1em; border: 1px solid black; background: mediumvioletred;"></div>
pub const MEDIUMVIOLETRED: crate::rgb::Srgb<u8> = crate::rgb::Srgb::new(199, 21, 133);

///<div style="display: inline-block; width: 3em; height: 1em; border: 1px solid black; background: midnightblue;"></div>
pub const MIDNIGHTBLUE: crate::rgb::Srgb<u8> = crate::rgb::Srgb::new(25, 25, 112);

///<div style="display: inline-block; width: 3em; height: 1em; border: 1px solid black; background: mintcream;"></div>
pub const MINTCREAM: crate::rgb::Srgb<u8> = crate::rgb::Srgb::new(245, 255, 250);

///<div style="display: inline-block; width: 3em; height: 1em; border: 1px solid black; background: mistyrose;"></div>
pub const MISTYROSE: crate::rgb::Srgb<u8> = crate::rgb::Srgb::new(255, 228, 225);

///<div style="display: inline-block; width: 3em; height: 1em; border: 1px solid black; background: moccasin;"></div>
pub const MOCCASIN: crate::rgb::Srgb<u8> = crate::rgb::Srgb::new(255, 228, 181);

///<div style="display: inline-block; width: 3em; height: 1em; border: 1px solid black; background: navajowhite;"></div>
pub const NAVAJOWHITE: crate::rgb::Srgb<u8> = crate::rgb::Srgb::new(255, 222, 173);

///<div style="display: inline-block; width: 3em; height: 1em; border: 1px solid black; background: navy;"></div>
pub const NAVY: crate::rgb::Srgb<u8> = crate::rgb::Srgb::new(0, 0, 128);

///<div style="display: inline-block; width: 3em; height: 1em; border: 1px solid black; background: oldlace;"></div>
pub const OLDLACE: crate::rgb::Srgb<u8> = crate::rgb::Srgb::new(253, 245, 230);

///<div style="display: inline-block; width: 3em; height: 1em; border: 1px solid black; background: olive;"></div>
pub const OLIVE: crate::rgb::Srgb<u8> = crate::rgb::Srgb::new(128, 128, 0);

///<div style="display: inline-block; width: 3em; height: 1em; border: 1px solid black; background: olivedrab;"></div>
pub const OLIVEDRAB: crate::rgb::Srgb<u8> = crate::rgb::Srgb::new(107, 142, 35);

///<div style="display: inline-block; width: 3em; height: 1em; border: 1px solid black; background: orange;"></div>
pub const ORANGE: crate::rgb::Srgb<u8> = crate::rgb::Srgb::new(255, 165, 0);

///<div style="display: inline-block; width: 3em; height: 1em; border: 1px solid black; background: orangered;"></div>
pub const ORANGERED: crate::rgb::Srgb<u8> = crate::rgb::Srgb::new(255, 69, 0);

///<div style="display: inline-block; width: 3em; height: 1em; border: 1px solid black; background: orchid;"></div>
pub const ORCHID: crate::rgb::Srgb<u8> = crate::rgb::Srgb::new(218, 112, 214);

///<div style="display: inline-block; width: 3em; height: 1em; border: 1px solid black; background: palegoldenrod;"></div>
pub const PALEGOLDENROD: crate::rgb::Srgb<u8> = crate::rgb::Srgb::new(238, 232, 170);

///<div style="display: inline-block; width: 3em; height: 1em; border: 1px solid black; background: palegreen;"></div>
pub const PALEGREEN: crate::rgb::Srgb<u8> = crate::rgb::Srgb::new(152, 251, 152);

///<div style="display: inline-block; width: 3em; height: 1em; border: 1px solid black; background: paleturquoise;"></div>
pub const PALETURQUOISE: crate::rgb::Srgb<u8> = crate::rgb::Srgb::new(175, 238, 238);

///<div style="display: inline-block; width: 3em; height: 1em; border: 1px solid black; background: palevioletred;"></div>
pub const PALEVIOLETRED: crate::rgb::Srgb<u8> = crate::rgb::Srgb::new(219, 112, 147);

///<div style="display: inline-block; width: 3em; height: 1em; border: 1px solid black; background: papayawhip;"></div>
pub const PAPAYAWHIP: crate::rgb::Srgb<u8> = crate::rgb::Srgb::new(255, 239, 213);

///<div style="display: inline-block; width: 3em; height: 1em; border: 1px solid black; background: peachpuff;"></div>
pub const PEACHPUFF: crate::rgb::Srgb<u8> = crate::rgb::Srgb::new(255, 218, 185);

///<div style="display: inline-block; width: 3em; height: 1em; border: 1px solid black; background: peru;"></div>
pub const PERU: crate::rgb::Srgb<u8> = crate::rgb::Srgb::new(205, 133, 63);

///<div style="display: inline-block; width: 3em; height: 1em; border: 1px solid black; background: pink;"></div>
pub const PINK: crate::rgb::Srgb<u8> = crate::rgb::Srgb::new(255, 192, 203);

///<div style="display: inline-block; width: 3em; height: 1em; border: 1px solid black; background: plum;"></div>
pub const PLUM: crate::rgb::Srgb<u8> = crate::rgb::Srgb::new(221, 160, 221);

///<div style="display: inline-block; width: 3em; height: 1em; border: 1px solid black; background: powderblue;"></div>
pub const POWDERBLUE: crate::rgb::Srgb<u8> = crate::rgb::Srgb::new(176, 224, 230);

///<div style="display: inline-block; width: 3em; height: 1em; border: 1px solid black; background: purple;"></div>
pub const PURPLE: crate::rgb::Srgb<u8> = crate::rgb::Srgb::new(128, 0, 128);

///<div style="display: inline-block; width: 3em; height: 1em; border: 1px solid black; background: rebeccapurple;"></div>
pub const REBECCAPURPLE: crate::rgb::Srgb<u8> = crate::rgb::Srgb::new(102, 51, 153);

///<div style="display: inline-block; width: 3em; height: 1em; border: 1px solid black; background: red;"></div>
pub const RED: crate::rgb::Srgb<u8> = crate::rgb::Srgb::new(255, 0, 0);

///<div style="display: inline-block; width: 3em; height: 1em; border: 1px solid black; background: rosybrown;"></div>
pub const ROSYBROWN: crate::rgb::Srgb<u8> = crate::rgb::Srgb::new(188, 143, 143);

///<div style="display: inline-block; width: 3em; height: 1em; border: 1px solid black; background: royalblue;"></div>
pub const ROYALBLUE: crate::rgb::Srgb<u8> = crate::rgb::Srgb::new(65, 105, 225);

///<div style="display: inline-block; width: 3em; height: 1em; border: 1px solid black; background: saddlebrown;"></div>
pub const SADDLEBROWN: crate::rgb::Srgb<u8> = crate::rgb::Srgb::new(139, 69, 19);

///<div style="display: inline-block; width: 3em; height: 1em; border: 1px solid black; background: salmon;"></div>
pub const SALMON: crate::rgb::Srgb<u8> = crate::rgb::Srgb::new(250, 128, 114);

///<div style="display: inline-block; width: 3em; height: 1em; border: 1px solid black; background: sandybrown;"></div>
pub const SANDYBROWN: crate::rgb::Srgb<u8> = crate::rgb::Srgb::new(244, 164, 96);

///<div style="display: inline-block; width: 3em; height: 1em; border: 1px solid black; background: seagreen;"></div>
pub const SEAGREEN: crate::rgb::Srgb<u8> = crate::rgb::Srgb::new(46, 139, 87);

///<div style="display: inline-block; width: 3em; height: 1em; border: 1px solid black; background: seashell;"></div>
pub const SEASHELL: crate::rgb::Srgb<u8> = crate::rgb::Srgb::new(255, 245, 238);

///<div style="display: inline-block; width: 3em; height: 1em; border: 1px solid black; background: sienna;"></div>
pub const SIENNA: crate::rgb::Srgb<u8> = crate::rgb::Srgb::new(160, 82, 45);

///<div style="display: inline-block; width: 3em; height: 1em; border: 1px solid black; background: silver;"></div>
pub const SILVER: crate::rgb::Srgb<u8> = crate::rgb::Srgb::new(192, 192, 192);

///<div style="display: inline-block; width: 3em; height: 1em; border: 1px solid black; background: skyblue;"></div>
pub const SKYBLUE: crate::rgb::Srgb<u8> = crate::rgb::Srgb::new(135, 206, 235);

///<div style="display: inline-block; width: 3em; height: 1em; border: 1px solid black; background: slateblue;"></div>
pub const SLATEBLUE: crate::rgb::Srgb<u8> = crate::rgb::Srgb::new(106, 90, 205);

///<div style="display: inline-block; width: 3em; height: 1em; border: 1px solid black; background: slategray;"></div>
pub const SLATEGRAY: crate::rgb::Srgb<u8> = crate::rgb::Srgb::new(112, 128, 144);

///<div style="display: inline-block; width: 3em; height: 1em; border: 1px solid black; background: slategrey;"></div>
pub const SLATEGREY: crate::rgb::Srgb<u8> = crate::rgb::Srgb::new(112, 128, 144);

///<div style="display: inline-block; width: 3em; height: 1em; border: 1px solid black; background: snow;"></div>
pub const SNOW: crate::rgb::Srgb<u8> = crate::rgb::Srgb::new(255, 250, 250);

///<div style="display: inline-block; width: 3em; height: 1em; border: 1px solid black; background: springgreen;"></div>
pub const SPRINGGREEN: crate::rgb::Srgb<u8> = crate::rgb::Srgb::new(0, 255, 127);

///<div style="display: inline-block; width: 3em; height: 1em; border: 1px solid black; background: steelblue;"></div>
pub const STEELBLUE: crate::rgb::Srgb<u8> = crate::rgb::Srgb::new(70, 130, 180);

///<div style="display: inline-block; width: 3em; height: 1em; border: 1px solid black; background: tan;"></div>
pub const TAN: crate::rgb::Srgb<u8> = crate::rgb::Srgb::new(210, 180, 140);

///<div style="display: inline-block; width: 3em; height: 1em; border: 1px solid black; background: teal;"></div>
pub const TEAL: crate::rgb::Srgb<u8> = crate::rgb::Srgb::new(0, 128, 128);

///<div style="display: inline-block; width: 3em; height: 1em; border: 1px solid black; background: thistle;"></div>
pub const THISTLE: crate::rgb::Srgb<u8> = crate::rgb::Srgb::new(216, 191, 216);

///<div style="display: inline-block; width: 3em; height: 1em; border: 1px solid black; background: tomato;"></div>
pub const TOMATO: crate::rgb::Srgb<u8> = crate::rgb::Srgb::new(255, 99, 71);

///<div style="display: inline-block; width: 3em; height: 1em; border: 1px solid black; background: turquoise;"></div>
pub const TURQUOISE: crate::rgb::Srgb<u8> = crate::rgb::Srgb::new(64, 224, 208);

///<div style="display: inline-block; width: 3em; height: 1em; border: 1px solid black; background: violet;"></div>
pub const VIOLET: crate::rgb::Srgb<u8> = crate::rgb::Srgb::new(238, 130, 238);

///<div style="display: inline-block; width: 3em; height: 1em; border: 1px solid black; background: wheat;"></div>
pub const WHEAT: crate::rgb::Srgb<u8> = crate::rgb::Srgb::new(245, 222, 179);

///<div style="display: inline-block; width: 3em; height: 1em; border: 1px solid black; background: white;"></div>
pub const WHITE: crate::rgb::Srgb<u8> = crate::rgb::Srgb::new(255, 255, 255);

///<div style="display: inline-block; width: 3em; height: 1em; border: 1px solid black; background: whitesmoke;"></div>
pub const WHITESMOKE: crate::rgb::Srgb<u8> = crate::rgb::Srgb::new(245, 245, 245);

///<div style="display: inline-block; width: 3em; height: 1em; border: 1px solid black; background: yellow;"></div>
pub const YELLOW: crate::rgb::Srgb<u8> = crate::rgb::Srgb::new(255, 255, 0);

///<div style="display: inline-block; width: 3em; height: 1em; border: 1px solid black; background: yellowgreen;"></div>
pub const YELLOWGREEN: crate::rgb::Srgb<u8> = crate::rgb::Srgb::new(154, 205, 50);
static COLORS: ::phf::Map<&'static str, crate::rgb::Srgb<u8>> = phf::phf_map! {
    "aliceblue" => ALICEBLUE,
    "antiquewhite" => ANTIQUEWHITE,
    "aqua" => AQUA,
    "aquamarine" => AQUAMARINE,
    "azure" => AZURE,
    "beige" => BEIGE,
    "bisque" => BISQUE,
    "black" => BLACK,
    "blanchedalmond" => BLANCHEDALMOND,
    "blue" => BLUE,
    "blueviolet" => BLUEVIOLET,
    "brown" => BROWN,
    "burlywood" => BURLYWOOD,
    "cadetblue" => CADETBLUE,
    "chartreuse" => CHARTREUSE,
    "chocolate" => CHOCOLATE,
    "coral" => CORAL,
    "cornflowerblue" => CORNFLOWERBLUE,
    "cornsilk" => CORNSILK,
    "crimson" => CRIMSON,
    "cyan" => CYAN,
    "darkblue" => DARKBLUE,
    "darkcyan" => DARKCYAN,
    "darkgoldenrod" => DARKGOLDENROD,
    "darkgray" => DARKGRAY,
    "darkgreen" => DARKGREEN,
    "darkgrey" => DARKGREY,
    "darkkhaki" => DARKKHAKI,
    "darkmagenta" => DARKMAGENTA,
    "darkolivegreen" => DARKOLIVEGREEN,
    "darkorange" => DARKORANGE,
    "darkorchid" => DARKORCHID,
    "darkred" => DARKRED,
    "darksalmon" => DARKSALMON,
    "darkseagreen" => DARKSEAGREEN,
    "darkslateblue" => DARKSLATEBLUE,
    "darkslategray" => DARKSLATEGRAY,
    "darkslategrey" => DARKSLATEGREY,
    "darkturquoise" => DARKTURQUOISE,
    "darkviolet" => DARKVIOLET,
    "deeppink" => DEEPPINK,
    "deepskyblue" => DEEPSKYBLUE,
    "dimgray" => DIMGRAY,
    "dimgrey" => DIMGREY,
    "dodgerblue" => DODGERBLUE,
    "firebrick" => FIREBRICK,
    "floralwhite" => FLORALWHITE,
    "forestgreen" => FORESTGREEN,
    "fuchsia" => FUCHSIA,
    "gainsboro" => GAINSBORO,
    "ghostwhite" => GHOSTWHITE,
    "gold" => GOLD,
    "goldenrod" => GOLDENROD,
    "gray" => GRAY,
    "grey" => GREY,
    "green" => GREEN,
    "greenyellow" => GREENYELLOW,
    "honeydew" => HONEYDEW,
    "hotpink" => HOTPINK,
    "indianred" => INDIANRED,
    "indigo" => INDIGO,
    "ivory" => IVORY,
    "khaki" => KHAKI,
    "lavender" => LAVENDER,
    "lavenderblush" => LAVENDERBLUSH,
    "lawngreen" => LAWNGREEN,
    "lemonchiffon" => LEMONCHIFFON,
    "lightblue" => LIGHTBLUE,
    "lightcoral" => LIGHTCORAL,
    "lightcyan" => LIGHTCYAN,
    "lightgoldenrodyellow" => LIGHTGOLDENRODYELLOW,
    "lightgray" => LIGHTGRAY,
    "lightgreen" => LIGHTGREEN,
    "lightgrey" => LIGHTGREY,
    "lightpink" => LIGHTPINK,
    "lightsalmon" => LIGHTSALMON,
    "lightseagreen" => LIGHTSEAGREEN,
    "lightskyblue" => LIGHTSKYBLUE,
    "lightslategray" => LIGHTSLATEGRAY,
    "lightslategrey" => LIGHTSLATEGREY,
    "lightsteelblue" => LIGHTSTEELBLUE,
    "lightyellow" => LIGHTYELLOW,
    "lime" => LIME,
    "limegreen" => LIMEGREEN,
    "linen" => LINEN,
    "magenta" => MAGENTA,
    "maroon" => MAROON,
    "mediumaquamarine" => MEDIUMAQUAMARINE,
    "mediumblue" => MEDIUMBLUE,
    "mediumorchid" => MEDIUMORCHID,
    "mediumpurple" => MEDIUMPURPLE,
    "mediumseagreen" => MEDIUMSEAGREEN,
    "mediumslateblue" => MEDIUMSLATEBLUE,
    "mediumspringgreen" => MEDIUMSPRINGGREEN,
    "mediumturquoise" => MEDIUMTURQUOISE,
    "mediumvioletred" => MEDIUMVIOLETRED,
    "midnightblue" => MIDNIGHTBLUE,
    "mintcream" => MINTCREAM,
    "mistyrose" => MISTYROSE,
    "moccasin" => MOCCASIN,
    "navajowhite" => NAVAJOWHITE,
    "navy" => NAVY,
    "oldlace" => OLDLACE,
    "olive" => OLIVE,
    "olivedrab" => OLIVEDRAB,
    "orange" => ORANGE,
    "orangered" => ORANGERED,
    "orchid" => ORCHID,
    "palegoldenrod" => PALEGOLDENROD,
    "palegreen" => PALEGREEN,
    "paleturquoise" => PALETURQUOISE,
    "palevioletred" => PALEVIOLETRED,
    "papayawhip" => PAPAYAWHIP,
    "peachpuff" => PEACHPUFF,
    "peru" => PERU,
    "pink" => PINK,
    "plum" => PLUM,
    "powderblue" => POWDERBLUE,
    "purple" => PURPLE,
    "rebeccapurple" => REBECCAPURPLE,
    "red" => RED,
    "rosybrown" => ROSYBROWN,
    "royalblue" => ROYALBLUE,
    "saddlebrown" => SADDLEBROWN,
    "salmon" => SALMON,
    "sandybrown" => SANDYBROWN,
    "seagreen" => SEAGREEN,
    "seashell" => SEASHELL,
    "sienna" => SIENNA,
    "silver" => SILVER,
    "skyblue" => SKYBLUE,
    "slateblue" => SLATEBLUE,
    "slategray" => SLATEGRAY,
    "slategrey" => SLATEGREY,
    "snow" => SNOW,
    "springgreen" => SPRINGGREEN,
    "steelblue" => STEELBLUE,
    "tan" => TAN,
    "teal" => TEAL,
    "thistle" => THISTLE,
    "tomato" => TOMATO,
    "turquoise" => TURQUOISE,
    "violet" => VIOLET,
    "wheat" => WHEAT,
    "white" => WHITE,
    "whitesmoke" => WHITESMOKE,
    "yellow" => YELLOW,
    "yellowgreen" => YELLOWGREEN,
};
