#[doc(hidden)]
pub mod __private17 {
    #[doc(hidden)]
    pub use crate::private::*;
}
