#[doc(hidden)]
pub mod __private228 {
    #[doc(hidden)]
    pub use crate::private::*;
}
