#[doc(hidden)]
pub mod __private228 {
    #[doc(hidden)]
    pub use crate::private::*;
}
use serde_core::__private228 as serde_core_private;
