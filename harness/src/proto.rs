//! Line protocol to the Lean model driver: one request per line, one response per line.
use std::io::{BufRead, BufReader, Write};
use std::process::{Child, ChildStdin, ChildStdout, Command, Stdio};

pub fn hex(bytes: &[u8]) -> String {
    let mut s = String::with_capacity(bytes.len() * 2 + 1);
    s.push('x');
    for b in bytes {
        s.push_str(&format!("{:02x}", b));
    }
    s
}

pub fn unhex(s: &str) -> Option<Vec<u8>> {
    let s = s.strip_prefix('x')?;
    if s.len() % 2 != 0 {
        return None;
    }
    let mut out = Vec::with_capacity(s.len() / 2);
    let b = s.as_bytes();
    for i in (0..b.len()).step_by(2) {
        let h = (b[i] as char).to_digit(16)?;
        let l = (b[i + 1] as char).to_digit(16)?;
        out.push((h * 16 + l) as u8);
    }
    Some(out)
}

/// A running Lean model driver (compiled `lean_exe`, or `lake env lean --run` as fallback).
pub struct Driver {
    child: Child,
    stdin: Option<ChildStdin>,
    stdout: BufReader<ChildStdout>,
    pub requests: u64,
}

impl Driver {
    /// `cmd` is a shell-free command line: program followed by arguments.
    pub fn spawn(cmd: &[String]) -> Driver {
        let mut child = Command::new(&cmd[0])
            .args(&cmd[1..])
            .stdin(Stdio::piped())
            .stdout(Stdio::piped())
            .stderr(Stdio::inherit())
            .spawn()
            .unwrap_or_else(|e| panic!("cannot start model driver {:?}: {}", cmd, e));
        let stdin = child.stdin.take();
        let stdout = BufReader::new(child.stdout.take().unwrap());
        Driver { child, stdin, stdout, requests: 0 }
    }

    /// Send all request lines, return all response lines (same order, same count).
    /// Requests must not contain '\n'.
    pub fn batch(&mut self, lines: &[String]) -> Vec<String> {
        let mut stdin = self.stdin.take().expect("driver stdin closed");
        let n = lines.len();
        let mut out = Vec::with_capacity(n);
        std::thread::scope(|sc| {
            let h = sc.spawn(move || {
                for l in lines {
                    debug_assert!(!l.contains('\n'));
                    stdin.write_all(l.as_bytes()).unwrap();
                    stdin.write_all(b"\n").unwrap();
                }
                stdin.flush().unwrap();
                stdin
            });
            for i in 0..n {
                let mut s = String::new();
                let k = self.stdout.read_line(&mut s).unwrap();
                if k == 0 {
                    panic!("model driver closed its output after {} of {} responses (request: {})", i, n, lines[i]);
                }
                while s.ends_with('\n') || s.ends_with('\r') {
                    s.pop();
                }
                out.push(s);
            }
            self.stdin = Some(h.join().unwrap());
        });
        self.requests += n as u64;
        out
    }

    pub fn ask(&mut self, line: &str) -> String {
        self.batch(&[line.to_string()]).pop().unwrap()
    }
}

impl Drop for Driver {
    fn drop(&mut self) {
        drop(self.stdin.take());
        let _ = self.child.wait();
    }
}
