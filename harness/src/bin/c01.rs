//! C01 — core evaluation: operators, assignment, containers and control flow
//! (reference-semantics and precedence layers; the compiler-correctness layers are added on top).
//!
//! (K1) `Model/CoreEval.eval` (the formalised language guide) vs the real runtime, in-process, on
//!      generated programs × ≥ 3 surrounding contexts: result value (canonical), output trace
//!      (`emit`/`print`, through the captured stdout) and error class must agree. The model is the
//!      guide, so a disagreement on a well-formed program is a property violation (kind "D"); the
//!      program is shrunk at AST level first.
//! (K4) `Model/Prec` vs `koto_parser::Parser`: AST shape of rendered operator trees and of random
//!      token lists.
//! Known defects of the unchanged tree (F-C01-1, F-C01-2) are generation filters
//! (`c01_gen::envelope::known_shape`); their recorded witnesses are replayed on every run.
#[path = "c01_gen/mod.rs"]
mod c01_gen;

use c01_gen::ast::*;
use c01_gen::envelope;
use c01_gen::generator::{Gen, GenStats, Limits};
use c01_gen::render::{self, Context};
use c01_gen::shrink;
use koto::prelude::*;
use koto::runtime::{KotoFile, KotoRead, KotoWrite};
use kvh::{Args, Driver, Report, Rng};
use serde_json::json;
use std::cell::RefCell;
use std::rc::Rc;

// ------------------------------------------------------------------------------------------------
// running the real implementation

#[derive(Clone, Default)]
struct Capture(Rc<RefCell<String>>);
impl KotoFile for Capture {
    fn id(&self) -> KString {
        "_c01_capture_".into()
    }
}
impl KotoRead for Capture {}
impl KotoWrite for Capture {
    fn write(&self, bytes: &[u8]) -> koto::runtime::Result<()> {
        self.0.borrow_mut().push_str(&String::from_utf8_lossy(bytes));
        Ok(())
    }
    fn write_line(&self, s: &str) -> koto::runtime::Result<()> {
        let mut o = self.0.borrow_mut();
        o.push_str(s);
        o.push('\n');
        Ok(())
    }
    fn flush(&self) -> koto::runtime::Result<()> {
        Ok(())
    }
}

#[derive(Clone, Debug, PartialEq)]
struct Outcome {
    /// `ok <canonical value>` | `E:type` | `E:index` | `E:compile` | `E:other` | `E:panic` | `E:timeout`
    result: String,
    /// `e:<canonical value>` (emit) / `p:<xhex>` (print), in order
    trace: Vec<String>,
    /// full error text (diagnostics only)
    message: String,
}

fn classify_error(msg: &str) -> &'static str {
    let first = msg.lines().next().unwrap_or("");
    if first.contains("unable to perform operation")
        || first.starts_with("expected ")
        || first.contains("Unable to index")
        || first.contains("unbounded ranges can't be used as iterators")
    {
        "E:type"
    } else if first.contains("index out of bounds")
        || first.contains("negative indices aren't allowed")
        || first.contains("invalid index")
        || first.contains("the key is already in use by the entry at index")
    {
        "E:index"
    } else if first.contains("execution timed out") {
        "E:timeout"
    } else {
        "E:other"
    }
}

fn run_koto(src: &str) -> Outcome {
    let cap = Capture::default();
    let settings = KotoSettings::default()
        .with_stdout(cap.clone())
        .with_stderr(cap.clone())
        .with_execution_limit(std::time::Duration::from_secs(10));
    let r = kvh::catch(|| {
        let mut koto = Koto::with_settings(settings);
        koto.prelude().add_fn("emit", move |ctx| {
            let v = ctx.args().first().cloned().unwrap_or(KValue::Null);
            ctx.vm.stdout().write_line(&format!("\u{1}{}", kvh::canon::value(&v)))?;
            Ok(v)
        });
        match koto.compile(src) {
            Err(e) => (format!("E:compile"), e.to_string()),
            Ok(chunk) => match koto.run(chunk) {
                Ok(v) => (format!("ok {}", kvh::canon::value(&v)), String::new()),
                Err(e) => {
                    let m = e.to_string();
                    (classify_error(&m).to_string(), m)
                }
            },
        }
    });
    let (result, message) = match r {
        Ok(x) => x,
        Err(p) => ("E:panic".to_string(), p),
    };
    let text = cap.0.borrow().clone();
    let mut trace = vec![];
    for line in text.split('\n') {
        if let Some(c) = line.strip_prefix('\u{1}') {
            trace.push(format!("e:{}", c));
        } else if !line.is_empty() || false {
            trace.push(format!("p:{}", kvh::hex(line.as_bytes())));
        }
    }
    // an empty printed line is still an event: recover them from the raw text
    if text.contains("\n\n") || text.starts_with('\n') {
        trace.clear();
        let body = text.strip_suffix('\n').unwrap_or(&text);
        if !text.is_empty() {
            for line in body.split('\n') {
                if let Some(c) = line.strip_prefix('\u{1}') {
                    trace.push(format!("e:{}", c));
                } else {
                    trace.push(format!("p:{}", kvh::hex(line.as_bytes())));
                }
            }
        }
    }
    Outcome { result, trace, message }
}

fn parse_model(resp: &str) -> Outcome {
    let mut parts = resp.split(" ;; ");
    let result = parts.next().unwrap_or("").to_string();
    let trace = parts.map(|s| s.to_string()).collect();
    Outcome { result, trace, message: String::new() }
}

const FUEL: u32 = 20000;

fn request(p: &Expr) -> String {
    format!("eval {} {}", FUEL, sexp(p))
}

/// what the implementation must produce in context `ctx` when the model says `m`
fn expected(m: &Outcome, ctx: &Context) -> Outcome {
    let mut e = m.clone();
    if m.result.starts_with("ok ") && !ctx.keeps_value() {
        e.result = "ok null".into();
    }
    e
}

fn agree(model: &Outcome, imp: &Outcome, ctx: &Context) -> bool {
    let e = expected(model, ctx);
    e.result == imp.result && e.trace == imp.trace
}

fn what_differs(model: &Outcome, imp: &Outcome, ctx: &Context) -> &'static str {
    let e = expected(model, ctx);
    if e.result != imp.result && e.trace != imp.trace {
        "result+trace"
    } else if e.result != imp.result {
        if imp.result.starts_with("E:") || e.result.starts_with("E:") { "error-class" } else { "result" }
    } else {
        "trace"
    }
}

// ------------------------------------------------------------------------------------------------

struct Ctx {
    rep: Report,
    drv: Driver,
    stats: GenStats,
    mismatches: u64,
    skipped_unmodelled: u64,
    programs_run: u64,
    well_formed: u64,
    gen_run: u64,
    gen_well_formed: u64,
    runs: u64,
    no_filter: bool,
    verbose: bool,
}

fn nontrivial(p: &Expr) -> bool {
    p.size() >= 3
        && p.any(&|e| {
            matches!(
                e,
                Expr::Arith(..) | Expr::Cmp(..) | Expr::And(..) | Expr::Or(..) | Expr::Not(_) | Expr::Neg(_) | Expr::OpAssign(..) | Expr::Index(..)
            )
        })
}

impl Ctx {
    /// shrink a failing (program, context): smallest program that is still inside the envelope, still
    /// outside the known shapes, compiles, and still disagrees in the same way
    fn shrink(&mut self, p: &Expr, ctx: &Context, style: u64, kind: &str) -> Expr {
        let mut best = p.clone();
        let mut attempts = 0;
        'outer: loop {
            let mut cands = shrink::candidates(&best);
            cands.sort_by_key(|c| c.size());
            for c in cands {
                if attempts > 1500 {
                    break 'outer;
                }
                if c.size() >= best.size() {
                    continue;
                }
                let c = c01_gen::generator::normalise(c);
                if envelope::outside_model(&c).is_some() || envelope::known_shape(&c, ctx.keeps_value()).is_some() {
                    continue;
                }
                let Some(src) = std::panic::catch_unwind(|| render::render(&c, ctx, style)).ok().flatten() else {
                    continue;
                };
                attempts += 1;
                let m = parse_model(&self.drv.ask(&request(&c)));
                if m.result.starts_with("X:") || m.result == "E:unbound" {
                    continue;
                }
                let i = run_koto(&src);
                if i.result == "E:compile" {
                    continue;
                }
                if !agree(&m, &i, ctx) && what_differs(&m, &i, ctx) == kind {
                    best = c;
                    continue 'outer;
                }
            }
            break;
        }
        best
    }

    /// run one program (already inside the envelope) in the given contexts against `model`
    fn check_program(&mut self, p: &Expr, model_resp: &str, contexts: &[Context], style: u64, origin: &str) {
        let m = parse_model(model_resp);
        self.rep.bump(&format!("model_outcome={}", m.result.split(' ').next().unwrap_or("")));
        if m.result.starts_with("X:") || m.result == "E:unbound" || m.result.starts_with("bad-") {
            // outside the modelled envelope at run time (float % / ^, float text, …): skipped, counted
            self.skipped_unmodelled += 1;
            if m.result.starts_with("bad-") || m.result == "X:nofuel" || m.result == "X:break" || m.result == "X:continue" {
                self.rep.violation(
                    "K",
                    "K:C01:harness-model-protocol",
                    json!({"note": "the model driver rejected or could not finish a generated program (harness bug)", "request": request(p), "response": model_resp}),
                );
            }
            return;
        }
        self.programs_run += 1;
        if m.result.starts_with("ok ") {
            self.well_formed += 1;
        }
        if origin == "generated" {
            self.gen_run += 1;
            self.rep.bump(&format!("generated_model_outcome={}", m.result.split(' ').next().unwrap_or("")));
            if m.result.starts_with("ok ") {
                self.gen_well_formed += 1;
            }
        }
        let req = request(p);
        for ctx in contexts {
            if !ctx.keeps_value() && envelope::known_shape(p, false).is_some() {
                // the program's last expression is an operator: ignoring its value is F-C01-3's shape
                self.rep.bump("context_not_applicable");
                continue;
            }
            let Some(src) = render::render(p, ctx, style) else {
                self.rep.bump("context_not_applicable");
                continue;
            };
            let imp = run_koto(&src);
            self.runs += 1;
            self.rep.case(&format!("{}|{}", ctx.name(), req), nontrivial(p));
            self.rep.bump(&format!("context={}", ctx.family()));
            if self.rep.samples.len() < 8 && self.runs % 397 == 5 && p.size() >= 8 {
                self.rep.sample(json!({"context": ctx.name(), "source": src, "request": req, "impl": {"result": imp.result, "trace": imp.trace},
                                       "model": {"result": m.result, "trace": m.trace}}));
            }
            if agree(&m, &imp, ctx) {
                continue;
            }
            self.mismatches += 1;
            let kind = what_differs(&m, &imp, ctx);
            if self.verbose {
                eprintln!("MISMATCH [{}] ctx={} kind={}\n{}\nmodel: {:?}\nimpl : {:?} {}\n", origin, ctx.name(), kind, src, expected(&m, ctx), imp, imp.message);
            }
            if self.mismatches > 8 {
                continue;
            }
            let small = self.shrink(p, ctx, style, kind);
            let small_src = render::render(&small, ctx, style).unwrap_or_default();
            let small_m = parse_model(&self.drv.ask(&request(&small)));
            let small_i = run_koto(&small_src);
            self.rep.violation(
                "D",
                &format!("C01:K1:{}", kind),
                json!({
                    "note": "the real runtime and the reference semantics (formalised language guide) disagree on a well-formed program outside the listed defect shapes",
                    "origin": origin,
                    "context": ctx.name(),
                    "keeps_value": ctx.keeps_value(),
                    "source": small_src,
                    "request": request(&small),
                    "impl": {"result": small_i.result, "trace": small_i.trace, "message": small_i.message},
                    "model": {"result": small_m.result, "trace": small_m.trace},
                    "unshrunk": {"source": src, "request": req, "impl": {"result": imp.result, "trace": imp.trace, "message": imp.message},
                                 "model": {"result": m.result, "trace": m.trace}},
                }),
            );
            break;
        }
    }
}

fn pick_contexts(rng: &mut Rng, thorough: bool) -> Vec<Context> {
    let mut v = vec![Context::Top];
    let max_locals = if thorough { 120 } else { 40 };
    let mut pool = vec![
        Context::Function,
        Context::Locals(1 + rng.below(max_locals), rng.chance(1, 2)),
        Context::InLoop(rng.chance(1, 2)),
        Context::Assigned,
        Context::Argument,
        Context::Operand,
        Context::Ignored,
    ];
    let n = 2 + rng.below(2);
    for _ in 0..n {
        let i = rng.below(pool.len());
        v.push(pool.remove(i));
    }
    v
}

// ------------------------------------------------------------------------------------------------
// exhaustive small operator trees

#[derive(Clone, Copy, PartialEq, Debug)]
enum BOp {
    A(ArithOp),
    C(CmpOp),
    And,
    Or,
}
const TREE_OPS: [BOp; 10] = [
    BOp::A(ArithOp::Add),
    BOp::A(ArithOp::Sub),
    BOp::A(ArithOp::Mul),
    BOp::A(ArithOp::Div),
    BOp::A(ArithOp::Rem),
    BOp::A(ArithOp::Pow),
    BOp::C(CmpOp::Lt),
    BOp::C(CmpOp::Eq),
    BOp::And,
    BOp::Or,
];

fn operand(kind: usize) -> Expr {
    // int, negative int, float, string, list, null, bool — each observable through emit
    let l = match kind {
        0 => int(3),
        1 => int(-2),
        2 => Expr::Lit(Lit::Float(1.5)),
        3 => Expr::Lit(Lit::Str("ab".into())),
        4 => Expr::List(vec![int(1)]),
        5 => Expr::Lit(Lit::Null),
        _ => Expr::Lit(Lit::Bool(true)),
    };
    Expr::Emit(b(l))
}

fn mk_bin(op: BOp, a: Expr, c: Expr) -> Expr {
    match op {
        BOp::A(o) => Expr::Arith(o, b(a), b(c)),
        BOp::C(o) => Expr::Cmp(b(a), vec![(o, c)]),
        BOp::And => Expr::And(b(a), b(c)),
        BOp::Or => Expr::Or(b(a), b(c)),
    }
}

/// tree shapes with `n` binary nodes: 0 = leaf; encoded as nested Option pairs
#[derive(Clone, Debug)]
enum Shape {
    Leaf,
    Node(Box<Shape>, Box<Shape>),
}
fn shapes(n: usize) -> Vec<Shape> {
    if n == 0 {
        return vec![Shape::Leaf];
    }
    let mut out = vec![];
    for l in 0..n {
        for a in shapes(l) {
            for c in shapes(n - 1 - l) {
                out.push(Shape::Node(Box::new(a.clone()), Box::new(c)));
            }
        }
    }
    out
}
fn build(shape: &Shape, ops: &mut impl Iterator<Item = BOp>, leaves: &mut impl Iterator<Item = usize>) -> Expr {
    match shape {
        Shape::Leaf => operand(leaves.next().unwrap()),
        Shape::Node(a, c) => {
            let op = ops.next().unwrap();
            let l = build(a, ops, leaves);
            let r = build(c, ops, leaves);
            mk_bin(op, l, r)
        }
    }
}

fn counter_next(idx: &mut [usize], base: usize) -> bool {
    for i in (0..idx.len()).rev() {
        idx[i] += 1;
        if idx[i] < base {
            return true;
        }
        idx[i] = 0;
    }
    false
}

// ------------------------------------------------------------------------------------------------
// (K4) precedence: Model/Prec vs koto_parser

#[derive(Clone, Debug)]
enum OpTree {
    Num(u32),
    NegNum(u32),
    Id(u32),
    Neg(Box<OpTree>),
    Not(Box<OpTree>),
    Bin(&'static str, Box<OpTree>, Box<OpTree>),
    Asg(u32, Box<OpTree>),
}
const OP_NAMES: [&str; 21] = [
    "Arrow", "AddAssign", "SubtractAssign", "MultiplyAssign", "DivideAssign", "RemainderAssign", "PowerAssign", "Or", "And", "Equal", "NotEqual",
    "Greater", "GreaterOrEqual", "Less", "LessOrEqual", "Add", "Subtract", "Multiply", "Divide", "Remainder", "Power",
];
fn ast_op_name(tok: &str) -> &'static str {
    match tok {
        "Arrow" => "Pipe",
        other => OP_NAMES.iter().find(|n| **n == other).copied().unwrap_or("?"),
    }
}
fn tree_sexp(t: &OpTree) -> String {
    match t {
        OpTree::Num(n) => format!("(n {})", n),
        OpTree::NegNum(n) => format!("(m {})", n),
        OpTree::Id(x) => format!("(i {})", x),
        OpTree::Neg(a) => format!("(neg {})", tree_sexp(a)),
        OpTree::Not(a) => format!("(not {})", tree_sexp(a)),
        OpTree::Bin(o, a, c) => format!("(bin {} {} {})", o, tree_sexp(a), tree_sexp(c)),
        OpTree::Asg(x, a) => format!("(asg {} {})", x, tree_sexp(a)),
    }
}
fn gen_tree(rng: &mut Rng, depth: usize) -> OpTree {
    if depth == 0 || rng.chance(1, 4) {
        return match rng.below(5) {
            0 | 1 => OpTree::Num(rng.below(10) as u32),
            2 => OpTree::NegNum(1 + rng.below(9) as u32),
            _ => OpTree::Id(rng.below(6) as u32),
        };
    }
    match rng.below(12) {
        0 => OpTree::Neg(Box::new(gen_tree(rng, depth - 1))),
        1 => OpTree::Not(Box::new(gen_tree(rng, depth - 1))),
        2 => OpTree::Asg(rng.below(6) as u32, Box::new(gen_tree(rng, depth - 1))),
        _ => {
            let o = OP_NAMES[rng.below(OP_NAMES.len())];
            OpTree::Bin(o, Box::new(gen_tree(rng, depth - 1)), Box::new(gen_tree(rng, depth - 1)))
        }
    }
}

/// AST shape the real parser builds for a one-expression source, in the model's tree syntax
/// (`Nested` dropped); `Err` = parse error or a node outside the operator core
fn real_parse_shape(src: &str) -> Result<String, String> {
    use koto_parser::{Ast, AstIndex, Node, Parser};
    fn go(ast: &Ast, i: AstIndex) -> Result<String, String> {
        match &ast.node(i).node {
            Node::Nested(j) => go(ast, *j),
            Node::SmallInt(n) => Ok(if *n < 0 { format!("(m {})", -(*n as i64)) } else { format!("(n {})", n) }),
            Node::Int(c) => {
                let n = ast.constants().get_i64(*c);
                Ok(if n < 0 { format!("(m {})", -n) } else { format!("(n {})", n) })
            }
            Node::Id(c, _) => {
                let s = ast.constants().get_str(*c);
                let b = s.as_bytes();
                if b.len() == 1 && b[0].is_ascii_lowercase() { Ok(format!("(i {})", b[0] - b'a')) } else { Err(format!("id {}", s)) }
            }
            Node::UnaryOp { op, value } => {
                let v = go(ast, *value)?;
                Ok(match op {
                    koto_parser::AstUnaryOp::Negate => format!("(neg {})", v),
                    koto_parser::AstUnaryOp::Not => format!("(not {})", v),
                })
            }
            Node::BinaryOp { op, lhs, rhs } => Ok(format!("(bin {:?} {} {})", op, go(ast, *lhs)?, go(ast, *rhs)?)),
            Node::Assign { target, expression, .. } => match &ast.node(*target).node {
                Node::Id(c, _) => {
                    let s = ast.constants().get_str(*c);
                    Ok(format!("(asg {} {})", s.as_bytes()[0] - b'a', go(ast, *expression)?))
                }
                other => Err(format!("assign target {:?}", other)),
            },
            other => Err(format!("node {:?}", other)),
        }
    }
    let ast = kvh::catch(|| Parser::parse(src)).map_err(|p| format!("panic {}", p))?.map_err(|e| format!("parse error: {}", e))?;
    let root = ast.entry_point().ok_or("no entry point")?;
    match &ast.node(root).node {
        Node::MainBlock { body, .. } if body.len() == 1 => go(&ast, body[0]),
        other => Err(format!("main block {:?}", other)),
    }
}

/// model tree text uses token names; the real AST prints `AstBinaryOp` names
fn model_shape_to_ast_names(s: &str) -> String {
    let mut out = s.to_string();
    out = out.replace("(bin Arrow ", "(bin Pipe ");
    out
}

fn k4(cx: &mut Ctx, rng: &mut Rng, n_random: usize) {
    let _ = ast_op_name;
    let mut trees: Vec<OpTree> = vec![];
    // all trees with ≤ 2 binary operators over operands {1, -2, a} (no unary): 21 + 2·21²·… shapes
    let leaves = [OpTree::Num(1), OpTree::NegNum(2), OpTree::Id(0)];
    for o in OP_NAMES {
        for a in &leaves {
            for c in &leaves {
                trees.push(OpTree::Bin(o, Box::new(a.clone()), Box::new(c.clone())));
            }
        }
    }
    for o1 in OP_NAMES {
        for o2 in OP_NAMES {
            let (x, y, z) = (OpTree::Id(0), OpTree::Num(1), OpTree::Id(2));
            trees.push(OpTree::Bin(o1, Box::new(OpTree::Bin(o2, Box::new(x.clone()), Box::new(y.clone()))), Box::new(z.clone())));
            trees.push(OpTree::Bin(o1, Box::new(x.clone()), Box::new(OpTree::Bin(o2, Box::new(y.clone()), Box::new(z.clone())))));
            trees.push(OpTree::Bin(o1, Box::new(OpTree::Neg(Box::new(x.clone()))), Box::new(OpTree::Bin(o2, Box::new(OpTree::NegNum(3)), Box::new(z.clone())))));
            trees.push(OpTree::Not(Box::new(OpTree::Bin(o1, Box::new(x.clone()), Box::new(OpTree::Not(Box::new(OpTree::Bin(o2, Box::new(y), Box::new(z)))))))));
        }
    }
    for _ in 0..n_random {
        let d = 1 + rng.below(5);
        trees.push(gen_tree(rng, d));
    }
    let reqs: Vec<String> = trees.iter().map(|t| format!("prec {}", tree_sexp(t))).collect();
    let resps = cx.drv.batch(&reqs);
    let mut bad = 0;
    for (t, resp) in trees.iter().zip(resps.iter()) {
        let (text, model_parse) = resp.split_once(" ;; ").unwrap_or((resp.as_str(), "?"));
        let want = tree_sexp(t);
        cx.rep.case(&format!("prec|{}", want), true);
        cx.rep.bump("k4=rendered-tree");
        let real = real_parse_shape(text);
        let model_ok = model_parse == want;
        let real_ok = real.as_ref().map(|r| *r == model_shape_to_ast_names(&want)).unwrap_or(false);
        if cx.rep.samples.len() < 10 && cx.rep.evaluations % 997 == 3 {
            cx.rep.sample(json!({"k4": true, "tree": want, "text": text, "model_parse": model_parse, "real_parse": format!("{:?}", real)}));
        }
        if !model_ok || !real_ok {
            bad += 1;
            if bad <= 3 {
                let (kind, name) = if !real_ok && model_ok { ("D", "C01:K4:precedence") } else { ("K", "K:C01:Model.Prec.parse") };
                cx.rep.violation(
                    kind,
                    name,
                    json!({"note": "operator tree rendered with the fewest parentheses the (guide's) precedence table allows does not parse back to the same tree",
                           "tree": want, "source": text, "model_parse": model_parse, "real_parse": format!("{:?}", real),
                           "theorem": "Props/C01.prec_roundtrip"}),
                );
            }
        }
    }
    // random token lists (also ill-formed ones): parses-or-not and shape must agree
    let toks = ["n1", "n2", "i0", "i1", "oAdd", "oSubtract", "oMultiply", "oPower", "oLess", "oEqual", "oAnd", "oOr", "oAddAssign", "=", "not", "(", ")"];
    let mut reqs = vec![];
    for _ in 0..n_random {
        let n = 1 + rng.below(9);
        let mut s = String::from("ptoks");
        let mut depth = 0;
        for _ in 0..n {
            let t = toks[rng.below(toks.len())];
            if t == "(" {
                depth += 1;
            }
            if t == ")" {
                if depth == 0 {
                    continue;
                }
                depth -= 1;
            }
            s.push(' ');
            s.push_str(t);
        }
        for _ in 0..depth {
            s.push_str(" )");
        }
        reqs.push(s);
    }
    let resps = cx.drv.batch(&reqs);
    let mut bad = 0;
    for (rq, resp) in reqs.iter().zip(resps.iter()) {
        let (text, model_parse) = resp.split_once(" ;; ").unwrap_or((resp.as_str(), "?"));
        if text.trim().is_empty() {
            continue;
        }
        cx.rep.case(rq, true);
        let real = real_parse_shape(text);
        let agree = match (&real, model_parse) {
            (Err(_), "none") => {
                cx.rep.bump("k4=token-list-rejected");
                true
            }
            (Ok(r), m) => {
                cx.rep.bump("k4=token-list-parsed");
                *r == model_shape_to_ast_names(m)
            }
            (Err(e), _) => {
                // the real parser accepts fewer programs than the core model for reasons outside
                // the operator core (e.g. `a b` is a call, an Id that is assigned later …)
                cx.rep.bump("k4=token-list-real-error-only");
                e.starts_with("parse error") || e.starts_with("node") || e.starts_with("main block") || e.starts_with("assign target")
            }
        };
        if !agree {
            bad += 1;
            if bad <= 3 {
                cx.rep.violation(
                    "K",
                    "K:C01:Model.Prec.parse",
                    json!({"note": "model parser and real parser build different trees for a token list", "request": rq, "source": text,
                           "model_parse": model_parse, "real_parse": format!("{:?}", real)}),
                );
            }
        }
    }
}

// ------------------------------------------------------------------------------------------------


// ------------------------------------------------------------------------------------------------
// structured families

fn lit_str(s: &str) -> Expr {
    Expr::Lit(Lit::Str(s.to_string()))
}
fn rng_e(a: i64, c: i64, incl: bool) -> Expr {
    Expr::Range(b(int(a)), b(int(c)), incl)
}

fn structured_families(thorough: bool) -> Vec<(&'static str, Expr)> {
    let mut out: Vec<(&'static str, Expr)> = vec![];
    let keys = ["ka", "kb", "kc", "kd", "ke", "kf", "kg", "kh"];

    // ---- map-position --------------------------------------------------------------------
    for n in 0..=8usize {
        let map = Expr::Map((0..n).map(|i| (keys[i].to_string(), int(i as i64 + 1))).collect());
        let len = n as i64;
        let mut idxs: Vec<Expr> = vec![];
        for i in [0, 1, len / 2, len - 2, len - 1, -1, len, len + 3] {
            let e = int(i);
            if !idxs.contains(&e) {
                idxs.push(e);
            }
        }
        idxs.push(Expr::Lit(Lit::Float(1.5)));
        for idx in &idxs {
            let at = match idx {
                Expr::Lit(Lit::Int(i)) => *i,
                _ => 1,
            };
            let mut entries: Vec<Expr> = vec![Expr::Tuple(vec![lit_str("kx"), int(90)])];
            if at >= 0 && (at as usize) < n {
                entries.push(Expr::Tuple(vec![lit_str(keys[at as usize]), int(91)]));
            }
            if n >= 2 {
                entries.push(Expr::Tuple(vec![lit_str(keys[0]), int(92)]));
                entries.push(Expr::Tuple(vec![lit_str(keys[n - 1]), int(93)]));
            }
            entries.push(int(5));
            entries.push(Expr::Tuple(vec![lit_str("kx"), int(1), int(2)]));
            for entry in entries {
                // value of the assignment, whole ordered map, positional reads, iteration order
                let mut stmts = vec![
                    Expr::Assign(0, b(map.clone())),
                    Expr::Emit(b(Expr::IndexAssign(0, b(idx.clone()), b(entry)))),
                    Expr::Emit(b(Expr::Var(0))),
                ];
                if n >= 1 {
                    stmts.push(Expr::Emit(b(Expr::Index(b(Expr::Var(0)), b(int(len - 1))))));
                    stmts.push(Expr::Emit(b(Expr::Index(b(Expr::Var(0)), b(int(len / 2))))));
                }
                stmts.push(Expr::For(1, b(Expr::Var(0)), b(Expr::Emit(b(Expr::Var(1))))));
                stmts.push(Expr::Arith(ArithOp::Add, b(Expr::Var(0)), b(Expr::Map(vec![("kz".into(), int(0))]))));
                out.push(("map-position", Expr::Block(stmts)));
            }
        }
    }

    // ---- list-position / position-read -----------------------------------------------------
    let grid = |len: i64| -> Vec<i64> {
        let mut g = vec![];
        for i in [-1, 0, 1, 2, len - 1, len, len + 2] {
            if !g.contains(&i) {
                g.push(i);
            }
        }
        g
    };
    let range_indices = |len: i64| -> Vec<Expr> {
        let g = grid(len);
        let mut v = vec![Expr::RangeFull];
        for a in &g {
            v.push(Expr::RangeFrom(b(int(*a))));
            v.push(Expr::RangeTo(b(int(*a)), false));
            v.push(Expr::RangeTo(b(int(*a)), true));
            for c in &g {
                v.push(rng_e(*a, *c, false));
                v.push(rng_e(*a, *c, true));
            }
        }
        v
    };
    for n in 0..=5i64 {
        let list = Expr::List((0..n).map(|i| int(10 + i)).collect());
        let mut idx: Vec<Expr> = grid(n).into_iter().map(int).collect();
        idx.push(Expr::Lit(Lit::Float(0.5)));
        idx.extend(range_indices(n));
        for i in &idx {
            out.push((
                "list-position",
                Expr::Block(vec![
                    Expr::Assign(0, b(list.clone())),
                    Expr::Emit(b(Expr::IndexAssign(0, b(i.clone()), b(lit_str("w"))))),
                    Expr::Var(0),
                ]),
            ));
        }
    }
    for n in 0..=4i64 {
        let list = Expr::List((0..n).map(|i| int(10 + i)).collect());
        let tuple = if n == 0 { None } else { Some(Expr::Tuple((0..n).map(|i| int(20 + i)).collect())) };
        let string = lit_str(&"abcdefgh"[..n as usize]);
        let map = Expr::Map((0..n as usize).map(|i| (keys[i].to_string(), int(i as i64))).collect());
        let range = rng_e(100, 100 + n, false);
        let mut idx: Vec<Expr> = grid(n).into_iter().map(int).collect();
        idx.extend(range_indices(n));
        for c in [Some(list), tuple, Some(string), Some(map), Some(range)].into_iter().flatten() {
            for i in &idx {
                out.push(("position-read", Expr::Index(b(c.clone()), b(i.clone()))));
            }
        }
    }

    // ---- range-representation --------------------------------------------------------------
    let mut pool: Vec<i64> = vec![
        0, 1, -1, 3, 2147483646, 2147483647, 2147483648, 2147483649, -2147483647, -2147483648, -2147483649, -2147483650, 4294967296,
        9223372036854775800, -9223372036854775800,
    ];
    if thorough {
        pool.extend([2147483645, -2147483646, 4294967295, -4294967297, 1099511627776]);
    }
    for a in &pool {
        for d in [-2i64, -1, 0, 1, 2, 3] {
            for incl in [false, true] {
                let r = rng_e(*a, a + d, incl);
                // iteration: every item is emitted; the loop's value and the loop variable afterwards
                out.push((
                    "range-representation",
                    Expr::Block(vec![Expr::For(0, b(r.clone()), b(Expr::Emit(b(Expr::Var(0))))), Expr::Var(0)]),
                ));
                // iteration that stops early
                out.push((
                    "range-representation",
                    Expr::Block(vec![
                        Expr::Assign(1, b(int(0))),
                        Expr::Assign(
                            2,
                            b(Expr::For(
                                0,
                                b(r.clone()),
                                b(Expr::Block(vec![
                                    Expr::OpAssign(ArithOp::Add, 1, b(int(1))),
                                    Expr::If(b(Expr::Cmp(b(Expr::Var(1)), vec![(CmpOp::Ge, int(2))])), b(Expr::Break(Some(b(Expr::Var(0))))), None),
                                    Expr::Var(0),
                                ])),
                            )),
                        ),
                        Expr::Tuple(vec![Expr::Var(1), Expr::Var(2)]),
                    ]),
                ));
                out.push(("range-representation", Expr::Size(b(r.clone()))));
                out.push(("range-representation", Expr::Emit(b(r.clone()))));
                for k in [0i64, 1, d.max(0), d.max(0) + 1] {
                    out.push(("range-representation", Expr::Index(b(r.clone()), b(int(k)))));
                }
                // a range with such bounds as a slice of a short list, and as an index-assignment target
                out.push(("range-representation", Expr::Index(b(Expr::List(vec![int(1), int(2), int(3)])), b(r.clone()))));
                out.push((
                    "range-representation",
                    Expr::Block(vec![
                        Expr::Assign(0, b(Expr::List(vec![int(1), int(2), int(3)]))),
                        Expr::IndexAssign(0, b(r.clone()), b(int(0))),
                        Expr::Var(0),
                    ]),
                ));
                out.push(("range-representation", Expr::Cmp(b(r.clone()), vec![(CmpOp::Eq, rng_e(*a, a + d, !incl))])));
            }
        }
        // open ranges over a short string / tuple
        out.push(("range-representation", Expr::Index(b(lit_str("abc")), b(Expr::RangeFrom(b(int(*a)))))));
        out.push(("range-representation", Expr::Index(b(Expr::Tuple(vec![int(1), int(2)])), b(Expr::RangeTo(b(int(*a)), true)))));
    }

    // ---- fresh-container ---------------------------------------------------------------
    // every operation that yields a NEW list / map, followed by a mutation of the result or of the
    // original and an observation of both (the reference semantics has value containers: the two
    // must be independent)
    for n in [0i64, 1, 3] {
        let orig = Expr::List((0..n).map(|i| int(1 + i)).collect());
        let mut makers: Vec<Expr> = vec![
            Expr::Index(b(Expr::Var(0)), b(Expr::RangeFull)),
            Expr::Index(b(Expr::Var(0)), b(Expr::RangeFrom(b(int(0))))),
            Expr::Index(b(Expr::Var(0)), b(Expr::RangeFrom(b(int(-2))))),
            Expr::Index(b(Expr::Var(0)), b(Expr::RangeTo(b(int(n)), false))),
            Expr::Index(b(Expr::Var(0)), b(Expr::RangeTo(b(int(n + 4)), false))),
            Expr::Index(b(Expr::Var(0)), b(Expr::RangeTo(b(int(n - 1)), true))),
            Expr::Index(b(Expr::Var(0)), b(rng_e(0, n, false))),
            Expr::Index(b(Expr::Var(0)), b(rng_e(0, n - 1, true))),
            Expr::Index(b(Expr::Var(0)), b(rng_e(-3, n + 7, false))),
            Expr::Index(b(Expr::Var(0)), b(rng_e(0, 9223372036854775800, true))),
            Expr::Index(b(Expr::Var(0)), b(rng_e(1, n, false))),
            Expr::Index(b(Expr::Var(0)), b(rng_e(0, n - 1, false))),
            Expr::Arith(ArithOp::Add, b(Expr::Var(0)), b(Expr::List(vec![]))),
            Expr::Arith(ArithOp::Add, b(Expr::List(vec![])), b(Expr::Var(0))),
            Expr::Arith(ArithOp::Add, b(Expr::Var(0)), b(Expr::Index(b(Expr::Var(0)), b(rng_e(0, 0, false))))),
            Expr::Index(b(Expr::Index(b(Expr::Var(0)), b(Expr::RangeFull))), b(Expr::RangeFull)),
        ];
        makers.push(Expr::If(b(Expr::Lit(Lit::Bool(true))), b(Expr::Index(b(Expr::Var(0)), b(Expr::RangeFull))), Some(b(Expr::List(vec![])))));
        for mk in makers {
            for who in [0u32, 1] {
                for idx in [int(0), Expr::RangeFull] {
                    out.push((
                        "fresh-container",
                        Expr::Block(vec![
                            Expr::Assign(0, b(orig.clone())),
                            Expr::Assign(1, b(mk.clone())),
                            Expr::Emit(b(Expr::IndexAssign(who, b(idx.clone()), b(int(42))))),
                            Expr::Emit(b(Expr::Var(0))),
                            Expr::Emit(b(Expr::Var(1))),
                            Expr::Cmp(b(Expr::Var(0)), vec![(CmpOp::Eq, Expr::Var(1))]),
                        ]),
                    ));
                }
            }
        }
        // maps: `m + {}` / `{} + m` are new maps
        let morig = Expr::Map((0..n as usize).map(|i| (keys[i].to_string(), int(i as i64 + 1))).collect());
        for mk in [
            Expr::Arith(ArithOp::Add, b(Expr::Var(0)), b(Expr::Map(vec![]))),
            Expr::Arith(ArithOp::Add, b(Expr::Map(vec![])), b(Expr::Var(0))),
            Expr::Arith(ArithOp::Add, b(Expr::Var(0)), b(Expr::Var(0))),
        ] {
            for who in [0u32, 1] {
                out.push((
                    "fresh-container",
                    Expr::Block(vec![
                        Expr::Assign(0, b(morig.clone())),
                        Expr::Assign(1, b(mk.clone())),
                        Expr::Emit(b(Expr::IndexAssign(who, b(int(0)), b(Expr::Tuple(vec![lit_str("kx"), int(42)]))))),
                        Expr::Emit(b(Expr::Var(0))),
                        Expr::Var(1),
                    ]),
                ));
            }
        }
    }

    // ---- literal-identity --------------------------------------------------------------
    // literals in ONE script that are == but not identical, or equal in text but different in
    // kind: each must evaluate to the value written, in both orders (the constant pool is per script)
    {
        let f = |x: f64| Expr::Lit(Lit::Float(x));
        let pairs: Vec<(Expr, Expr)> = vec![
            (f(0.0), f(-0.0)),
            (int(100000), f(100000.0)),
            (int(4294967296), f(4294967296.0)),
            (int(9007199254740993), f(9007199254740992.0)),
            (int(-70000), f(-70000.0)),
            (f(1.5), f(1.5)),
            (f(2.0), int(2)),
            (int(1000000007), lit_str("1000000007")),
            (f(2.5), lit_str("2.5")),
            (lit_str("emit"), lit_str("size")),
            (lit_str("v0"), lit_str("v1")),
            (lit_str("ka"), lit_str("null")),
            (lit_str("true"), Expr::Lit(Lit::Bool(true))),
        ];
        for (x, y) in pairs {
            for (a, c) in [(x.clone(), y.clone()), (y.clone(), x.clone())] {
                let recip = |e: &Expr| Expr::Emit(b(Expr::Arith(ArithOp::Div, b(int(1)), b(e.clone()))));
                let numeric = |e: &Expr| matches!(e, Expr::Lit(Lit::Int(_)) | Expr::Lit(Lit::Float(_)));
                let mut stmts = vec![Expr::Assign(0, b(a.clone())), Expr::Emit(b(Expr::Var(0))), Expr::Assign(1, b(Expr::Emit(b(c.clone()))))];
                if numeric(&a) && numeric(&c) {
                    stmts.push(recip(&a));
                    stmts.push(recip(&c));
                    stmts.push(Expr::Emit(b(Expr::Arith(ArithOp::Add, b(a.clone()), b(c.clone())))));
                }
                stmts.push(Expr::Emit(b(Expr::Map(vec![("ka".into(), a.clone()), ("v0".into(), c.clone())]))));
                stmts.push(Expr::Emit(b(Expr::Size(b(lit_str("size"))))));
                stmts.push(Expr::Tuple(vec![Expr::Cmp(b(a.clone()), vec![(CmpOp::Eq, c.clone())]), Expr::Var(0), Expr::Var(1), a.clone(), c.clone()]));
                out.push(("literal-identity", Expr::Block(stmts)));
            }
        }
    }

    // ---- jump-in-literal -----------------------------------------------------------------
    // break / continue inside container literals and interpolations within loops
    for at in 0..=3i64 {
        for jump in 0..3 {
            let j = || match jump {
                0 => Expr::Break(None),
                1 => Expr::Break(Some(b(Expr::Arith(ArithOp::Add, b(Expr::Var(2)), b(int(70)))))),
                _ => Expr::Continue,
            };
            let cond = || Expr::Cmp(b(Expr::Var(2)), vec![(CmpOp::Eq, int(at))]);
            let jump_e = || Expr::If(b(cond()), b(j()), None);
            let shapes: Vec<Expr> = vec![
                Expr::List(vec![Expr::Emit(b(Expr::Var(2))), jump_e(), Expr::Emit(b(int(9)))]),
                Expr::Tuple(vec![Expr::Emit(b(Expr::Var(2))), jump_e(), Expr::Emit(b(int(9)))]),
                Expr::Map(vec![("ka".into(), Expr::Emit(b(Expr::Var(2)))), ("kb".into(), jump_e()), ("kc".into(), Expr::Emit(b(int(9))))]),
                Expr::Interp(vec![lit_str("a"), Expr::Emit(b(Expr::Var(2))), lit_str("b"), jump_e(), Expr::Emit(b(int(9)))]),
                Expr::List(vec![int(1), Expr::List(vec![Expr::Emit(b(Expr::Var(2))), Expr::Tuple(vec![jump_e(), int(3)])]), Expr::Emit(b(int(4)))]),
                Expr::Arith(ArithOp::Add, b(Expr::List(vec![Expr::Emit(b(Expr::Var(2)))])), b(Expr::List(vec![jump_e(), Expr::Emit(b(int(9)))]))),
            ];
            for sh in shapes {
                for looped in 0..2 {
                    let held = Expr::List(vec![sh.clone()]);
                    let body = Expr::Block(vec![Expr::Assign(3, b(held.clone())), Expr::Emit(b(Expr::Var(3))), Expr::Var(2)]);
                    let lp = if looped == 0 {
                        Expr::For(2, b(rng_e(0, 3, false)), b(body))
                    } else {
                        // while with a counter
                        Expr::While(
                            b(Expr::Cmp(b(Expr::Var(2)), vec![(CmpOp::Lt, int(3))])),
                            b(Expr::Block(vec![Expr::OpAssign(ArithOp::Add, 2, b(int(1))), Expr::Assign(3, b(held.clone())), Expr::Emit(b(Expr::Var(3))), Expr::Var(2)])),
                        )
                    };
                    out.push((
                        "jump-in-literal",
                        Expr::Block(vec![Expr::Assign(2, b(int(-1))), Expr::Assign(3, b(int(0))), Expr::Assign(1, b(lp)), Expr::Tuple(vec![Expr::Var(1), Expr::Var(3)])]),
                    ));
                }
            }
        }
    }
    out
}

fn replay_detail(cx: &mut Ctx, d: &serde_json::Value, label: &str) -> bool {
    let src = d["source"].as_str().unwrap_or("");
    let req = d["request"].as_str().unwrap_or("");
    let keeps = d["keeps_value"].as_bool().unwrap_or(true);
    let ctx = if keeps { Context::Top } else { Context::Ignored };
    let m = parse_model(&cx.drv.ask(req));
    let i = run_koto(src);
    let ok = agree(&m, &i, &ctx);
    println!("[{}] {}\nsource:\n{}\nmodel: {:?}\nimpl : {:?}\n{}", label, if ok { "agree" } else { "DISAGREE" }, src, expected(&m, &ctx), i, i.message);
    ok
}

fn main() {
    kvh::quiet_panics();
    let args = Args::parse();

    // probe mode: run Koto snippets separated by `---` lines
    if let Some(i) = args.extra.iter().position(|x| x == "--probe") {
        let src = std::fs::read_to_string(&args.extra[i + 1]).unwrap();
        for part in src.split("\n---\n") {
            let o = run_koto(part);
            println!("=== {}\n{} | {}\n{}", part.trim(), o.result, o.trace.join(" ;; "), o.message.lines().next().unwrap_or(""));
        }
        return;
    }

    let mut rep = Report::new("C01", &args);
    rep.rule = "cases = (program, surrounding context) pairs run through the real runtime and the Lean evaluator, plus operator trees / token lists run through the real parser and Model/Prec; programs come from a seeded typed-ish generator (size/depth bounded), from the exhaustive enumeration of small operator trees and from the corpus; distinct = distinct (context, model request) lines; non-trivial = program with at least 3 AST nodes and at least one operator / index node (every precedence case counts)".into();
    let drv = Driver::spawn(&args.driver);
    let mut cx = Ctx {
        rep,
        drv,
        stats: GenStats::default(),
        mismatches: 0,
        skipped_unmodelled: 0,
        programs_run: 0,
        well_formed: 0,
        gen_run: 0,
        gen_well_formed: 0,
        runs: 0,
        no_filter: args.has_flag("--no-filter"),
        verbose: args.has_flag("--verbose"),
    };
    let thorough = args.thorough();

    if let Some(p) = &args.replay {
        let v: serde_json::Value = serde_json::from_str(&std::fs::read_to_string(p).expect("replay file")).unwrap();
        let d = &v["detail"];
        if d.get("tree").is_some() || d["request"].as_str().is_some_and(|r| r.starts_with("ptoks")) {
            let src = d["source"].as_str().unwrap_or("");
            println!("source: {}\nreal parse: {:?}\nmodel parse: {}", src, real_parse_shape(src), d["model_parse"]);
            let ok = real_parse_shape(src).ok().map(|r| Some(r.as_str()) == d["model_parse"].as_str().map(model_shape_to_ast_names).as_deref()).unwrap_or(false);
            if !ok {
                cx.rep.violation("D", "C01:K4:precedence", d.clone());
            }
        } else if !replay_detail(&mut cx, d, "replay") {
            cx.rep.violation("D", "C01:K1:replay", d.clone());
        }
        std::process::exit(cx.rep.finish());
    }

    // 0. known findings: replay the recorded witnesses
    for e in cx.rep.known_entries() {
        let id = e["id"].as_str().unwrap_or("?").to_string();
        let open = e["status"].as_str() == Some("known");
        let mut still = 0;
        let mut total = 0;
        for w in e["witnesses"].as_array().cloned().unwrap_or_default() {
            total += 1;
            let src = w["source"].as_str().unwrap_or("");
            let req = w["request"].as_str().unwrap_or("");
            let m = parse_model(&cx.drv.ask(req));
            let i = run_koto(src);
            cx.rep.case(&format!("witness|{}", req), true);
            if !agree(&m, &i, &Context::Top) {
                still += 1;
                if !open {
                    cx.rep.violation("D", &format!("C01:regression:{}", id), json!({"note": "a finding recorded as fixed fails again", "source": src, "request": req,
                        "keeps_value": true, "impl": {"result": i.result, "trace": i.trace}, "model": {"result": m.result, "trace": m.trace}}));
                }
            }
        }
        if open && still > 0 {
            cx.rep.known(&id, &format!("{} of {} recorded witnesses still disagree with the guide semantics ({})", still, total, e["what"].as_str().unwrap_or("")));
        }
        cx.rep.bump_by(&format!("witness_still_failing_{}", id), still);
    }

    // 1. corpus (minimised past failures, hand-written witnesses): JSON files {source, request, keeps_value}
    if let Some(dir) = &args.corpus {
        if let Ok(rd) = std::fs::read_dir(dir) {
            let mut ps: Vec<_> = rd.filter_map(|e| e.ok()).map(|e| e.path()).filter(|p| p.extension().is_some_and(|x| x == "json")).collect();
            ps.sort();
            for p in ps {
                let Ok(txt) = std::fs::read_to_string(&p) else { continue };
                let Ok(v) = serde_json::from_str::<serde_json::Value>(&txt) else { continue };
                let cases = v.as_array().cloned().unwrap_or_else(|| vec![v.clone()]);
                for d in cases {
                    let src = d["source"].as_str().unwrap_or("");
                    let req = d["request"].as_str().unwrap_or("");
                    let keeps = d["keeps_value"].as_bool().unwrap_or(true);
                    let ctx = if keeps { Context::Top } else { Context::Ignored };
                    let m = parse_model(&cx.drv.ask(req));
                    let i = run_koto(src);
                    cx.rep.case(&format!("corpus|{}|{}", src, req), true);
                    cx.rep.bump("origin=corpus");
                    if m.result.starts_with("bad-") || !agree(&m, &i, &ctx) {
                        cx.mismatches += 1;
                        cx.rep.violation("D", "C01:K1:corpus", json!({"file": p.display().to_string(), "source": src, "request": req, "keeps_value": keeps,
                            "impl": {"result": i.result, "trace": i.trace, "message": i.message}, "model": {"result": m.result, "trace": m.trace}}));
                    }
                }
            }
        }
    }

    // 2. (K4) precedence
    let mut rng = Rng::new(args.seed);
    let mut prng = rng.fork();
    k4(&mut cx, &mut prng, if thorough { 40000 } else { 4000 });

    // 3. (K1) generated programs × contexts
    let n_programs: usize = args
        .extra
        .iter()
        .position(|x| x == "--programs")
        .and_then(|i| args.extra.get(i + 1))
        .and_then(|s| s.parse().ok())
        .unwrap_or(if thorough { 300_000 } else { 3000 });
    let mut produced = 0usize;
    let mut attempts = 0usize;
    let mut filtered_known: std::collections::BTreeMap<&'static str, u64> = Default::default();
    let mut filtered_outside: std::collections::BTreeMap<&'static str, u64> = Default::default();
    let mut shape_tally: std::collections::BTreeMap<(&'static str, bool), u64> = Default::default();
    while produced < n_programs && attempts < n_programs * 4 {
        // one batch
        let mut batch: Vec<(Expr, Vec<Context>, u64)> = vec![];
        while batch.len() < 400 && produced + batch.len() < n_programs && attempts < n_programs * 4 {
            attempts += 1;
            let mut prog_rng = rng.fork();
            let limits = if thorough && prog_rng.chance(1, 6) {
                Limits { max_nodes: 40 + prog_rng.below(50), max_depth: 7 }
            } else {
                Limits { max_nodes: 8 + prog_rng.below(33), max_depth: 3 + prog_rng.below(4) }
            };
            let (p, st) = {
                let mut g = Gen::new(&mut prog_rng, &limits);
                let p = c01_gen::generator::normalise(g.program());
                (p, g.stats.clone())
            };
            if let Some(r) = envelope::outside_model(&p) {
                *filtered_outside.entry(r).or_insert(0) += 1;
                continue;
            }
            if let Some(id) = envelope::known_shape(&p, true) {
                *filtered_known.entry(id).or_insert(0) += 1;
                if cx.no_filter {
                    // diagnostic only (never part of a check run): how often does a program of a
                    // defect shape actually disagree?
                    let m = parse_model(&cx.drv.ask(&request(&p)));
                    if !m.result.starts_with("X:") && m.result != "E:unbound" {
                        let src = render::render(&p, &Context::Top, 1).unwrap();
                        let i = run_koto(&src);
                        let bad = !agree(&m, &i, &Context::Top);
                        *shape_tally.entry((id, bad)).or_insert(0) += 1;
                        if bad && p.size() < 30 {
                            eprintln!("SHAPE {} disagrees:\n{}model {:?}\nimpl  {:?}\n", id, src, m, i);
                        }
                    }
                }
                continue;
            }
            cx.stats.conditions += st.conditions;
            cx.stats.conditions_with_variable += st.conditions_with_variable;
            cx.stats.ill_typed_injected += st.ill_typed_injected;
            let contexts = pick_contexts(&mut prog_rng, thorough);
            let style = prog_rng.next_u64();
            batch.push((p, contexts, style));
        }
        if batch.is_empty() {
            break;
        }
        let reqs: Vec<String> = batch.iter().map(|(p, _, _)| request(p)).collect();
        let resps = cx.drv.batch(&reqs);
        for ((p, contexts, style), resp) in batch.iter().zip(resps.iter()) {
            p.walk(&mut |e| cx.rep.bump(&format!("node={}", e.kind())));
            cx.rep.bump(&format!("program_nodes={}", (p.size() / 10) * 10));
            cx.rep.bump(&format!("program_depth={}", p.depth().min(12)));
            cx.rep.bump("origin=generated");
            cx.check_program(p, resp, contexts, *style, "generated");
        }
        produced += batch.len();
    }
    if cx.no_filter {
        eprintln!("shape tally (id, disagrees) -> count: {:?}", shape_tally);
    }
    for (k, v) in &filtered_known {
        cx.rep.bump_by(&format!("filtered_known_shape={}", k), *v);
    }
    for (k, v) in &filtered_outside {
        cx.rep.bump_by(&format!("filtered_outside_model={}", k), *v);
    }

    // 3b. constant-pool family: the same programs behind a prelude that fills the chunk's constant
    //     pool, so that their literals / non-local identifiers get constant indices around the
    //     varint boundaries of the instruction encoding (2^7, 2^14; 2^21 in the thorough tier)
    {
        fn pool_constants(p: &Expr) -> usize {
            let mut n = 0;
            p.walk(&mut |e| match e {
                Expr::Lit(Lit::Float(_)) | Expr::Lit(Lit::Str(_)) | Expr::Emit(_) | Expr::Print(_) | Expr::Size(_) | Expr::Interp(_) => n += 1,
                Expr::Lit(Lit::Int(i)) if *i > 32767 || *i < -32768 => n += 1,
                _ => {}
            });
            n
        }
        // a hand-built "constant table" program: every kind of constant and non-local identifier
        let table = Expr::Block(vec![
            Expr::Emit(b(int(100001))),
            Expr::Emit(b(int(-70000))),
            Expr::Emit(b(Expr::Lit(Lit::Float(2.5)))),
            Expr::Emit(b(Expr::Lit(Lit::Str("abc".into())))),
            Expr::Emit(b(Expr::Size(b(Expr::Lit(Lit::Str("hello".into())))))),
            Expr::Print(b(Expr::Lit(Lit::Str("x y".into())))),
            Expr::Assign(0, b(int(123456))),
            Expr::Emit(b(Expr::Arith(ArithOp::Add, b(Expr::Var(0)), b(int(654321))))),
            Expr::Emit(b(Expr::Interp(vec![Expr::Var(0), Expr::Lit(Lit::Str("!".into()))]))),
            Expr::Assign(1, b(Expr::List(vec![Expr::Lit(Lit::Float(1.5)), Expr::Lit(Lit::Str("q".into())), int(99999)]))),
            Expr::Emit(b(Expr::Index(b(Expr::Var(1)), b(int(2))))),
            Expr::Arith(ArithOp::Add, b(int(300000)), b(Expr::Lit(Lit::Float(0.5)))),
        ]);
        let mut crng = rng.fork();
        let mut jobs: Vec<(Expr, Vec<Context>, u64)> = vec![];
        // the table program at every pool size of the two boundary windows
        let mut table_ctx: Vec<Context> = (120..=135).map(|n| Context::ConstPool(n, n % 2 == 0)).collect();
        if thorough {
            table_ctx.extend((16370..=16400).map(|n| Context::ConstPool(n, n % 2 == 1)));
        } else {
            for _ in 0..3 {
                table_ctx.push(Context::ConstPool(16370 + crng.below(14), crng.chance(1, 2)));
            }
            table_ctx.push(Context::ConstPool(16384 + crng.below(17), crng.chance(1, 2)));
        }
        if thorough {
            for k in 0..3 {
                table_ctx.push(Context::ConstPool(2_097_140 + 6 * k, k == 1));
            }
        }
        jobs.push((table, table_ctx, 0));
        // generated programs that contain several pool constants
        let (n_small, every_big, n_huge) = if thorough { (3000usize, 5usize, 6usize) } else { (60, 6, 0) };
        let mut made = 0usize;
        let mut tries = 0usize;
        while made < n_small && tries < n_small * 30 {
            tries += 1;
            let mut prog_rng = crng.fork();
            let limits = Limits { max_nodes: 12 + prog_rng.below(30), max_depth: 3 + prog_rng.below(4) };
            let p = {
                let mut g = Gen::new(&mut prog_rng, &limits);
                c01_gen::generator::normalise(g.program())
            };
            let c = pool_constants(&p);
            if c < 3 || envelope::outside_model(&p).is_some() || envelope::known_shape(&p, true).is_some() {
                continue;
            }
            // pool sizes: half from the boundary windows, half placed so that the program's own
            // constants straddle the boundary
            let pick = |rng: &mut Rng, boundary: usize, lo: usize, hi: usize| {
                if rng.chance(1, 2) { lo + rng.below(hi - lo + 1) } else { boundary.saturating_sub(rng.below(c + 4)) }
            };
            let mut ctxs = vec![Context::ConstPool(pick(&mut prog_rng, 128, 120, 135), prog_rng.chance(1, 2))];
            if made % every_big == 0 {
                ctxs.push(Context::ConstPool(pick(&mut prog_rng, 16384, 16370, 16400), prog_rng.chance(1, 2)));
            }
            if made < n_huge {
                ctxs.push(Context::ConstPool(pick(&mut prog_rng, 2_097_152, 2_097_140, 2_097_160), prog_rng.chance(1, 2)));
            }
            jobs.push((p, ctxs, prog_rng.next_u64()));
            made += 1;
        }
        let reqs: Vec<String> = jobs.iter().map(|(p, _, _)| request(p)).collect();
        let resps = cx.drv.batch(&reqs);
        let mut runs = 0usize;
        for ((p, ctxs, style), resp) in jobs.iter().zip(resps.iter()) {
            cx.rep.bump("origin=const-pool-family");
            runs += ctxs.len();
            cx.check_program(p, resp, ctxs, *style, "const-pool");
        }
        cx.rep.extra.insert(
            "constant_pool_family".into(),
            json!({"note": "programs evaluated behind a prelude of N distinct int/float/string/identifier constants; the program's own literals and the non-local identifiers emit/print/size then have constant indices around N",
                   "pool_sizes": if thorough { "table program: every N in 120..=135 and 16370..=16400, 3 × ~2^21; generated: N around 2^7 for each, around 2^14 for every 5th, around 2^21 for 6" }
                                 else { "table program: every N in 120..=135, 4 × N in 16370..=16400; generated: N around 2^7 for each, around 2^14 for every 6th" },
                   "programs": jobs.len(), "runs": runs}),
        );
    }

    // 3c. structured families (bounded-exhaustive, built directly as ASTs): positional container
    //     operations and ranges in both of KRange's representations
    {
        let progs = structured_families(thorough);
        cx.rep.extra.insert(
            "structured_families".into(),
            json!({"programs": progs.len(), "contexts": ["top", "function"],
                   "families": ["map-position: maps of 0..8 entries × index {first, second, middle, last-1, last, -1, len, len+3, fractional} × new entry {new key, same key at that position, key of another entry (first / last), not a tuple, 3-tuple}; observed: value of the assignment, the whole ordered map, positional reads, iteration order",
                                "list-position: lists of 0..5 elements × number and range index assignment over the grid {-1,0,1,2,len-1,len,len+2}² (inclusive/exclusive, open ends)",
                                "position-read: list / tuple / string / map / range indexing and slicing over the same grids",
                                "range-representation: bounds around 0, ±2^31 and large i64 (both KRange representations), inclusive/exclusive, ascending/descending/empty/single: for (with and without break), size, indexing, slicing a list by the range, the range value itself",
                                "fresh-container: every operation that yields a new list / map (slices with full / open / clamped / covering ranges, + with an empty operand, nested slices, through if) followed by a mutation of the result or of the original; both observed",
                                "literal-identity: pairs of literals in one script that are == but not identical or equal in text but different in kind (0.0/-0.0, int/float of the same value, numbers/strings, strings naming identifiers), both orders, observed directly, through 1/x, +, map values and ==",
                                "jump-in-literal: break / break value / continue inside list, tuple, map and interpolated-string literals within loops"]}),
        );
        let ctxs = [Context::Top, Context::Function];
        for chunk in progs.chunks(2000) {
            let reqs: Vec<String> = chunk.iter().map(|(_, p)| request(p)).collect();
            let resps = cx.drv.batch(&reqs);
            for ((fam, p), resp) in chunk.iter().zip(resps.iter()) {
                if let Some(id) = envelope::known_shape(p, true) {
                    cx.rep.bump(&format!("family_program_of_known_shape={}", id));
                    continue;
                }
                cx.rep.bump(&format!("origin=family:{}", fam));
                cx.check_program(p, resp, &ctxs, 0, fam);
            }
        }
    }

    // 4. exhaustive small operator trees (operands observable through emit)
    {
        let max_full = 2; // all operand assignments up to this many operators
        let ctxs = [Context::Top, Context::Function];
        let mut progs: Vec<Expr> = vec![];
        let n_max = if thorough { 3 } else { 2 };
        for n in 1..=n_max {
            for sh in shapes(n) {
                let mut ops = vec![0usize; n];
                loop {
                    let mut leaves = vec![0usize; n + 1];
                    let mut sample_rng = rng.fork();
                    let mut emitted = 0;
                    loop {
                        let take = if n <= max_full {
                            // quick tier: every operand assignment for 1 operator, a third for 2
                            thorough || n == 1 || sample_rng.chance(1, 3)
                        } else {
                            false
                        };
                        if take {
                            let mut oi = ops.iter().map(|i| TREE_OPS[*i]);
                            let mut li = leaves.iter().copied();
                            progs.push(build(&sh, &mut oi, &mut li));
                        }
                        if !counter_next(&mut leaves, 7) {
                            break;
                        }
                    }
                    if n > max_full {
                        // 3 operators: every shape × operator triple, 12 sampled operand assignments
                        while emitted < 12 {
                            let l: Vec<usize> = (0..=n).map(|_| sample_rng.below(7)).collect();
                            let mut oi = ops.iter().map(|i| TREE_OPS[*i]);
                            let mut li = l.iter().copied();
                            progs.push(build(&sh, &mut oi, &mut li));
                            emitted += 1;
                        }
                    }
                    if !counter_next(&mut ops, TREE_OPS.len()) {
                        break;
                    }
                }
            }
        }
        // comparison chains of length 2 and 3 over {<, <=, ==, !=} (equality first), all 7 operand kinds
        let chain_ops = [CmpOp::Lt, CmpOp::Ge, CmpOp::Eq, CmpOp::Ne];
        for o1 in chain_ops {
            for o2 in chain_ops {
                if !o1.is_equality() && o2.is_equality() {
                    continue;
                }
                let mut leaves = vec![0usize; 3];
                loop {
                    progs.push(Expr::Cmp(b(operand(leaves[0])), vec![(o1, operand(leaves[1])), (o2, operand(leaves[2]))]));
                    if !counter_next(&mut leaves, 7) {
                        break;
                    }
                }
            }
        }
        cx.rep.extra.insert(
            "exhaustive_operator_trees".into(),
            json!({"operators": TREE_OPS.iter().map(|o| format!("{:?}", o)).collect::<Vec<_>>(), "operand_kinds": ["3", "-2", "1.5", "'ab'", "[1]", "null", "true"],
                   "complete_up_to_operators": if thorough { 2 } else { 1 }, "three_operator_trees": if thorough { "every shape × operator triple × 12 sampled operand assignments" } else { "thorough tier only" },
                   "programs": progs.len(), "contexts": ["top", "function"]}),
        );
        for chunk in progs.chunks(2000) {
            let reqs: Vec<String> = chunk.iter().map(request).collect();
            let resps = cx.drv.batch(&reqs);
            for (p, resp) in chunk.iter().zip(resps.iter()) {
                cx.rep.bump("origin=operator-tree");
                cx.check_program(p, resp, &ctxs, 0, "operator-tree");
            }
        }
    }

    // evidence
    let st = cx.stats.clone();
    cx.rep.extra.insert("programs_generated_and_run".into(), json!(cx.programs_run));
    cx.rep.extra.insert("impl_runs".into(), json!(cx.runs));
    cx.rep.extra.insert(
        "well_formed_share".into(),
        json!({"generated_programs": cx.gen_run, "generated_with_value_outcome": cx.gen_well_formed,
               "share_generated": if cx.gen_run > 0 { cx.gen_well_formed as f64 / cx.gen_run as f64 } else { 0.0 },
               "all_programs_incl_operator_trees": cx.programs_run, "all_with_value_outcome": cx.well_formed,
               "note": "a program is counted well-formed when its reference outcome is a value (no type/index error anywhere); the others still compile and are compared on error class and on the trace up to the error; the exhaustive operator trees pair every operator with every operand kind, so most of them are type errors by design"}),
    );
    cx.rep.extra.insert(
        "conditions".into(),
        json!({"total": st.conditions, "reading_a_variable": st.conditions_with_variable,
               "non_constant_share": if st.conditions > 0 { st.conditions_with_variable as f64 / st.conditions as f64 } else { 0.0 }}),
    );
    cx.rep.extra.insert("ill_typed_operands_injected".into(), json!(st.ill_typed_injected));
    cx.rep.extra.insert("skipped_outside_model_at_run_time".into(), json!(cx.skipped_unmodelled));
    cx.rep.extra.insert("k1_disagreements".into(), json!(cx.mismatches));
    cx.rep.extra.insert("driver_requests".into(), json!(cx.drv.requests));
    cx.rep.extra.insert("generator_attempts".into(), json!(attempts));
    std::process::exit(cx.rep.finish());
}
