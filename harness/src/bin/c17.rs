//! C17 — objects: operators and protocols dispatch to metamap entries as documented.
//!
//! (K) for every generated case (operand descriptions × operation) the trace of callee invocations
//!     (which metakey function / host method ran, with which `self` and arguments) and the result
//!     class of the real runtime are compared with the Lean model `Model/Meta.lean`;
//! (D) the documented rules (own key first, right-operand fallback, derived comparisons, access
//!     order, shared ≈ own metamap, …) are evaluated directly on the implementation's trace.
use koto_runtime::{
    prelude::*, ErrorKind, IsIterable, KotoAccess, KotoCopy, KotoFile, KotoObject, KotoRead, KotoType,
    KotoVm, KotoVmSettings, KotoWrite, Ptr, Result as KResult,
};
use koto_runtime::derive::{koto_get, koto_get_fallback, koto_get_override, koto_impl, koto_method, koto_set, koto_set_fallback, koto_set_override};
use kvh::{Args, Driver, Report, Rng};
use serde::{Deserialize, Serialize};
use serde_json::json;
use std::cell::RefCell;
use std::collections::BTreeMap;

// ------------------------------------------------------------------------------------------------
// case descriptions (mirror of the Lean structures)
// ------------------------------------------------------------------------------------------------

#[derive(Clone, Copy, Debug, PartialEq, Eq, Serialize, Deserialize)]
enum PrimK {
    Null,
    Bool,
    Num,
    Str,
    List,
    Tuple,
    Range,
    Fn,
    Iter,
}
impl PrimK {
    fn name(self) -> &'static str {
        match self {
            PrimK::Null => "null",
            PrimK::Bool => "bool",
            PrimK::Num => "num",
            PrimK::Str => "str",
            PrimK::List => "list",
            PrimK::Tuple => "tuple",
            PrimK::Range => "range",
            PrimK::Fn => "fn",
            PrimK::Iter => "iter",
        }
    }
    fn literal(self) -> &'static str {
        match self {
            PrimK::Null => "null",
            PrimK::Bool => "true",
            PrimK::Num => "7",
            PrimK::Str => "'s'",
            PrimK::List => "[1]",
            PrimK::Tuple => "(1,)",
            PrimK::Range => "0..2",
            PrimK::Fn => "|x| 0",
            PrimK::Iter => "(1,).iter()",
        }
    }
    fn av(self) -> &'static str {
        match self {
            PrimK::Null => "null",
            PrimK::Bool => "b1",
            PrimK::Num => "i7",
            PrimK::Str => "s:s",
            PrimK::List => "(l i1)",
            PrimK::Tuple => "(t i1)",
            PrimK::Range => "range",
            PrimK::Fn => "fn",
            PrimK::Iter => "iter",
        }
    }
}

/// how a nest of auxiliary `@iterator` objects ends
#[derive(Clone, Copy, Debug, PartialEq, Eq, Serialize, Deserialize)]
enum NestFin {
    Lst,
    Int,
    Back,
}
impl NestFin {
    fn name(self) -> &'static str {
        match self {
            NestFin::Lst => "lst",
            NestFin::Int => "int",
            NestFin::Back => "back",
        }
    }
}

#[derive(Clone, Copy, Debug, PartialEq, Eq, Serialize, Deserialize)]
enum RV {
    Null,
    Bool(bool),
    Int(i64),
    Str,
    SelfV,
    Lst,
    Tup,
    Iter,
    Rng,
    PMap,
    Gen,
    InnerNext,
    InnerIter,
    /// head of a nest of `d` auxiliary objects n910…, each `@iterator` returning the next one, the
    /// last returning `fin` (Back: the object the iteration started from — a cycle)
    Nest(u32, NestFin),
}
impl RV {
    fn sexp(self) -> String {
        match self {
            RV::Null => "null".into(),
            RV::Bool(b) => if b { "b1".into() } else { "b0".into() },
            RV::Int(n) => format!("i{}", n),
            RV::Str => "str".into(),
            RV::SelfV => "self".into(),
            RV::Lst => "lst".into(),
            RV::Tup => "tup".into(),
            RV::Iter => "iter".into(),
            RV::Rng => "rng".into(),
            RV::PMap => "pmap".into(),
            RV::Gen => "gen".into(),
            RV::InnerNext => "innernext".into(),
            RV::InnerIter => "inneriter".into(),
            RV::Nest(d, fin) => format!("nest:{}:{}", d, fin.name()),
        }
    }
    fn koto(self) -> String {
        match self {
            RV::Null => "null".into(),
            RV::Bool(b) => b.to_string(),
            RV::Int(n) => n.to_string(),
            RV::Str => "'r'".into(),
            RV::SelfV => "self".into(),
            RV::Lst => "[20, 21]".into(),
            RV::Tup => "(20, 21)".into(),
            RV::Iter => "(20, 21).iter()".into(),
            RV::Rng => "0..2".into(),
            RV::PMap => "{ka: 1}".into(),
            RV::Gen => "yield 20".into(), // see beh_body: the function is a generator
            RV::InnerNext => "n900".into(),
            RV::InnerIter => "n901".into(),
            RV::Nest(0, NestFin::Lst) => "[20, 21]".into(),
            RV::Nest(0, NestFin::Int) => "5".into(),
            RV::Nest(0, NestFin::Back) => "self".into(),
            RV::Nest(..) => "n910".into(),
        }
    }
    /// canonical text of the value when `self` renders as `slf`
    fn av(self, slf: &str) -> String {
        match self {
            RV::Null => "null".into(),
            RV::Bool(b) => if b { "b1".into() } else { "b0".into() },
            RV::Int(n) => format!("i{}", n),
            RV::Str => "s:r".into(),
            RV::SelfV => slf.to_string(),
            RV::Lst => "(l i20 i21)".into(),
            RV::Tup => "(t i20 i21)".into(),
            RV::Iter | RV::Gen => "iter".into(),
            RV::Rng => "range".into(),
            RV::PMap => "m:?".into(),
            RV::InnerNext => "m:n900".into(),
            RV::InnerIter => "m:n901".into(),
            RV::Nest(0, NestFin::Lst) => "(l i20 i21)".into(),
            RV::Nest(0, NestFin::Int) => "i5".into(),
            RV::Nest(0, NestFin::Back) => slf.to_string(),
            RV::Nest(..) => "m:n910".into(),
        }
    }
}

#[derive(Clone, Copy, Debug, PartialEq, Eq, Serialize, Deserialize)]
enum Beh {
    Ret(RV),
    Unimpl,
    Throw,
    Count(u32),
}
impl Beh {
    fn sexp(self) -> String {
        match self {
            Beh::Ret(v) => format!("(r {})", v.sexp()),
            Beh::Unimpl => "u".into(),
            Beh::Throw => "t".into(),
            Beh::Count(n) => format!("(c {})", n),
        }
    }
}

#[derive(Clone, Debug, PartialEq, Eq, Serialize, Deserialize)]
enum MV {
    Fn(Beh),
    /// a native (Rust) function made by `mknf`, tracing like a generated Koto function, returning the value
    Native(RV),
    NonCallable,
    Chain(Vec<usize>, Option<Beh>),
}
impl MV {
    fn sexp(&self) -> String {
        match self {
            MV::Fn(b) => format!("(f {})", b.sexp()),
            MV::Native(v) => format!("(nat {})", v.sexp()),
            MV::NonCallable => "nc".into(),
            MV::Chain(m, b) => format!(
                "(ch ({}) {})",
                m.iter().map(|x| x.to_string()).collect::<Vec<_>>().join(" "),
                b.map(|b| b.sexp()).unwrap_or("-".into())
            ),
        }
    }
}

#[derive(Clone, Copy, Debug, PartialEq, Eq, Serialize, Deserialize)]
enum TypeD {
    None,
    Str(usize),
    NonStr,
}

#[derive(Clone, Debug, PartialEq, Eq, Serialize, Deserialize)]
struct Meta {
    tag: usize,
    ops: Vec<(String, MV)>, // MetaKeyId name
    named: Vec<usize>,
    ty: TypeD,
    base_bad: bool,
}
impl Meta {
    fn new(tag: usize) -> Meta {
        Meta { tag, ops: vec![], named: vec![], ty: TypeD::None, base_bad: false }
    }
    fn sexp(&self) -> String {
        format!(
            "(M {} (ops{}) (named{}) {} {})",
            self.tag,
            self.ops.iter().map(|(k, v)| format!(" ({} {})", k, v.sexp())).collect::<String>(),
            self.named.iter().map(|k| format!(" {}", k)).collect::<String>(),
            match self.ty {
                TypeD::None => "-".to_string(),
                TypeD::Str(n) => format!("(ty {})", n),
                TypeD::NonStr => "bad".to_string(),
            },
            self.base_bad as u8
        )
    }
    fn get(&self, k: &str) -> Option<&MV> {
        self.ops.iter().find(|(n, _)| n == k).map(|(_, v)| v)
    }
}

#[derive(Clone, Debug, PartialEq, Eq, Serialize, Deserialize)]
enum Src {
    None,
    Own(Meta),
    /// `data.with_meta proto` (`via_get_meta`: `data.with_meta(map.get_meta proto)`)
    Shared { proto: usize, meta: Option<Meta>, via_get_meta: bool },
}
impl Src {
    fn meta(&self) -> Option<&Meta> {
        match self {
            Src::None => None,
            Src::Own(m) => Some(m),
            Src::Shared { meta, .. } => meta.as_ref(),
        }
    }
    fn sexp(&self) -> String {
        match self {
            Src::None => "-".into(),
            Src::Own(m) => format!("(own {})", m.sexp()),
            Src::Shared { proto, meta, .. } => {
                format!("(sh {} {})", proto, meta.as_ref().map(|m| m.sexp()).unwrap_or("-".into()))
            }
        }
    }
}

#[derive(Clone, Debug, PartialEq, Eq, Serialize, Deserialize)]
struct Layer {
    name: usize,
    data: Vec<usize>,
    src: Src,
}
impl Layer {
    fn sexp(&self) -> String {
        format!(
            "(L {} (d{}) {})",
            self.name,
            self.data.iter().map(|k| format!(" {}", k)).collect::<String>(),
            self.src.sexp()
        )
    }
}

#[derive(Clone, Copy, Debug, PartialEq, Eq, Serialize, Deserialize, Default)]
enum HostIter {
    #[default]
    NotIterable,
    Iterable,
    Forward(u32),
    Bidirectional(u32),
}

#[derive(Clone, Debug, PartialEq, Eq, Serialize, Deserialize)]
struct HostD {
    name: usize,
    imp: Vec<(String, Beh)>, // host method name
    #[serde(default)]
    iter: HostIter,
}
impl HostD {
    fn get(&self, m: &str) -> Option<Beh> {
        self.imp.iter().find(|(n, _)| n == m).map(|(_, b)| *b)
    }
}

/// A host object whose `KotoAccess` comes from `#[koto_impl]` (crates/derive). The tables are fixed
/// by the Rust types `Dv0..Dv3` below: methods m1 (alias m1b), getters g1 (alias g1b), setters g1, s1;
/// `kind` bit0: has `#[koto_get_fallback]`/`#[koto_set_fallback]`, bit1: has the two overrides; which
/// keys those functions answer is chosen per instance.
#[derive(Clone, Debug, PartialEq, Eq, Serialize, Deserialize)]
struct DerivedD {
    name: usize,
    kind: u8,
    ov: Vec<usize>,
    fb: Vec<usize>,
    sov: Vec<usize>,
    sfb: Vec<usize>,
}
const DV_METHODS: [(usize, usize); 2] = [(5, 1), (6, 1)];
const DV_GETTERS: [(usize, usize); 2] = [(7, 1), (8, 1)];
const DV_SETTERS: [(usize, usize); 2] = [(7, 1), (9, 2)];
impl DerivedD {
    fn sexp(&self) -> String {
        let pairs = |xs: &[(usize, usize)]| xs.iter().map(|(k, f)| format!(" ({} {})", k, f)).collect::<String>();
        let opt = |on: bool, ks: &[usize]| {
            if on { format!("({})", ks.iter().map(|k| k.to_string()).collect::<Vec<_>>().join(" ")) } else { "-".to_string() }
        };
        format!(
            "(dv {} (methods{}) (getters{}) (setters{}) {} {} {} {})",
            self.name,
            pairs(&DV_METHODS),
            pairs(&DV_GETTERS),
            pairs(&DV_SETTERS),
            opt(self.kind & 2 != 0, &self.ov),
            opt(self.kind & 1 != 0, &self.fb),
            opt(self.kind & 2 != 0, &self.sov),
            opt(self.kind & 1 != 0, &self.sfb)
        )
    }
}

#[derive(Clone, Debug, PartialEq, Eq, Serialize, Deserialize)]
enum Opd {
    Prim(usize, PrimK), // variable id, kind
    Map(Vec<Layer>),    // top, base¹, base², …
    Host(HostD),
    Derived(DerivedD),
}
impl Opd {
    fn sexp(&self) -> String {
        match self {
            Opd::Prim(_, k) => format!("(p {})", k.name()),
            Opd::Map(ls) => format!("(m {})", ls.iter().map(|l| l.sexp()).collect::<Vec<_>>().join(" ")),
            Opd::Host(h) => format!(
                "(h {} 0 {}{})",
                h.name,
                match h.iter {
                    HostIter::NotIterable => "ni".to_string(),
                    HostIter::Iterable => "it".to_string(),
                    HostIter::Forward(n) => format!("(fw {})", n),
                    HostIter::Bidirectional(n) => format!("(bi {})", n),
                },
                h.imp.iter().map(|(m, b)| format!(" ({} {})", m, b.sexp())).collect::<String>()
            ),
            Opd::Derived(d) => d.sexp(),
        }
    }
    fn var(&self) -> String {
        match self {
            Opd::Prim(v, _) => format!("n{}", v),
            Opd::Map(ls) => format!("n{}", ls[0].name),
            Opd::Host(h) => format!("n{}", h.name),
            Opd::Derived(d) => format!("n{}", d.name),
        }
    }
    fn av(&self) -> String {
        match self {
            Opd::Prim(_, k) => k.av().to_string(),
            Opd::Map(ls) => format!("m:n{}", ls[0].name),
            Opd::Host(h) => format!("h:n{}#0", h.name),
            Opd::Derived(d) => format!("h:n{}#0", d.name),
        }
    }
    fn top_meta(&self) -> Option<&Meta> {
        match self {
            Opd::Map(ls) => ls[0].src.meta(),
            _ => None,
        }
    }
    /// replace shared metamaps by own copies
    fn unshare(&self) -> Opd {
        match self {
            Opd::Map(ls) => Opd::Map(
                ls.iter()
                    .map(|l| Layer {
                        name: l.name,
                        data: l.data.clone(),
                        src: match &l.src {
                            Src::Shared { meta: Some(m), .. } => Src::Own(m.clone()),
                            Src::Shared { meta: None, .. } => Src::None,
                            s => s.clone(),
                        },
                    })
                    .collect(),
            ),
            o => o.clone(),
        }
    }
    fn has_shared(&self) -> bool {
        matches!(self, Opd::Map(ls) if ls.iter().any(|l| matches!(l.src, Src::Shared { .. })))
    }
}

const ARITH: [(&str, &str, &str, &str, &str, &str, &str); 6] = [
    // name, symbol, MetaKeyId, rhs key, assign key, host method, (rhs/assign host methods derive)
    ("add", "+", "Add", "AddRhs", "AddAssign", "add", ""),
    ("sub", "-", "Subtract", "SubtractRhs", "SubtractAssign", "subtract", ""),
    ("mul", "*", "Multiply", "MultiplyRhs", "MultiplyAssign", "multiply", ""),
    ("div", "/", "Divide", "DivideRhs", "DivideAssign", "divide", ""),
    ("rem", "%", "Remainder", "RemainderRhs", "RemainderAssign", "remainder", ""),
    ("pow", "^", "Power", "PowerRhs", "PowerAssign", "power", ""),
];
const CMP: [(&str, &str, &str, &str); 6] = [
    ("lt", "<", "Less", "less"),
    ("le", "<=", "LessOrEqual", "less_or_equal"),
    ("gt", ">", "Greater", "greater"),
    ("ge", ">=", "GreaterOrEqual", "greater_or_equal"),
    ("eq", "==", "Equal", "equal"),
    ("ne", "!=", "NotEqual", "not_equal"),
];

/// MetaKeyId name ↦ (spelling after `@`, parameter list of the traced function)
const METAKEYS: [(&str, &str, &str); 37] = [
    ("Add", "+", "x"),
    ("Subtract", "-", "x"),
    ("Multiply", "*", "x"),
    ("Divide", "/", "x"),
    ("Remainder", "%", "x"),
    ("Power", "^", "x"),
    ("AddRhs", "r+", "x"),
    ("SubtractRhs", "r-", "x"),
    ("MultiplyRhs", "r*", "x"),
    ("DivideRhs", "r/", "x"),
    ("RemainderRhs", "r%", "x"),
    ("PowerRhs", "r^", "x"),
    ("AddAssign", "+=", "x"),
    ("SubtractAssign", "-=", "x"),
    ("MultiplyAssign", "*=", "x"),
    ("DivideAssign", "/=", "x"),
    ("RemainderAssign", "%=", "x"),
    ("PowerAssign", "^=", "x"),
    ("Less", "<", "x"),
    ("LessOrEqual", "<=", "x"),
    ("Greater", ">", "x"),
    ("GreaterOrEqual", ">=", "x"),
    ("Equal", "==", "x"),
    ("NotEqual", "!=", "x"),
    ("Negate", "negate", ""),
    ("Size", "size", ""),
    ("Display", "display", ""),
    ("Debug", "debug", ""),
    ("Iterator", "iterator", ""),
    ("Next", "next", ""),
    ("NextBack", "next_back", ""),
    ("Index", "index", "x"),
    ("IndexAssign", "index_assign", "x, y"),
    ("Access", "access", "x"),
    ("AccessAssign", "access_assign", "x, y"),
    ("Call", "call", "x"),
    ("", "", ""),
];
fn metakey_info(name: &str) -> (&'static str, &'static str) {
    METAKEYS.iter().find(|(n, _, _)| *n == name).map(|(_, s, p)| (*s, *p)).unwrap_or_else(|| panic!("metakey {}", name))
}

const KEY_NAMES: [&str; 11] = ["ka", "kb", "kf", "keys", "to_tuple", "m1", "m1b", "g1", "g1b", "s1", "zz"];
const KEY_FN: usize = 2;
const KEY_MAPMOD: usize = 3;

#[derive(Clone, Debug, PartialEq, Eq, Serialize, Deserialize)]
enum Op {
    Arith(usize),
    Compound(usize, bool), // bool: right operand is the same instance as the left (`x op= x`)
    Cmp(usize),
    Neg,
    Not,
    Size,
    Call,
    For,
    ToList,
    Reversed,
    Type,
    Display,
    DisplayNested,
    Debug,
    Index(bool),       // true: index 0, false: string index
    IndexAssign(bool), // idem
    Access(usize),
    Method(usize),
    AccessAssign(usize),
    CallPacked,            // `x((7,)...)`
    ApiIndexAssign(bool),  // KotoVm::run_write_op(WriteOp::IndexAssign, x, index, 5)
    MatchLast,             // `match x` / `(others..., last) then last`
    Literal,               // the operand's literal written with its data entries *after* the metakeys
    ApiCompound(usize),    // KotoVm::run_binary_op(BinaryOp::…Assign, a, b)
    DebugNested,           // `'{[x]:?}'`
}

#[derive(Clone, Debug, PartialEq, Eq, Serialize, Deserialize)]
struct Case {
    op: Op,
    a: Opd,
    b: Option<Opd>,
}

impl Case {
    fn request(&self) -> String {
        let a = match (&self.a, &self.op) {
            (Opd::Derived(_), Op::Access(_) | Op::Method(_) | Op::AccessAssign(_)) => self.a.sexp(),
            // every other operation of a #[koto_impl] object is a `KotoObject` trait default
            (Opd::Derived(d), _) => format!("(h {} 0 ni)", d.name),
            _ => self.a.sexp(),
        };
        let b = self.b.as_ref().map(|b| b.sexp()).unwrap_or_default();
        let idx = |n: bool| if n { "num0" } else { "str" };
        match &self.op {
            Op::Arith(i) => format!("arith {} {} {}", ARITH[*i].0, a, b),
            Op::Compound(i, same) => {
                let rhs = if *same { a.clone() } else { b };
                format!("compound {} {} {} {}", ARITH[*i].0, a, rhs, *same as u8)
            }
            Op::Cmp(i) => format!("cmp {} {} {}", CMP[*i].0, a, b),
            Op::Neg => format!("neg {}", a),
            Op::Not => format!("not {}", a),
            Op::Size => format!("size {}", a),
            Op::Call => format!("call {}", a),
            Op::For => format!("for {}", a),
            Op::ToList => format!("tolist {}", a),
            Op::Reversed => format!("reversed {}", a),
            Op::Type => format!("type {}", a),
            Op::Display => format!("display {}", a),
            Op::DisplayNested => format!("displaynested {}", a),
            Op::Debug => format!("debug {}", a),
            Op::Index(n) => format!("index {} {}", a, idx(*n)),
            Op::IndexAssign(n) => format!("indexassign {} {}", a, idx(*n)),
            Op::Access(k) if matches!(self.a, Opd::Derived(_)) => format!("daccess {} {}", a, k),
            Op::Method(k) if matches!(self.a, Opd::Derived(_)) => format!("dmethod {} {}", a, k),
            Op::AccessAssign(k) if matches!(self.a, Opd::Derived(_)) => format!("daccessassign {} {}", a, k),
            Op::Access(k) => format!("access {} {}", a, k),
            Op::Method(k) => format!("method {} {}", a, k),
            Op::AccessAssign(k) => format!("accessassign {} {}", a, k),
            Op::CallPacked => format!("callpacked {}", a),
            Op::ApiIndexAssign(n) => format!("apiindexassign {} {}", a, idx(*n)),
            Op::MatchLast => format!("matchlast {}", a),
            Op::ApiCompound(i) => format!("apicompound {} {} {}", ARITH[*i].0, a, b),
            Op::DebugNested => format!("debugnested {}", a),
            Op::Literal => match &self.a {
                Opd::Map(ls) => format!("literal {}", ls[0].sexp()),
                _ => "literal -".into(),
            },
        }
    }
    fn op_class(&self) -> &'static str {
        match &self.op {
            Op::Arith(_) => "arith",
            Op::Compound(..) => "compound",
            Op::Cmp(_) => "cmp",
            Op::Neg => "neg",
            Op::Not => "not",
            Op::Size => "size",
            Op::Call => "call",
            Op::For => "for",
            Op::ToList => "tolist",
            Op::Reversed => "reversed",
            Op::Type => "type",
            Op::Display => "display",
            Op::DisplayNested => "displaynested",
            Op::Debug => "debug",
            Op::Index(_) => "index",
            Op::IndexAssign(_) => "indexassign",
            Op::Access(_) => "access",
            Op::Method(_) => "method",
            Op::AccessAssign(_) => "accessassign",
            Op::CallPacked => "callpacked",
            Op::ApiIndexAssign(_) => "apiindexassign",
            Op::MatchLast => "matchlast",
            Op::Literal => "literal",
            Op::ApiCompound(_) => "apicompound",
            Op::DebugNested => "debugnested",
        }
    }
}

// ------------------------------------------------------------------------------------------------
// rendering to Koto source
// ------------------------------------------------------------------------------------------------

fn beh_body(b: Beh, tickkey: &str, ind: &str, out: &mut String) {
    match b {
        Beh::Ret(RV::Gen) => out.push_str(&format!("{}yield 20\n{}yield 21\n", ind, ind)),
        Beh::Ret(v) => out.push_str(&format!("{}{}\n", ind, v.koto())),
        Beh::Unimpl => out.push_str(&format!("{}throw koto.unimplemented\n", ind)),
        Beh::Throw => out.push_str(&format!("{}throw 'boom'\n", ind)),
        Beh::Count(n) => {
            out.push_str(&format!("{}c = tick '{}'\n", ind, tickkey));
            out.push_str(&format!("{}if c < {} then 10 + c else null\n", ind, n));
        }
    }
}

/// definitions that must precede the map literal (callable-map chains), and the entry's value text
fn render_mv(tag: usize, key: &str, mv: &MV, pre: &mut String, body: &mut String) {
    let (spell, params) = metakey_info(key);
    match mv {
        MV::NonCallable => body.push_str(&format!("  @{}: 42\n", spell)),
        MV::Native(v) => body.push_str(&format!("  @{}: mknf('n{}', '{}', {})\n", spell, tag, key, v.koto())),
        MV::Fn(b) => {
            body.push_str(&format!("  @{}: |{}|\n", spell, params));
            let args = if params.is_empty() { String::new() } else { format!(", {}", params) };
            body.push_str(&format!("    tr('n{}', '{}', self{})\n", tag, key, args));
            beh_body(*b, &format!("n{}.{}", tag, key), "    ", body);
        }
        MV::Chain(mids, fin) => {
            if mids.is_empty() {
                return render_mv(tag, key, &fin.map(MV::Fn).unwrap_or(MV::NonCallable), pre, body);
            }
            // define from the last callable map backwards
            for (i, m) in mids.iter().enumerate().rev() {
                pre.push_str(&format!("n{} =\n", m));
                if i + 1 == mids.len() {
                    match fin {
                        Some(b) => {
                            pre.push_str(&format!("  @call: |{}|\n", params));
                            let args = if params.is_empty() { String::new() } else { format!(", {}", params) };
                            pre.push_str(&format!("    tr('n{}', 'Call', self{})\n", m, args));
                            beh_body(*b, &format!("n{}.Call", m), "    ", pre);
                        }
                        None => pre.push_str("  @call: 42\n"),
                    }
                } else {
                    pre.push_str(&format!("  @call: n{}\n", mids[i + 1]));
                }
                pre.push_str(&format!("reg('n{}', n{})\n", m, m));
            }
            body.push_str(&format!("  @{}: n{}\n", spell, mids[0]));
        }
    }
}

fn render_data(l: &Layer, body: &mut String) {
    for k in &l.data {
        if *k == KEY_FN {
            body.push_str(&format!("  {}: |x|\n    tr('n{}', 'd.k{}', self, x)\n    77\n", KEY_NAMES[*k], l.name, k));
        } else {
            body.push_str(&format!("  {}: 'n{}.d.k{}'\n", KEY_NAMES[*k], l.name, k));
        }
    }
}

fn render_meta(m: &Meta, owner: usize, base: Option<usize>, pre: &mut String, body: &mut String) {
    for (k, mv) in &m.ops {
        render_mv(m.tag, k, mv, pre, body);
    }
    for k in &m.named {
        if *k == KEY_FN {
            body.push_str(&format!(
                "  @meta {}: |x|\n    tr('n{}', 'm.k{}', self, x)\n    77\n",
                KEY_NAMES[*k], owner, k
            ));
        } else {
            body.push_str(&format!("  @meta {}: 'n{}.m.k{}'\n", KEY_NAMES[*k], owner, k));
        }
    }
    match m.ty {
        TypeD::None => {}
        TypeD::Str(n) => body.push_str(&format!("  @type: 'T{}'\n", n)),
        TypeD::NonStr => body.push_str("  @type: 42\n"),
    }
    if m.base_bad {
        body.push_str("  @base: 42\n");
    } else if let Some(b) = base {
        body.push_str(&format!("  @base: n{}\n", b));
    }
}

/// `protos`: prototypes already defined in this script (so two operands can share one metamap)
fn render_layer(l: &Layer, base: Option<usize>, protos: &mut Vec<usize>, out: &mut String) {
    let mut pre = String::new();
    let mut body = String::new();
    match &l.src {
        Src::None => {
            render_data(l, &mut body);
            if body.is_empty() {
                out.push_str(&format!("n{} = {{}}\n", l.name));
            } else {
                out.push_str(&format!("n{} =\n{}", l.name, body));
            }
        }
        Src::Own(m) => {
            render_data(l, &mut body);
            render_meta(m, m.tag, base, &mut pre, &mut body);
            out.push_str(&pre);
            if body.is_empty() {
                // a metamap without any entry cannot be written as a literal; attach an empty one
                out.push_str(&format!("n{} = {{}}\n", l.name));
            } else {
                out.push_str(&format!("n{} =\n{}", l.name, body));
            }
        }
        Src::Shared { proto, meta, via_get_meta } => {
            if !protos.contains(proto) {
                protos.push(*proto);
                let mut pbody = String::from("  pk: 0\n");
                if let Some(m) = meta {
                    render_meta(m, m.tag, base, &mut pre, &mut pbody);
                }
                out.push_str(&pre);
                out.push_str(&format!("n{} =\n{}", proto, pbody));
            }
            render_data(l, &mut body);
            let src = if *via_get_meta && meta.is_some() {
                format!("(map.get_meta n{})", proto)
            } else {
                format!("n{}", proto)
            };
            if body.is_empty() {
                out.push_str(&format!("n{} = {{}}.with_meta {}\n", l.name, src));
            } else {
                out.push_str(&format!("n{}d =\n{}", l.name, body));
                out.push_str(&format!("n{} = n{}d.with_meta {}\n", l.name, l.name, src));
            }
        }
    }
    out.push_str(&format!("reg('n{}', n{})\n", l.name, l.name));
}

fn render_opd(o: &Opd, protos: &mut Vec<usize>, out: &mut String) {
    match o {
        Opd::Prim(v, k) => out.push_str(&format!("n{} = {}\n", v, k.literal())),
        Opd::Host(_) | Opd::Derived(_) => {} // inserted into the prelude from Rust
        Opd::Map(ls) => {
            for i in (0..ls.len()).rev() {
                let base = if i + 1 < ls.len() { Some(ls[i + 1].name) } else { None };
                render_layer(&ls[i], base, protos, out);
            }
        }
    }
}

/// the auxiliary objects an `@iterator` may return: n900 has `@next` (two values), n901 has its own
/// `@iterator` returning a list
const INNER_OBJECTS: &str = "n900 =\n  @next: ||\n    tr('n900', 'Next', self)\n    c = tick 'n900.Next'\n    if c < 2 then 10 + c else null\nreg('n900', n900)\nn901 =\n  @iterator: ||\n    tr('n901', 'Iterator', self)\n    [20, 21]\nreg('n901', n901)\n";

/// the nest an `@iterator` entry of the operand returns, if any
fn find_nest(o: &Opd) -> Option<(u32, NestFin)> {
    let m = o.top_meta()?;
    m.ops.iter().find_map(|(_, mv)| match mv {
        MV::Fn(Beh::Ret(RV::Nest(d, fin))) | MV::Chain(_, Some(Beh::Ret(RV::Nest(d, fin)))) if *d > 0 => Some((*d, *fin)),
        _ => None,
    })
}

/// definitions of the nest objects n910 … n(909+d); `root`: the variable of the operand (looked up
/// through the registry when the innermost `@iterator` closes the cycle)
fn nest_defs(d: u32, fin: NestFin, root: &str) -> String {
    let mut s = String::new();
    for i in (1..=d).rev() {
        let name = 909 + i;
        let next = if i < d {
            format!("n{}", name + 1)
        } else {
            match fin {
                NestFin::Lst => "[20, 21]".to_string(),
                NestFin::Int => "5".to_string(),
                NestFin::Back => format!("getreg '{}'", root),
            }
        };
        s.push_str(&format!(
            "n{} =\n  @iterator: ||\n    tr('n{}', 'Iterator', self)\n    {}\nreg('n{}', n{})\n",
            name, name, next, name, name
        ));
    }
    s
}

fn render(c: &Case) -> String {
    let mut s = String::new();
    let mut protos = vec![];
    render_opd(&c.a, &mut protos, &mut s);
    if let Some(b) = &c.b {
        render_opd(b, &mut protos, &mut s);
    }
    if s.contains("n900") || s.contains("n901") {
        s = format!("{}{}", INNER_OBJECTS, s);
    }
    if let Some((d, fin)) = find_nest(&c.a) {
        s = format!("{}{}", nest_defs(d, fin, &c.a.var()), s);
    }
    let a = c.a.var();
    let b = c.b.as_ref().map(|b| b.var()).unwrap_or_default();
    match &c.op {
        Op::Arith(i) => s.push_str(&format!("{} {} {}\n", a, ARITH[*i].1, b)),
        Op::Compound(i, same) => {
            let rhs = if *same { "x".to_string() } else { b };
            s.push_str(&format!("x = {}\nx {}= {}\nx\n", a, ARITH[*i].1, rhs));
        }
        Op::Cmp(i) => s.push_str(&format!("{} {} {}\n", a, CMP[*i].1, b)),
        Op::Neg => s.push_str(&format!("-{}\n", a)),
        Op::Not => s.push_str(&format!("not {}\n", a)),
        Op::Size => s.push_str(&format!("size {}\n", a)),
        Op::Call => s.push_str(&format!("{}(7)\n", a)),
        Op::For => s.push_str(&format!("r = []\nfor v in {}\n  r.push v\nr\n", a)),
        Op::ToList => s.push_str(&format!("iterator.to_list {}\n", a)),
        Op::Reversed => s.push_str(&format!("iterator.to_list(iterator.reversed {})\n", a)),
        Op::Type => s.push_str(&format!("koto.type {}\n", a)),
        Op::Display => s.push_str(&format!("'{{{}}}'\n", a)),
        Op::DisplayNested => s.push_str(&format!("'{{[{}]}}'\n", a)),
        Op::Debug => s.push_str(&format!("'{{{}:?}}'\n", a)),
        Op::Index(n) => s.push_str(&format!("{}[{}]\n", a, if *n { "0" } else { "'s'" })),
        Op::IndexAssign(n) => s.push_str(&format!("{}[{}] = 5\n", a, if *n { "0" } else { "'s'" })),
        Op::Access(k) => s.push_str(&format!("{}.{}\n", a, KEY_NAMES[*k])),
        Op::Method(k) => s.push_str(&format!("{}.{}(7)\n", a, KEY_NAMES[*k])),
        Op::CallPacked => s.push_str(&format!("{}((7,)...)\n", a)),
        Op::ApiIndexAssign(_) => s.push_str(&format!("{}\n", a)), // the API call follows in Rust
        Op::MatchLast => s.push_str(&format!("match {}\n  (others..., last) then last\n", a)),
        Op::ApiCompound(_) => s.push_str(&format!("({}, {})\n", a, b)), // the API call follows in Rust
        Op::DebugNested => s.push_str(&format!("'{{[{}]:?}}'\n", a)),
        Op::Literal => {
            // rewrite the operand's literal: metakeys first, data entries after them
            if let Opd::Map(ls) = &c.a {
                if let Src::Own(m) = &ls[0].src {
                    let mut pre = String::new();
                    let mut body = String::new();
                    render_meta(m, m.tag, None, &mut pre, &mut body);
                    render_data(&ls[0], &mut body);
                    s = format!("{}n{} =\n{}", pre, ls[0].name, body);
                    s.push_str(&format!("reg('n{}', n{})\n", ls[0].name, ls[0].name));
                }
            }
            s.push_str(&format!("map.keys({}).to_tuple()\n", a));
        }
        Op::AccessAssign(k) => {
            s.push_str(&format!("{}.{} = 5\n", a, KEY_NAMES[*k]));
            if matches!(c.a, Opd::Map(_)) {
                s.push_str(&format!("map.get {}, '{}'\n", a, KEY_NAMES[*k]));
            }
        }
    }
    s
}

// ------------------------------------------------------------------------------------------------
// run-time support: trace buffer, registry of operand instances, host object types
// ------------------------------------------------------------------------------------------------

thread_local! {
    static TRACE: RefCell<Vec<String>> = RefCell::new(vec![]);
    static REGISTRY: RefCell<Vec<(String, KValue)>> = RefCell::new(vec![]);
    static TICKS: RefCell<BTreeMap<String, i64>> = RefCell::new(BTreeMap::new());
    static CORE: RefCell<Vec<(String, KValue)>> = RefCell::new(vec![]);
    static STDOUT: RefCell<String> = RefCell::new(String::new());
}

fn push_trace(s: String) {
    TRACE.with(|t| t.borrow_mut().push(s));
}

/// canonical text of a runtime value (same grammar as `avStr` in Drivers/C17.lean)
fn desc(v: &KValue) -> String {
    match v {
        KValue::Null => "null".into(),
        KValue::Bool(b) => if *b { "b1".into() } else { "b0".into() },
        KValue::Number(n) => match n {
            KNumber::I64(i) => format!("i{}", i),
            KNumber::F64(f) => kvh::canon::float(*f),
        },
        KValue::Str(s) => format!("s:{}", s.as_str()),
        KValue::List(l) => format!("(l{})", l.data().iter().map(|x| format!(" {}", desc(x))).collect::<String>()),
        KValue::Tuple(t) => format!("(t{})", t.iter().map(|x| format!(" {}", desc(x))).collect::<String>()),
        KValue::Map(m) => REGISTRY.with(|r| {
            for (n, v) in r.borrow().iter() {
                if let KValue::Map(m2) = v {
                    if m.is_same_instance(m2) {
                        return format!("m:{}", n);
                    }
                }
            }
            "m:?".to_string()
        }),
        KValue::Object(o) => match o.try_borrow() {
            Ok(b) => {
                let t = b.type_string();
                match t.as_str().strip_prefix("Host:") {
                    Some(rest) => format!("h:{}", rest),
                    None => format!("o:{}", t.as_str()),
                }
            }
            Err(_) => "o:<borrowed>".into(),
        },
        KValue::Function(_) => "fn".into(),
        KValue::NativeFunction(f) => CORE.with(|c| {
            for (n, v) in c.borrow().iter() {
                if let KValue::NativeFunction(g) = v {
                    if Ptr::ptr_eq(&f.function, &g.function) {
                        return n.clone();
                    }
                }
            }
            "native".to_string()
        }),
        KValue::Iterator(_) => "iter".into(),
        KValue::Range(_) => "range".into(),
        KValue::TemporaryTuple(_) => "temptuple".into(),
    }
}

#[derive(Clone)]
struct HostData {
    name: usize,
    generation: usize,
    imp: Vec<(String, Beh)>,
    iter: HostIter,
    nexts: u32,
    next_backs: u32,
}

impl HostData {
    fn av(&self) -> String {
        format!("h:n{}#{}", self.name, self.generation)
    }
    fn beh(&self, m: &str) -> Option<Beh> {
        self.imp.iter().find(|(n, _)| n == m).map(|(_, b)| *b)
    }
    fn unimplemented<T>(&self, fn_name: &'static str) -> KResult<T> {
        Err(koto_runtime::Error::new(ErrorKind::Unimplemented {
            fn_name,
            object_type: format!("Host:n{}#{}", self.name, self.generation).into(),
        }))
    }
    fn ev(&self, m: &str, args: &[&KValue]) {
        push_trace(format!(
            "n{}.h.{} self={} args=[{}]",
            self.name,
            m,
            self.av(),
            args.iter().map(|a| desc(a)).collect::<Vec<_>>().join(",")
        ));
    }
    fn rv(&self, v: RV) -> KValue {
        match v {
            RV::Null | RV::SelfV => KValue::Null,
            RV::Bool(b) => b.into(),
            RV::Int(n) => n.into(),
            RV::Str => "r".into(),
            RV::Lst => KValue::List(KList::from_slice(&[20.into(), 21.into()])),
            RV::Tup => KValue::Tuple(vec![KValue::from(20), KValue::from(21)].into()),
            RV::Iter | RV::Rng | RV::PMap | RV::Gen | RV::InnerNext | RV::InnerIter | RV::Nest(..) => KValue::Null,
        }
    }
    /// a value-returning method: overridden with a behaviour, or "unimplemented" like the default
    fn value(&self, m: &'static str, args: &[&KValue]) -> KResult<KValue> {
        match self.beh(m) {
            None => self.unimplemented(m),
            Some(b) => {
                self.ev(m, args);
                match b {
                    Beh::Ret(v) => Ok(self.rv(v)),
                    Beh::Unimpl => self.unimplemented(m),
                    Beh::Throw | Beh::Count(_) => Err(koto_runtime::Error::new(ErrorKind::StringError("hboom".into()))),
                }
            }
        }
    }
    fn unit(&self, m: &'static str, args: &[&KValue]) -> KResult<()> {
        self.value(m, args).map(|_| ())
    }
    fn boolean(&self, m: &'static str, args: &[&KValue]) -> KResult<bool> {
        self.value(m, args).map(|v| matches!(v, KValue::Bool(true)))
    }
}

/// methods that every harness host type overrides (behaviour chosen per instance; when the instance
/// has no behaviour for a method it answers exactly like the trait default)
macro_rules! common_methods {
    () => {
        fn display(&self, ctx: &mut DisplayContext) -> KResult<()> {
            match self.0.beh("display") {
                None => {
                    ctx.append(self.type_string());
                    Ok(())
                }
                Some(b) => {
                    self.0.ev("display", &[]);
                    match b {
                        Beh::Ret(_) => {
                            ctx.append("r");
                            Ok(())
                        }
                        _ => Err(koto_runtime::Error::new(ErrorKind::StringError("hboom".into()))),
                    }
                }
            }
        }
        fn index(&self, index: &KValue) -> KResult<KValue> {
            self.0.value("index", &[index])
        }
        fn index_assign(&mut self, index: &KValue, value: &KValue) -> KResult<()> {
            self.0.unit("index_assign", &[index, value])
        }
        fn size(&self) -> Option<usize> {
            match self.0.beh("size") {
                None => None,
                Some(b) => {
                    self.0.ev("size", &[]);
                    match b {
                        Beh::Ret(RV::Int(n)) => Some(n as usize),
                        _ => None,
                    }
                }
            }
        }
        fn is_iterable(&self) -> IsIterable {
            match self.0.iter {
                HostIter::NotIterable => IsIterable::NotIterable,
                HostIter::Iterable => IsIterable::Iterable,
                HostIter::Forward(_) => IsIterable::ForwardIterator,
                HostIter::Bidirectional(_) => IsIterable::BidirectionalIterator,
            }
        }
        fn make_iterator(&self, _vm: &mut KotoVm) -> KResult<KIterator> {
            self.0.ev("make_iterator", &[]);
            Ok(KIterator::with_tuple(vec![KValue::from(20), KValue::from(21)].into()))
        }
        fn iterator_next(&mut self, _vm: &mut KotoVm) -> Option<KIteratorOutput> {
            self.0.ev("iterator_next", &[]);
            let n = match self.0.iter {
                HostIter::Forward(n) | HostIter::Bidirectional(n) => n,
                _ => 0,
            };
            let c = self.0.nexts;
            self.0.nexts += 1;
            if c < n { Some(KIteratorOutput::Value((10 + c as i64).into())) } else { None }
        }
        fn iterator_next_back(&mut self, _vm: &mut KotoVm) -> Option<KIteratorOutput> {
            self.0.ev("iterator_next_back", &[]);
            let n = match self.0.iter {
                HostIter::Bidirectional(n) => n,
                _ => 0,
            };
            let c = self.0.next_backs;
            self.0.next_backs += 1;
            if c < n { Some(KIteratorOutput::Value((10 + c as i64).into())) } else { None }
        }
        fn is_callable(&self) -> bool {
            self.0.beh("call").is_some()
        }
        fn call(&mut self, ctx: &mut CallContext) -> KResult<KValue> {
            let args: Vec<KValue> = ctx.args().to_vec();
            let refs: Vec<&KValue> = args.iter().collect();
            self.0.value("call", &refs)
        }
        fn negate(&self) -> KResult<KValue> {
            self.0.value("negate", &[])
        }
        fn add(&self, o: &KValue) -> KResult<KValue> {
            self.0.value("add", &[o])
        }
        fn add_rhs(&self, o: &KValue) -> KResult<KValue> {
            self.0.value("add_rhs", &[o])
        }
        fn subtract(&self, o: &KValue) -> KResult<KValue> {
            self.0.value("subtract", &[o])
        }
        fn subtract_rhs(&self, o: &KValue) -> KResult<KValue> {
            self.0.value("subtract_rhs", &[o])
        }
        fn multiply(&self, o: &KValue) -> KResult<KValue> {
            self.0.value("multiply", &[o])
        }
        fn multiply_rhs(&self, o: &KValue) -> KResult<KValue> {
            self.0.value("multiply_rhs", &[o])
        }
        fn divide(&self, o: &KValue) -> KResult<KValue> {
            self.0.value("divide", &[o])
        }
        fn divide_rhs(&self, o: &KValue) -> KResult<KValue> {
            self.0.value("divide_rhs", &[o])
        }
        fn remainder(&self, o: &KValue) -> KResult<KValue> {
            self.0.value("remainder", &[o])
        }
        fn remainder_rhs(&self, o: &KValue) -> KResult<KValue> {
            self.0.value("remainder_rhs", &[o])
        }
        fn power(&self, o: &KValue) -> KResult<KValue> {
            self.0.value("power", &[o])
        }
        fn power_rhs(&self, o: &KValue) -> KResult<KValue> {
            self.0.value("power_rhs", &[o])
        }
        fn add_assign(&mut self, o: &KValue) -> KResult<()> {
            self.0.unit("add_assign", &[o])
        }
        fn subtract_assign(&mut self, o: &KValue) -> KResult<()> {
            self.0.unit("subtract_assign", &[o])
        }
        fn multiply_assign(&mut self, o: &KValue) -> KResult<()> {
            self.0.unit("multiply_assign", &[o])
        }
        fn divide_assign(&mut self, o: &KValue) -> KResult<()> {
            self.0.unit("divide_assign", &[o])
        }
        fn remainder_assign(&mut self, o: &KValue) -> KResult<()> {
            self.0.unit("remainder_assign", &[o])
        }
        fn power_assign(&mut self, o: &KValue) -> KResult<()> {
            self.0.unit("power_assign", &[o])
        }
        fn less(&self, o: &KValue) -> KResult<bool> {
            self.0.boolean("less", &[o])
        }
        fn equal(&self, o: &KValue) -> KResult<bool> {
            self.0.boolean("equal", &[o])
        }
    };
}

macro_rules! derived_method {
    (le) => {
        fn less_or_equal(&self, o: &KValue) -> KResult<bool> {
            self.0.boolean("less_or_equal", &[o])
        }
    };
    (gt) => {
        fn greater(&self, o: &KValue) -> KResult<bool> {
            self.0.boolean("greater", &[o])
        }
    };
    (ge) => {
        fn greater_or_equal(&self, o: &KValue) -> KResult<bool> {
            self.0.boolean("greater_or_equal", &[o])
        }
    };
    (ne) => {
        fn not_equal(&self, o: &KValue) -> KResult<bool> {
            self.0.boolean("not_equal", &[o])
        }
    };
}

/// A host type: `$name` overrides the common methods plus the listed derived comparisons; the
/// derived comparisons that are not listed are the *real* `KotoObject` trait defaults.
macro_rules! host_type {
    ($name:ident; $($m:ident),*) => {
        #[derive(Clone)]
        struct $name(HostData);
        impl KotoType for $name {
            fn type_static() -> &'static str {
                "Host"
            }
            fn type_string(&self) -> KString {
                format!("Host:n{}#{}", self.0.name, self.0.generation).into()
            }
        }
        impl KotoCopy for $name {
            fn copy(&self) -> KObject {
                push_trace(format!("n{}.copy self={} args=[]", self.0.name, self.0.av()));
                let mut d = self.0.clone();
                d.generation += 1;
                KObject::from($name(d))
            }
        }
        impl KotoAccess for $name {
            fn access(&self, key: &KString) -> KResult<Option<KValue>> {
                match self.0.beh("access") {
                    None => Ok(None),
                    Some(b) => {
                        let k = KValue::Str(key.clone());
                        self.0.ev("access", &[&k]);
                        match b {
                            Beh::Ret(v) => Ok(Some(self.0.rv(v))),
                            Beh::Unimpl => Ok(None),
                            _ => Err(koto_runtime::Error::new(ErrorKind::StringError("hboom".into()))),
                        }
                    }
                }
            }
            fn access_assign(&mut self, key: &KString, value: &KValue) -> KResult<()> {
                let k = KValue::Str(key.clone());
                self.0.unit("access_assign", &[&k, value])
            }
        }
        impl KotoObject for $name {
            common_methods!();
            $( derived_method!($m); )*
        }
    };
}

host_type!(H0;);
host_type!(H1; le);
host_type!(H2; gt);
host_type!(H3; le, gt);
host_type!(H4; ge);
host_type!(H5; le, ge);
host_type!(H6; gt, ge);
host_type!(H7; le, gt, ge);
host_type!(H8; ne);
host_type!(H9; le, ne);
host_type!(H10; gt, ne);
host_type!(H11; le, gt, ne);
host_type!(H12; ge, ne);
host_type!(H13; le, ge, ne);
host_type!(H14; gt, ge, ne);
host_type!(H15; le, gt, ge, ne);

/// nothing overridden at all: every `KotoObject` / `KotoAccess` method is the trait default
#[derive(Clone)]
struct HostPlain(HostData);
impl KotoType for HostPlain {
    fn type_static() -> &'static str {
        "Host"
    }
    fn type_string(&self) -> KString {
        format!("Host:n{}#{}", self.0.name, self.0.generation).into()
    }
}
impl KotoCopy for HostPlain {
    fn copy(&self) -> KObject {
        push_trace(format!("n{}.copy self={} args=[]", self.0.name, self.0.av()));
        let mut d = self.0.clone();
        d.generation += 1;
        KObject::from(HostPlain(d))
    }
}
impl KotoAccess for HostPlain {}
impl KotoObject for HostPlain {}

fn make_host(h: &HostD) -> KObject {
    let d = HostData { name: h.name, generation: 0, imp: h.imp.clone(), iter: h.iter, nexts: 0, next_backs: 0 };
    if h.imp.is_empty() && h.iter == HostIter::NotIterable {
        return KObject::from(HostPlain(d));
    }
    let has = |m: &str| h.get(m).is_some();
    let mask = (has("less_or_equal") as u8) | (has("greater") as u8) << 1 | (has("greater_or_equal") as u8) << 2 | (has("not_equal") as u8) << 3;
    match mask {
        0 => KObject::from(H0(d)),
        1 => KObject::from(H1(d)),
        2 => KObject::from(H2(d)),
        3 => KObject::from(H3(d)),
        4 => KObject::from(H4(d)),
        5 => KObject::from(H5(d)),
        6 => KObject::from(H6(d)),
        7 => KObject::from(H7(d)),
        8 => KObject::from(H8(d)),
        9 => KObject::from(H9(d)),
        10 => KObject::from(H10(d)),
        11 => KObject::from(H11(d)),
        12 => KObject::from(H12(d)),
        13 => KObject::from(H13(d)),
        14 => KObject::from(H14(d)),
        _ => KObject::from(H15(d)),
    }
}

// ---- host objects defined with #[koto_impl] -----------------------------------------------------

#[derive(Clone)]
struct DvData {
    name: usize,
    ov: Vec<String>,
    fb: Vec<String>,
    sov: Vec<String>,
    sfb: Vec<String>,
}
impl DvData {
    fn ev(&self, f: &str, args: &[&KValue]) {
        push_trace(format!(
            "n{}.dv.{} self=h:n{}#0 args=[{}]",
            self.name,
            f,
            self.name,
            args.iter().map(|a| desc(a)).collect::<Vec<_>>().join(",")
        ));
    }
}

macro_rules! derived_type {
    ($name:ident; $($extra:tt)*) => {
        #[derive(Clone)]
        struct $name(DvData);
        impl KotoType for $name {
            fn type_static() -> &'static str {
                "Host"
            }
            fn type_string(&self) -> KString {
                format!("Host:n{}#0", self.0.name).into()
            }
        }
        impl KotoCopy for $name {
            fn copy(&self) -> KObject {
                KObject::from(self.clone())
            }
        }
        impl KotoObject for $name {}

        #[koto_impl(runtime = koto_runtime)]
        impl $name {
            #[koto_method(alias = "m1b")]
            fn m1(&self, args: &[KValue]) -> KValue {
                let refs: Vec<&KValue> = args.iter().collect();
                self.0.ev("method1", &refs);
                77.into()
            }
            #[koto_get(alias = "g1b")]
            fn g1(&self) -> KValue {
                self.0.ev("getter1", &[]);
                88.into()
            }
            #[koto_set]
            fn set_g1(&mut self, value: &KValue) {
                self.0.ev("setter1", &[value]);
            }
            #[koto_set(name = "s1")]
            fn put_s1(&mut self, value: &KValue) {
                self.0.ev("setter2", &[value]);
            }
            $($extra)*
        }
    };
}

derived_type!(Dv0;);
derived_type!(Dv1;
    #[koto_get_fallback]
    fn fallback(&self, key: &KString) -> Option<KValue> {
        self.0.ev("get_fallback", &[&KValue::Str(key.clone())]);
        if self.0.fb.iter().any(|k| k == key.as_str()) { Some(66.into()) } else { None }
    }
    #[koto_set_fallback]
    fn set_fallback(&mut self, key: &KString, value: &KValue) -> KResult<()> {
        self.0.ev("set_fallback", &[&KValue::Str(key.clone()), value]);
        if self.0.sfb.iter().any(|k| k == key.as_str()) {
            Ok(())
        } else {
            Err(koto_runtime::Error::new(ErrorKind::StringError("hboom".into())))
        }
    }
);
derived_type!(Dv2;
    #[koto_get_override]
    fn get_override(&self, key: &KString) -> Option<KValue> {
        self.0.ev("get_override", &[&KValue::Str(key.clone())]);
        if self.0.ov.iter().any(|k| k == key.as_str()) { Some(55.into()) } else { None }
    }
    #[koto_set_override]
    fn set_override(&mut self, key: &KString, value: &KValue) -> bool {
        self.0.ev("set_override", &[&KValue::Str(key.clone()), value]);
        self.0.sov.iter().any(|k| k == key.as_str())
    }
);
derived_type!(Dv3;
    #[koto_get_fallback]
    fn fallback(&self, key: &KString) -> Option<KValue> {
        self.0.ev("get_fallback", &[&KValue::Str(key.clone())]);
        if self.0.fb.iter().any(|k| k == key.as_str()) { Some(66.into()) } else { None }
    }
    #[koto_set_fallback]
    fn set_fallback(&mut self, key: &KString, value: &KValue) -> KResult<()> {
        self.0.ev("set_fallback", &[&KValue::Str(key.clone()), value]);
        if self.0.sfb.iter().any(|k| k == key.as_str()) {
            Ok(())
        } else {
            Err(koto_runtime::Error::new(ErrorKind::StringError("hboom".into())))
        }
    }
    #[koto_get_override]
    fn get_override(&self, key: &KString) -> Option<KValue> {
        self.0.ev("get_override", &[&KValue::Str(key.clone())]);
        if self.0.ov.iter().any(|k| k == key.as_str()) { Some(55.into()) } else { None }
    }
    #[koto_set_override]
    fn set_override(&mut self, key: &KString, value: &KValue) -> bool {
        self.0.ev("set_override", &[&KValue::Str(key.clone()), value]);
        self.0.sov.iter().any(|k| k == key.as_str())
    }
);

fn make_derived(d: &DerivedD) -> KObject {
    let names = |ks: &[usize]| ks.iter().map(|k| KEY_NAMES[*k].to_string()).collect::<Vec<_>>();
    let data = DvData { name: d.name, ov: names(&d.ov), fb: names(&d.fb), sov: names(&d.sov), sfb: names(&d.sfb) };
    match d.kind & 3 {
        0 => KObject::from(Dv0(data)),
        1 => KObject::from(Dv1(data)),
        2 => KObject::from(Dv2(data)),
        _ => KObject::from(Dv3(data)),
    }
}

/// captured stdout/stderr of the runtime
#[derive(Clone, Debug, Default)]
struct Capture;
impl KotoFile for Capture {
    fn id(&self) -> KString {
        "_capture_".into()
    }
}
impl KotoRead for Capture {}
impl KotoWrite for Capture {
    fn write(&self, bytes: &[u8]) -> KResult<()> {
        STDOUT.with(|s| s.borrow_mut().push_str(&String::from_utf8_lossy(bytes)));
        Ok(())
    }
    fn write_line(&self, output: &str) -> KResult<()> {
        STDOUT.with(|s| {
            let mut s = s.borrow_mut();
            s.push_str(output);
            s.push('\n');
        });
        Ok(())
    }
    fn flush(&self) -> KResult<()> {
        Ok(())
    }
}

fn classify(e: &koto_runtime::Error) -> String {
    match &e.error {
        ErrorKind::InvalidBinaryOp { op, .. } => format!("E:binop:{:?}", op),
        ErrorKind::UnexpectedType { .. } | ErrorKind::UnexpectedArguments { .. } => "E:type".into(),
        ErrorKind::Unimplemented { .. } => "E:hunimpl".into(),
        ErrorKind::KotoError { thrown_value, .. } => match thrown_value {
            KValue::Object(o) if o.try_borrow().map(|b| b.type_string().as_str() == "Unimplemented").unwrap_or(false) => {
                "E:kunimpl".into()
            }
            KValue::Str(s) if s.as_str() == "boom" => "E:thrown".into(),
            other => format!("E:thrown?{}", desc(other)),
        },
        ErrorKind::StringError(s) => {
            if s == "hboom" {
                "E:herr".into()
            } else if s.starts_with("iterator.reversed: the provided iterator isn't bidirectional") {
                "E:notrev".into()
            } else if s.starts_with("too many nested @iterator calls") {
                "E:toonested".into()
            } else if s.starts_with("unexpected key: ") {
                "E:unexpectedkey".into()
            } else if s.contains("not found in") {
                "E:notfound".into()
            } else if s.starts_with("index out of bounds") || s.starts_with("invalid index") {
                "E:oob".into()
            } else if s.starts_with("Unable to index") {
                "E:noindex".into()
            } else if s.starts_with("failed to get display value") {
                "E:display".into()
            } else {
                format!("E:str:{}", s)
            }
        }
        other => format!("E:other:{}", other),
    }
}

fn type_av(s: &str) -> String {
    if let Some(n) = s.strip_prefix('T') {
        if n.chars().all(|c| c.is_ascii_digit()) && !n.is_empty() {
            return format!("u{}", n);
        }
    }
    match s {
        "Error: expected string as result of @type" => "bad".into(),
        "Object" => "object".into(),
        "Map" => "map".into(),
        other => format!("?{}", other),
    }
}

/// result text of a rendering (display / debug) operation
fn shown_av(s: &str) -> String {
    if s == "r" {
        return "s:r".into();
    }
    if s.starts_with('{') {
        return "shown:-".into();
    }
    match s.find(" {") {
        Some(p) => format!("shown:{}", type_av(&s[..p])),
        None => format!("s:{}", s),
    }
}

struct Outcome {
    trace: Vec<String>,
    result: String,
    stdout: String,
}
impl Outcome {
    fn canon(&self) -> String {
        format!("{} => {}", self.trace.join(";"), self.result)
    }
}

fn run_case(c: &Case, script: &str) -> Result<Outcome, String> {
    TRACE.with(|t| t.borrow_mut().clear());
    REGISTRY.with(|t| t.borrow_mut().clear());
    TICKS.with(|t| t.borrow_mut().clear());
    CORE.with(|t| t.borrow_mut().clear());
    STDOUT.with(|t| t.borrow_mut().clear());
    let script = script.to_string();
    let c = c.clone();
    kvh::catch(move || {
        let mut vm = KotoVm::with_settings(KotoVmSettings {
            stdout: koto_runtime::make_ptr!(Capture),
            stderr: koto_runtime::make_ptr!(Capture),
            ..Default::default()
        });
        {
            let prelude = vm.prelude();
            for (module, label) in [("map", "map"), ("iterator", "iterator")] {
                if let Some(KValue::Map(m)) = prelude.get(module) {
                    for (i, k) in KEY_NAMES.iter().enumerate() {
                        if let Some(f) = m.get(*k) {
                            CORE.with(|c| c.borrow_mut().push((format!("core:{}.k{}", label, i), f)));
                        }
                    }
                }
            }
            prelude.add_fn("tr", |ctx| {
                let args = ctx.args();
                let tag = match args.first() {
                    Some(KValue::Str(s)) => s.to_string(),
                    _ => "?".into(),
                };
                let key = match args.get(1) {
                    Some(KValue::Str(s)) => s.to_string(),
                    _ => "?".into(),
                };
                let slf = args.get(2).map(desc).unwrap_or("?".into());
                let rest: Vec<String> = args.iter().skip(3).map(desc).collect();
                push_trace(format!("{}.{} self={} args=[{}]", tag, key, slf, rest.join(",")));
                Ok(KValue::Null)
            });
            prelude.add_fn("reg", |ctx| {
                if let [KValue::Str(n), v] = ctx.args() {
                    REGISTRY.with(|r| r.borrow_mut().push((n.to_string(), v.clone())));
                }
                Ok(KValue::Null)
            });
            prelude.add_fn("getreg", |ctx| {
                let k = match ctx.args() {
                    [KValue::Str(s)] => s.to_string(),
                    _ => "?".into(),
                };
                Ok(REGISTRY.with(|r| r.borrow().iter().rev().find(|(n, _)| *n == k).map(|(_, v)| v.clone()).unwrap_or(KValue::Null)))
            });
            prelude.add_fn("mknf", |ctx| {
                let (tag, key, ret) = match ctx.args() {
                    [KValue::Str(t), KValue::Str(k), v] => (t.to_string(), k.to_string(), v.clone()),
                    _ => ("?".to_string(), "?".to_string(), KValue::Null),
                };
                Ok(KValue::NativeFunction(KNativeFunction::new(move |ctx: &mut CallContext| {
                    let slf = desc(ctx.instance());
                    let rest: Vec<String> = ctx.args().iter().map(desc).collect();
                    push_trace(format!("{}.{} self={} args=[{}]", tag, key, slf, rest.join(",")));
                    Ok(ret.clone())
                })))
            });
            prelude.add_fn("tick", |ctx| {
                let k = match ctx.args() {
                    [KValue::Str(s)] => s.to_string(),
                    _ => "?".into(),
                };
                let n = TICKS.with(|t| {
                    let mut t = t.borrow_mut();
                    let e = t.entry(k).or_insert(0);
                    *e += 1;
                    *e - 1
                });
                Ok(n.into())
            });
            for o in [Some(&c.a), c.b.as_ref()].into_iter().flatten() {
                if let Opd::Host(h) = o {
                    prelude.insert(format!("n{}", h.name).as_str(), make_host(h));
                }
                if let Opd::Derived(d) = o {
                    prelude.insert(format!("n{}", d.name).as_str(), make_derived(d));
                }
            }
        }
        let chunk = vm
            .loader()
            .borrow_mut()
            .compile_script(&script, None, Default::default())
            .map_err(|e| format!("compile error: {}", e));
        let result = match chunk {
            Err(e) => format!("E:compile:{}", e),
            Ok(chunk) => match vm.run(chunk).and_then(|v| match &c.op {
                // the operand is the script's value; the operation itself goes through the host API
                Op::ApiIndexAssign(n) => {
                    TRACE.with(|t| t.borrow_mut().clear());
                    let index: KValue = if *n { 0.into() } else { "s".into() };
                    vm.run_write_op(koto_runtime::WriteOp::IndexAssign, v, index, 5.into())
                }
                Op::ApiCompound(i) => {
                    TRACE.with(|t| t.borrow_mut().clear());
                    let (l, r) = match &v {
                        KValue::Tuple(t) if t.len() == 2 => (t[0].clone(), t[1].clone()),
                        _ => (KValue::Null, KValue::Null),
                    };
                    use koto_runtime::BinaryOp::*;
                    let op = [AddAssign, SubtractAssign, MultiplyAssign, DivideAssign, RemainderAssign, PowerAssign][*i];
                    vm.run_binary_op(op, l, r)
                }
                _ => Ok(v),
            }) {
                Ok(v) => {
                    let d = match (&c.op, &v) {
                        (Op::Display | Op::Debug, KValue::Str(s)) => shown_av(s.as_str()),
                        (Op::DisplayNested | Op::DebugNested, KValue::Str(s)) => {
                            let t = s.as_str();
                            shown_av(t.strip_prefix('[').and_then(|x| x.strip_suffix(']')).unwrap_or(t))
                        }
                        (Op::Type, KValue::Str(s)) => format!("ty:{}", type_av(s.as_str())),
                        _ => desc(&v),
                    };
                    format!("ok {}", d)
                }
                Err(e) => classify(&e),
            },
        };
        Outcome {
            trace: TRACE.with(|t| t.borrow().clone()),
            result,
            stdout: STDOUT.with(|t| t.borrow().clone()),
        }
    })
}

// ------------------------------------------------------------------------------------------------
// (D): the documented rules, evaluated on the implementation's trace
// ------------------------------------------------------------------------------------------------

fn ev(tag: usize, key: &str, slf: &str, args: &[String]) -> String {
    format!("n{}.{} self={} args=[{}]", tag, key, slf, args.join(","))
}

/// entry of the operand's own metamap, when it is a plain traced function
fn own_fn(o: &Opd, key: &str) -> Option<(usize, Beh)> {
    let m = o.top_meta()?;
    match m.get(key)? {
        MV::Fn(b) => Some((m.tag, *b)),
        MV::Native(v) => Some((m.tag, Beh::Ret(*v))), // documented: dispatched to like a Koto function
        _ => None,
    }
}
/// the key is present but not as a plain function (non-callable value / callable-map chain)
fn odd_entry(o: &Opd, key: &str) -> bool {
    o.top_meta().and_then(|m| m.get(key)).is_some_and(|mv| !matches!(mv, MV::Fn(_) | MV::Native(_)))
}
fn host_beh(o: &Opd, m: &str) -> Option<Beh> {
    match o {
        Opd::Host(h) => h.get(m),
        _ => None,
    }
}
fn beh_result(b: Beh, slf: &str, host: bool) -> Option<String> {
    match b {
        Beh::Ret(v) => Some(format!("ok {}", v.av(slf))),
        Beh::Unimpl => Some(if host { "E:hunimpl".into() } else { "E:kunimpl".into() }),
        Beh::Throw => Some(if host { "E:herr".into() } else { "E:thrown".into() }),
        Beh::Count(_) => None,
    }
}
fn builtin_arith(i: usize, a: &Opd, b: &Opd) -> bool {
    match (a, b) {
        (Opd::Prim(_, x), Opd::Prim(_, y)) => {
            (*x == PrimK::Num && *y == PrimK::Num)
                || (i == 0 && x == y && matches!(x, PrimK::Str | PrimK::List | PrimK::Tuple))
        }
        _ => false,
    }
}

/// returns (rule, detail) for each documented rule the implementation's outcome breaks
fn d_check(c: &Case, o: &Outcome) -> Vec<(String, String)> {
    let mut bad = vec![];
    let mut fail = |rule: &str, detail: String| bad.push((rule.to_string(), detail));
    let a = &c.a;
    let aav = a.av();
    match (&c.op, &c.b) {
        (Op::Arith(i), Some(b)) => {
            let (_, _, key, rkey, _, hm, _) = ARITH[*i];
            let rhm = format!("{}_rhs", hm);
            let bav = b.av();
            if odd_entry(a, key) || odd_entry(b, rkey) || builtin_arith(*i, a, b) {
                return bad;
            }
            // the right operand's implementation, called with (self := rhs, arg := lhs)
            // a host method that is overridden but answers "unimplemented" is still called (and traced)
            let rhs_unimpl_ev: Vec<String> = match host_beh(b, &rhm) {
                Some(Beh::Unimpl) => vec![ev(b_name(b), &format!("h.{}", rhm), &bav, &[aav.clone()])],
                _ => vec![],
            };
            let rhs_impl: Option<(String, Option<String>)> = if let Some((t, bh)) = own_fn(b, rkey) {
                Some((ev(t, rkey, &bav, &[aav.clone()]), beh_result(bh, &bav, false)))
            } else if let Some(bh) = host_beh(b, &rhm) {
                match bh {
                    Beh::Unimpl => None,
                    _ => Some((ev(b_name(b), &format!("h.{}", rhm), &bav, &[aav.clone()]), beh_result(bh, &bav, true))),
                }
            } else {
                None
            };
            let lhs_impl: Option<(String, Beh, bool)> = if let Some((t, bh)) = own_fn(a, key) {
                Some((ev(t, key, &aav, &[bav.clone()]), bh, false))
            } else {
                host_beh(a, hm).map(|bh| (ev(b_name(a), &format!("h.{}", hm), &aav, &[bav.clone()]), bh, true))
            };
            match lhs_impl {
                Some((e1, bh, host)) => {
                    if o.trace.first() != Some(&e1) {
                        fail("own_key_first", format!("left operand implements the operator; expected first call `{}`", e1));
                        return bad;
                    }
                    if bh == Beh::Unimpl {
                        match rhs_impl {
                            Some((e2, res)) => {
                                if o.trace != vec![e1.clone(), e2.clone()] {
                                    fail("unimplemented_fallback", format!("expected calls `{}` then `{}`", e1, e2));
                                } else if let Some(r) = res {
                                    if o.result != r {
                                        fail("unimplemented_fallback", format!("right operand's result `{}` not used", r));
                                    }
                                }
                            }
                            None => {
                                if !o.result.starts_with("E:") || o.trace.len() != 1 + rhs_unimpl_ev.len() {
                                    fail("no_impl_error", "left reports unimplemented, right has no implementation: expected an error".into());
                                }
                            }
                        }
                    } else if let Some(r) = beh_result(bh, &aav, host) {
                        if o.trace.len() != 1 || o.result != r {
                            fail("own_key_first", format!("expected exactly `{}` with result `{}`", e1, r));
                        }
                    }
                }
                None => match rhs_impl {
                    Some((e2, res)) => {
                        if o.trace != vec![e2.clone()] {
                            fail("rhs_fallback", format!("left operand lacks the operator; expected `{}` (self := rhs, arg := lhs)", e2));
                        } else if let Some(r) = res {
                            if o.result != r {
                                fail("rhs_fallback", format!("right operand's result `{}` not used", r));
                            }
                        }
                    }
                    None => {
                        let merge = *i == 0 && matches!((a, b), (Opd::Map(_), Opd::Map(_)));
                        if !merge && (!o.result.starts_with("E:") || o.trace != rhs_unimpl_ev) {
                            fail("no_impl_error", "no operand implements the operator: expected an error and no call".into());
                        }
                    }
                },
            }
        }
        (Op::Compound(i, same), b) => {
            let (_, _, _, _, akey, hm, _) = ARITH[*i];
            let ahm = format!("{}_assign", hm);
            let b = if *same { Some(a) } else { b.as_ref() };
            let Some(b) = b else { return bad };
            let bav = b.av();
            if odd_entry(a, akey) {
                return bad;
            }
            if let Some((t, bh)) = own_fn(a, akey) {
                let e1 = ev(t, akey, &aav, &[bav.clone()]);
                if o.trace != vec![e1.clone()] {
                    fail("own_key_first", format!("expected exactly `{}`", e1));
                } else if matches!(bh, Beh::Ret(_)) && o.result != format!("ok {}", aav) {
                    fail("compound_keeps_lhs", "the variable should still hold the left operand".into());
                }
            } else if let Some(bh) = host_beh(a, &ahm) {
                if bh != Beh::Unimpl {
                    // the callee must receive the right operand itself, unless it is the same instance
                    let want = ev(b_name(a), &format!("h.{}", ahm), &aav, &[bav.clone()]);
                    let got = o.trace.iter().find(|e| e.contains(&format!(".h.{} ", ahm)));
                    if !*same && got != Some(&want) {
                        fail("operand_order", format!("expected `{}`, got `{}`", want, got.cloned().unwrap_or_default()));
                    }
                }
            } else if matches!(a, Opd::Map(_)) && (!o.result.starts_with("E:") || !o.trace.is_empty()) {
                fail("no_impl_error", "left operand has no compound-assignment entry: expected an error".into());
            }
        }
        (Op::Cmp(i), Some(b)) => {
            let (_, _, key, hm) = CMP[*i];
            let bav = b.av();
            let bool_of = |k: &str| match own_fn(a, k) {
                Some((t, Beh::Ret(RV::Bool(v)))) => Some((t, v)),
                _ => None,
            };
            if let Opd::Map(_) = a {
                if ["Less", "Equal", key].iter().any(|k| odd_entry(a, k)) {
                    return bad;
                }
                if let Some((t, bh)) = own_fn(a, key) {
                    let e1 = ev(t, key, &aav, &[bav.clone()]);
                    if o.trace != vec![e1.clone()] {
                        fail("own_key_first", format!("expected exactly `{}`", e1));
                    } else if let Some(r) = beh_result(bh, &aav, false) {
                        if o.result != r {
                            fail("own_key_first", format!("callee result `{}` not used", r));
                        }
                    }
                } else {
                    let lt = bool_of("Less");
                    let eq = bool_of("Equal");
                    let lt_ev = |t| ev(t, "Less", &aav, &[bav.clone()]);
                    let eq_ev = |t| ev(t, "Equal", &aav, &[bav.clone()]);
                    let want: Option<(bool, Vec<String>)> = match (*i, lt, eq) {
                        (1, Some((tl, l)), Some((te, e))) => Some((l || e, if l { vec![lt_ev(tl)] } else { vec![lt_ev(tl), eq_ev(te)] })),
                        (2, Some((tl, l)), Some((te, e))) => Some((!(l || e), if l { vec![lt_ev(tl)] } else { vec![lt_ev(tl), eq_ev(te)] })),
                        (3, Some((tl, l)), _) => Some((!l, vec![lt_ev(tl)])),
                        (5, _, Some((te, e))) => Some((!e, vec![eq_ev(te)])),
                        _ => None,
                    };
                    if let Some((v, tr)) = want {
                        let r = format!("ok b{}", v as u8);
                        if o.result != r || o.trace != tr {
                            fail("derived_cmp", format!("expected `{}` from calls {:?}", r, tr));
                        }
                    }
                }
            } else if let Opd::Host(h) = a {
                let hb = |m: &str| match h.get(m) {
                    Some(Beh::Ret(RV::Bool(v))) => Some(v),
                    _ => None,
                };
                let want: Option<bool> = if h.get(hm).is_some() {
                    hb(hm)
                } else {
                    match (*i, hb("less"), hb("equal")) {
                        (1, Some(l), Some(e)) => Some(l || e),
                        (1, Some(true), _) => Some(true),
                        (2, Some(l), Some(e)) => Some(!(l || e)),
                        (2, Some(true), _) => Some(false),
                        (3, Some(l), _) => Some(!l),
                        (5, _, Some(e)) => Some(!e),
                        _ => None,
                    }
                };
                if let Some(v) = want {
                    if o.result != format!("ok b{}", v as u8) {
                        fail("object_defaults_spec", format!("expected `ok b{}`", v as u8));
                    }
                } else if h.get(hm).is_none() && h.get("less").is_none() && h.get("equal").is_none() && !o.result.starts_with("E:") {
                    fail("object_defaults_spec", "no comparison implemented: expected an error".into());
                }
            }
        }
        (Op::Neg | Op::Size | Op::Call | Op::Index(_), _) => {
            let (key, hm, args): (&str, &str, Vec<String>) = match &c.op {
                Op::Neg => ("Negate", "negate", vec![]),
                Op::Size => ("Size", "size", vec![]),
                Op::Call => ("Call", "call", vec!["i7".into()]),
                Op::Index(n) => ("Index", "index", vec![if *n { "i0".into() } else { "s:s".to_string() }]),
                _ => unreachable!(),
            };
            if let Some((t, bh)) = own_fn(a, key) {
                let e1 = ev(t, key, &aav, &args);
                if o.trace != vec![e1.clone()] {
                    fail("own_key_first", format!("expected exactly `{}`", e1));
                } else if let Some(r) = beh_result(bh, &aav, false) {
                    if o.result != r {
                        fail("own_key_first", format!("callee result `{}` not used", r));
                    }
                }
            } else if let Opd::Host(h) = a {
                if h.get(hm).is_none() && !o.result.starts_with("E:") {
                    fail("object_defaults_spec", format!("host object does not implement `{}`: expected an error", hm));
                }
            }
        }
        (Op::Access(k), _) if matches!(a, Opd::Derived(_)) => {
            // documented order of #[koto_impl]: override, methods / getters, fallback, else not found
            if let Opd::Derived(d) = a {
                let want = if d.kind & 2 != 0 && d.ov.contains(k) {
                    "ok i55"
                } else if DV_METHODS.iter().any(|(x, _)| x == k) {
                    "ok native"
                } else if DV_GETTERS.iter().any(|(x, _)| x == k) {
                    "ok i88"
                } else if d.kind & 1 != 0 && d.fb.contains(k) {
                    "ok i66"
                } else {
                    "E:notfound"
                };
                if o.result != want {
                    fail("derived_access_order", format!("expected `{}`", want));
                }
            }
        }
        (Op::Method(k), _) if matches!(a, Opd::Derived(_)) => {
            if let Opd::Derived(d) = a {
                let shadowed = d.kind & 2 != 0 && d.ov.contains(k);
                if !shadowed && DV_METHODS.iter().any(|(x, _)| x == k) {
                    let want = format!("n{}.dv.method1 self={} args=[i7]", d.name, aav);
                    if o.trace.last() != Some(&want) || o.result != "ok i77" {
                        fail("derived_method_instance", format!("expected the method to run as `{}` and return 77", want));
                    }
                }
            }
        }
        (Op::AccessAssign(k), _) if matches!(a, Opd::Derived(_)) => {
            if let Opd::Derived(d) = a {
                let handled = (d.kind & 2 != 0 && d.sov.contains(k))
                    || DV_SETTERS.iter().any(|(x, _)| x == k)
                    || (d.kind & 1 != 0 && d.sfb.contains(k));
                if handled != o.result.starts_with("ok") {
                    fail("derived_assign", "assignment succeeds exactly when an override, setter or fallback takes the key".into());
                }
            }
        }
        (Op::Access(k), _) => {
            if let Opd::Map(ls) = a {
                if ls[0].src.meta().is_some_and(|m| m.get("Access").is_some()) {
                    return bad;
                }
                // documented order: data, then @meta entries, then the same along @base
                let mut want: Option<String> = None;
                let mut exhausted = true;
                for l in ls {
                    if l.data.contains(k) {
                        want = Some(if *k == KEY_FN { "ok fn".into() } else { format!("ok s:n{}.d.k{}", l.name, k) });
                        break;
                    }
                    match l.src.meta() {
                        None => {
                            exhausted = false;
                            break;
                        }
                        Some(m) => {
                            if m.named.contains(k) {
                                want = Some(if *k == KEY_FN { "ok fn".into() } else { format!("ok s:n{}.m.k{}", m.tag, k) });
                                break;
                            }
                            if m.base_bad {
                                exhausted = false;
                                break;
                            }
                        }
                    }
                }
                match want {
                    Some(w) => {
                        if o.result != w || !o.trace.is_empty() {
                            fail("access_chain_spec", format!("expected `{}` (data, @meta, @base order)", w));
                        }
                    }
                    None => {
                        if exhausted && *k < KEY_MAPMOD && o.result != "E:notfound" {
                            fail("access_chain_spec", "key is nowhere along the chain: expected a not-found error".into());
                        }
                    }
                }
            }
        }
        _ => {}
    }
    bad
}

fn b_name(o: &Opd) -> usize {
    match o {
        Opd::Host(h) => h.name,
        Opd::Derived(d) => d.name,
        Opd::Map(ls) => ls[0].name,
        Opd::Prim(v, _) => *v,
    }
}

// ------------------------------------------------------------------------------------------------
// driver of one case
// ------------------------------------------------------------------------------------------------

struct Ctx {
    rep: Report,
    drv: Driver,
    open: Vec<String>,
    pending: Vec<Case>,
    known_counts: BTreeMap<String, u64>,
    k_fail: u64,
    d_fail: u64,
    sampled: std::collections::BTreeSet<&'static str>,
}

fn model_matches(model: &str, imp: &str) -> bool {
    if model == imp {
        return true;
    }
    // `builtin`: a value computed by a built-in arm, not modelled here — any value, same trace
    if let (Some((mt, mr)), Some((it, ir))) = (model.split_once(" => "), imp.split_once(" => ")) {
        if mt == it && mr == "ok builtin" && ir.starts_with("ok ") {
            return true;
        }
    }
    false
}

impl Ctx {
    fn push(&mut self, c: Case) {
        self.pending.push(c);
        if self.pending.len() >= 2000 {
            self.flush();
        }
    }

    fn flush(&mut self) {
        let cases = std::mem::take(&mut self.pending);
        if cases.is_empty() {
            return;
        }
        let reqs: Vec<String> = cases.iter().map(|c| c.request()).collect();
        let resps = self.drv.batch(&reqs);
        for ((c, req), resp) in cases.iter().zip(reqs.iter()).zip(resps.iter()) {
            self.one(c, req, resp);
        }
    }

    fn detail(&self, c: &Case, req: &str, script: &str, imp: &str, model: &str) -> serde_json::Value {
        json!({"input": script, "request": req, "case": serde_json::to_value(c).unwrap(), "impl": imp, "model": model})
    }

    /// The listed (open) finding whose documented cause is present in this case, if any. Used for
    /// (D) failures, (K) disagreements and panics alike; a case without such a cause is never attributed.
    fn known_cause(&self, c: &Case, trace: &[String]) -> Option<String> {
        let open = |id: &str| self.open.iter().any(|x| x == id);
        let entry = |k: &str| c.a.top_meta().and_then(|m| m.get(k));
        let native = |k: &str| matches!(entry(k), Some(MV::Native(_)));
        // F-C17-3: packed call arguments on a map with @call (unpacked twice in call_callable)
        if c.op == Op::CallPacked && entry("Call").is_some() && open("F-C17-3") {
            return Some("F-C17-3".into());
        }
        // F-C17-4: KotoVm::run_write_op(IndexAssign) hands (container, container, index) to run_index_assign
        if matches!(c.op, Op::ApiIndexAssign(_)) && open("F-C17-4") {
            return Some("F-C17-4".into());
        }
        // F-C17-5: a native function under a metakey at one of the three sites that assume a pushed frame:
        // call_metamap_arithmetic_op! (left operand's own arithmetic entry), run_overridden_comparison_op
        // (derived comparisons through @< / @==), the @next arm of run_iterator_next
        let native_site = match &c.op {
            Op::Arith(i) => native(ARITH[*i].2),
            Op::Cmp(j) => {
                entry(CMP[*j].2).is_none()
                    && match *j {
                        1 | 2 => entry("Less").is_some() && entry("Equal").is_some() && (native("Less") || native("Equal")),
                        3 => native("Less"),
                        5 => native("Equal"),
                        _ => false,
                    }
            }
            Op::For | Op::ToList => native("Next"),
            _ => false,
        };
        if native_site && open("F-C17-5") {
            return Some("F-C17-5".into());
        }
        // F-C17-6: trailing position of unpacking / match on a map object: @index gets the raw -1
        if c.op == Op::MatchLast && matches!(c.a, Opd::Map(_)) && trace.iter().any(|e| e.contains(".Index ") && e.ends_with("args=[i-1]")) && open("F-C17-6") {
            return Some("F-C17-6".into());
        }
        // F-C17-8: KotoVm::run_binary_op(…Assign) with a Koto `@op=` function: registers are read after the
        // callee's frame was pushed (panic / wrong result)
        if let Op::ApiCompound(i) = &c.op {
            if matches!(entry(ARITH[*i].4), Some(MV::Fn(_) | MV::Chain(..))) && open("F-C17-8") {
                return Some("F-C17-8".into());
            }
        }
        // F-C17-9: `==` / `!=` with null on the right: the `(_, Null)` arm precedes the overloads
        if let (Op::Cmp(j), Some(Opd::Prim(_, PrimK::Null))) = (&c.op, &c.b) {
            let overloaded = match (&c.a, *j) {
                (Opd::Map(_), 4) => entry("Equal").is_some(),
                (Opd::Map(_), 5) => entry("NotEqual").is_some() || entry("Equal").is_some(),
                (Opd::Host(_) | Opd::Derived(_), 4 | 5) => true,
                _ => false,
            };
            if overloaded && open("F-C17-9") {
                return Some("F-C17-9".into());
            }
        }
        // F-C17-10: `@debug` of an element is ignored when its container is rendered with `:?`
        if c.op == Op::DebugNested && entry("Debug").is_some() && open("F-C17-10") {
            return Some("F-C17-10".into());
        }
        // F-C17-7: entries written after `@access_assign` in the same literal go through that function
        if c.op == Op::Literal && entry("AccessAssign").is_some() && matches!(&c.a, Opd::Map(ls) if !ls[0].data.is_empty()) && open("F-C17-7") {
            return Some("F-C17-7".into());
        }
        None
    }

    /// attribute a (D) failure to a listed finding by its cause, or None
    fn attribute(&self, c: &Case, rule: &str, o: &Outcome, _other: Option<&Outcome>) -> Option<String> {
        if let Some(id) = self.known_cause(c, &o.trace) {
            return Some(id);
        }
        // F-C17-1: compound assignment, both operands host objects and different instances: the
        // callee received a *copy* of the right operand (guard `o2.is_same_instance(o2)`)
        if rule == "operand_order" {
            if let (Op::Compound(_, false), Opd::Host(_), Some(Opd::Host(hb))) = (&c.op, &c.a, &c.b) {
                let copied = o.trace.first() == Some(&format!("n{}.copy self=h:n{}#0 args=[]", hb.name, hb.name));
                let got_copy = o.trace.iter().any(|e| e.contains("_assign ") && e.ends_with(&format!("args=[h:n{}#1]", hb.name)));
                if copied && got_copy && self.open.iter().any(|x| x == "F-C17-1") {
                    return Some("F-C17-1".into());
                }
            }
        }
        None
    }

    fn d_failure(&mut self, c: &Case, req: &str, script: &str, o: &Outcome, model: &str, rule: &str, detail: String, other: Option<&Outcome>) {
        match self.attribute(c, rule, o, other) {
            Some(id) => {
                *self.known_counts.entry(id).or_insert(0) += 1;
            }
            None => {
                self.d_fail += 1;
                if self.d_fail <= 6 {
                    let mut d = self.detail(c, req, script, &o.canon(), model);
                    d["rule"] = json!(rule);
                    d["why"] = json!(detail);
                    if let Some(x) = other {
                        d["other_run"] = json!(x.canon());
                    }
                    self.rep.violation("D", &format!("C17:{}", rule), d);
                }
            }
        }
    }

    fn one(&mut self, c: &Case, req: &str, model: &str) {
        let script = render(c);
        let nontrivial = !matches!((&c.a, &c.b), (Opd::Prim(..), None | Some(Opd::Prim(..))));
        self.rep.case(req, nontrivial);
        self.rep.bump(&format!("op={}", c.op_class()));
        let kind = |o: &Opd| match o {
            Opd::Prim(_, k) => format!("prim:{}", k.name()),
            Opd::Map(ls) => {
                if ls[0].src.meta().is_none() {
                    "plainmap".to_string()
                } else {
                    format!("object(depth={},shared={})", ls.len() - 1, o.has_shared() as u8)
                }
            }
            Opd::Host(h) => if h.imp.is_empty() { "host:defaults".into() } else { "host".to_string() },
            Opd::Derived(d) => format!("host:koto_impl(kind={})", d.kind),
        };
        self.rep.bump(&format!("lhs={}", kind(&c.a)));
        if let Some(b) = &c.b {
            self.rep.bump(&format!("rhs={}", kind(b)));
        }
        if std::env::var("C17_TRACE").is_ok() {
            eprintln!("CASE {}", req);
        }
        let o = match run_case(c, &script) {
            Ok(o) => o,
            Err(p) => {
                if let Some(id) = self.known_cause(c, &[]) {
                    *self.known_counts.entry(id).or_insert(0) += 1;
                    self.rep.bump("result=panic(attributed)");
                    return;
                }
                self.d_fail += 1;
                if self.d_fail <= 6 {
                    let mut d = self.detail(c, req, &script, "", model);
                    d["panic"] = json!(p);
                    self.rep.violation("D", "C17:no-panic", d);
                }
                return;
            }
        };
        let imp = o.canon();
        if o.result.starts_with("E:compile") {
            // a harness error (generated script does not compile), never an implementation outcome
            self.k_fail += 1;
            if self.k_fail <= 6 {
                self.rep.violation("K", "K:C17:render", self.detail(c, req, &script, &imp, model));
            }
            return;
        }
        let class = if o.result.starts_with("E:") { o.result.split(':').take(2).collect::<Vec<_>>().join(":") } else { "ok".into() };
        self.rep.bump(&format!("result={}", class));
        self.rep.bump(&format!("calls={}", o.trace.len().min(4)));
        if !self.sampled.contains(c.op_class()) && !o.trace.is_empty() && self.rep.samples.len() < self.rep.max_samples {
            self.sampled.insert(c.op_class());
            self.rep.sample(json!({"request": req, "script": script, "impl": imp, "model": model}));
        }
        // (D) documented rules on the implementation's trace
        let mut d_failed = false;
        for (rule, detail) in d_check(c, &o) {
            d_failed = true;
            self.d_failure(c, req, &script, &o, model, &rule, detail, None);
        }
        // (D) a metamap attached with with_meta behaves like an own one
        if c.a.has_shared() || c.b.as_ref().is_some_and(|b| b.has_shared()) {
            let c2 = Case { op: c.op.clone(), a: c.a.unshare(), b: c.b.as_ref().map(|b| b.unshare()) };
            if let Ok(o2) = run_case(&c2, &render(&c2)) {
                self.rep.bump("shared_vs_own_compared");
                if o2.canon() != imp {
                    d_failed = true;
                    self.d_failure(c, req, &script, &o, model, "shared_meta_same", "own-metamap variant behaves differently".into(), Some(&o2));
                }
            }
        }
        // (D) `for` and the public iterator path see the same sequence
        let has_iter_keys = c.a.top_meta().is_some_and(|m| m.get("Iterator").is_some() || m.get("Next").is_some());
        if c.op == Op::For && has_iter_keys {
            let c2 = Case { op: Op::ToList, a: c.a.clone(), b: None };
            if let Ok(o2) = run_case(&c2, &render(&c2)) {
                self.rep.bump("for_vs_tolist_compared");
                let both_err = o.result.starts_with("E:") && o2.result.starts_with("E:");
                // `for` evaluates the operand's own `@iterator` outside the nesting limit: exactly at
                // the limit the public path reports "too many nested" while `for` still succeeds
                let at_limit = o2.result == "E:toonested";
                if o.result != o2.result && !both_err && !at_limit {
                    d_failed = true;
                    self.d_failure(c, req, &script, &o, model, "iteration_consistent", "`for` and `iterator.to_list` disagree on the same object".into(), Some(&o2));
                }
            }
        }
        // (D) unpacking (`a, b = x`: MakeIterator + IterNext) sees the first elements of the public iteration
        let only_iterator = c.a.top_meta().is_some_and(|m| m.get("Iterator").is_some() && m.get("Next").is_none());
        if c.op == Op::For && only_iterator {
            let mut script2 = String::new();
            let mut protos = vec![];
            render_opd(&c.a, &mut protos, &mut script2);
            if script2.contains("n900") || script2.contains("n901") {
                script2 = format!("{}{}", INNER_OBJECTS, script2);
            }
            if let Some((d, fin)) = find_nest(&c.a) {
                script2 = format!("{}{}", nest_defs(d, fin, &c.a.var()), script2);
            }
            script2.push_str(&format!("a, b = {}\n[a, b]\n", c.a.var()));
            if let Ok(o2) = run_case(c, &script2) {
                self.rep.bump("unpack_vs_for_compared");
                let ints = |r: &str| -> Option<Vec<String>> {
                    let inner = r.strip_prefix("ok (l")?.strip_suffix(')')?;
                    let v: Vec<String> = inner.split_whitespace().map(|x| x.to_string()).collect();
                    if v.iter().all(|x| x.starts_with('i') && x[1..].chars().all(|ch| ch.is_ascii_digit())) { Some(v) } else { None }
                };
                let mismatch = match (ints(&o.result), ints(&o2.result)) {
                    (Some(f), Some(u)) if f.len() >= 2 => u != f[..2].to_vec(),
                    _ => o.result.starts_with("E:") != o2.result.starts_with("E:"),
                };
                if mismatch {
                    d_failed = true;
                    self.d_failure(c, req, &script, &o, model, "iteration_consistent", "unpacking `a, b = x` and `for` disagree on the same object".into(), Some(&o2));
                }
            }
        }
        // (K)
        if !model_matches(model, &imp) {
            if let Some(id) = self.known_cause(c, &o.trace) {
                // the disagreement has the documented cause of a listed finding (the model states the
                // documented behaviour for these shapes)
                *self.known_counts.entry(id).or_insert(0) += 1;
                return;
            }
            self.k_fail += 1;
            if self.k_fail <= 6 && !d_failed {
                let mut d = self.detail(c, req, &script, &imp, model);
                d["note"] = json!("model and implementation disagree; the theorems of Props/C17.lean no longer speak about this code");
                d["stdout"] = json!(o.stdout);
                self.rep.violation("K", &format!("K:C17:Model.Meta.{}", c.op_class()), d);
            }
        }
    }
}

// ------------------------------------------------------------------------------------------------
// generators
// ------------------------------------------------------------------------------------------------

fn fix_layers(ls: &mut Vec<Layer>) {
    let mut cut = ls.len();
    for (i, l) in ls.iter().enumerate() {
        let last = i + 1 == ls.len();
        match l.src.meta() {
            None => {
                cut = i + 1;
                break;
            }
            Some(m) => {
                if m.base_bad && !last {
                    cut = i + 1;
                    break;
                }
            }
        }
    }
    ls.truncate(cut);
    let n = ls.len();
    for (i, l) in ls.iter_mut().enumerate() {
        let last = i + 1 == n;
        let name = l.name;
        let m = match &mut l.src {
            Src::Own(m) => Some(m),
            Src::Shared { meta: Some(m), .. } => Some(m),
            _ => None,
        };
        if let Some(m) = m {
            if last && m.ops.is_empty() && m.named.is_empty() && m.ty == TypeD::None && !m.base_bad {
                m.ty = TypeD::Str(name);
            }
        }
    }
}

fn obj(name: usize, data: &[usize], ops: &[(&str, MV)]) -> Opd {
    let mut m = Meta::new(name);
    m.ops = ops.iter().map(|(k, v)| (k.to_string(), v.clone())).collect();
    let mut ls = vec![Layer { name, data: data.to_vec(), src: Src::Own(m) }];
    fix_layers(&mut ls);
    Opd::Map(ls)
}
fn plain(name: usize, data: &[usize]) -> Opd {
    Opd::Map(vec![Layer { name, data: data.to_vec(), src: Src::None }])
}
fn host(name: usize, imp: &[(&str, Beh)]) -> Opd {
    Opd::Host(HostD { name, imp: imp.iter().map(|(k, b)| (k.to_string(), *b)).collect(), iter: HostIter::NotIterable })
}
fn f(b: Beh) -> MV {
    MV::Fn(b)
}
const RI: Beh = Beh::Ret(RV::Int(100));
const RJ: Beh = Beh::Ret(RV::Int(200));

/// operand shapes for one side of a binary operator: `key`/`hm` is the entry that side would use
fn side_shapes(name: usize, key: &str, other_key: &str, hm: &str, ret: Beh) -> Vec<Opd> {
    let mut v = vec![
        Opd::Prim(name, PrimK::Num),
        Opd::Prim(name, PrimK::Str),
        Opd::Prim(name, PrimK::List),
        Opd::Prim(name, PrimK::Null),
        plain(name, &[0]),
        obj(name, &[], &[]),
        obj(name, &[0], &[(key, f(ret))]),
        obj(name, &[], &[(key, f(Beh::Unimpl))]),
        obj(name, &[], &[(key, f(Beh::Throw))]),
        obj(name, &[], &[(other_key, f(ret))]),
        obj(name, &[], &[(key, f(ret)), (other_key, f(Beh::Ret(RV::Int(300))))]),
        obj(name, &[], &[(key, MV::NonCallable)]),
        obj(name, &[], &[(key, MV::Chain(vec![name + 20, name + 21], Some(ret)))]),
        obj(name, &[], &[(key, f(Beh::Ret(RV::SelfV)))]),
        host(name, &[]),
        host(name, &[(hm, ret)]),
        host(name, &[(hm, Beh::Unimpl)]),
        host(name, &[(hm, Beh::Throw)]),
        host(name, &[("negate", ret)]),
    ];
    // the same object through a shared metamap
    let mut m = Meta::new(name + 40);
    m.ops = vec![(key.to_string(), f(ret))];
    v.push(Opd::Map(vec![Layer { name, data: vec![0], src: Src::Shared { proto: name + 40, meta: Some(m), via_get_meta: name % 2 == 1 } }]));
    v
}

fn gen_arith_grid(cx: &mut Ctx, ops: &[usize]) {
    for &i in ops {
        let (_, _, key, rkey, akey, hm, _) = ARITH[i];
        let rhm = format!("{}_rhs", hm);
        let ahm = format!("{}_assign", hm);
        let lhs = side_shapes(0, key, rkey, hm, RI);
        let rhs = side_shapes(10, rkey, key, &rhm, RJ);
        for a in &lhs {
            for b in &rhs {
                cx.push(Case { op: Op::Arith(i), a: a.clone(), b: Some(b.clone()) });
            }
        }
        // compound assignment
        let lhs = side_shapes(0, akey, key, &ahm, RI);
        let rhs = side_shapes(10, rkey, akey, &ahm, RJ);
        for a in &lhs {
            for b in &rhs {
                cx.push(Case { op: Op::Compound(i, false), a: a.clone(), b: Some(b.clone()) });
            }
            cx.push(Case { op: Op::Compound(i, true), a: a.clone(), b: None });
        }
    }
}

fn gen_cmp_grid(cx: &mut Ctx, thorough: bool) {
    let rhs_kinds = [
        Opd::Prim(10, PrimK::Num),
        Opd::Prim(10, PrimK::Null),
        plain(10, &[0]),
        obj(10, &[], &[("Less", f(RJ)), ("Equal", f(RJ)), ("Greater", f(RJ))]),
        host(10, &[("less", Beh::Ret(RV::Bool(true)))]),
    ];
    // every subset of the six comparison keys on the left operand × results of @< and @==
    for mask in 0u32..64 {
        for (lt, eq) in [(false, false), (false, true), (true, false), (true, true)] {
            let mut ops: Vec<(&str, MV)> = vec![];
            for (j, (_, _, key, _)) in CMP.iter().enumerate() {
                if mask & (1 << j) != 0 {
                    let b = match j {
                        0 => Beh::Ret(RV::Bool(lt)),
                        4 => Beh::Ret(RV::Bool(eq)),
                        1 => Beh::Ret(RV::Int(101)),
                        2 => Beh::Ret(RV::Str),
                        3 => Beh::Ret(RV::Bool(lt && eq)),
                        _ => Beh::Ret(RV::Null),
                    };
                    ops.push((key, f(b)));
                }
            }
            let a = obj(0, &[0], &ops);
            for i in 0..6 {
                let nrhs = if thorough { rhs_kinds.len() } else { 1 + ((mask as usize + i) % 2) * 2 };
                for b in rhs_kinds.iter().take(nrhs) {
                    cx.push(Case { op: Op::Cmp(i), a: a.clone(), b: Some(b.clone()) });
                }
            }
        }
    }
    // @< / @== that do not return a Bool, throw, are not callable
    let odd = [Beh::Ret(RV::Int(5)), Beh::Ret(RV::Null), Beh::Unimpl, Beh::Throw];
    for lb in odd.iter().chain([Beh::Ret(RV::Bool(false))].iter()) {
        for eb in odd.iter().chain([Beh::Ret(RV::Bool(true))].iter()) {
            let a = obj(0, &[], &[("Less", f(*lb)), ("Equal", f(*eb))]);
            for i in 0..6 {
                cx.push(Case { op: Op::Cmp(i), a: a.clone(), b: Some(Opd::Prim(10, PrimK::Num)) });
            }
        }
    }
    for mv in [MV::NonCallable, MV::Chain(vec![20], Some(Beh::Ret(RV::Bool(false)))), MV::Chain(vec![20, 21], None)] {
        let a = obj(0, &[], &[("Less", mv.clone()), ("Equal", f(Beh::Ret(RV::Bool(true))))]);
        for i in 0..6 {
            cx.push(Case { op: Op::Cmp(i), a: a.clone(), b: Some(Opd::Prim(10, PrimK::Num)) });
        }
    }
    // left operands without dispatch
    for a in [Opd::Prim(0, PrimK::Num), Opd::Prim(0, PrimK::Str), Opd::Prim(0, PrimK::Null), Opd::Prim(0, PrimK::List), plain(0, &[0])] {
        for b in rhs_kinds.iter().chain([Opd::Prim(10, PrimK::Str), Opd::Prim(10, PrimK::List)].iter()) {
            for i in 0..6 {
                cx.push(Case { op: Op::Cmp(i), a: a.clone(), b: Some(b.clone()) });
            }
        }
    }
    // host objects: which derived comparisons are overridden × behaviour of less / equal
    let behs = [None, Some(Beh::Ret(RV::Bool(false))), Some(Beh::Ret(RV::Bool(true))), Some(Beh::Unimpl), Some(Beh::Throw)];
    for mask in 0u32..16 {
        for lb in &behs {
            for eb in &behs {
                if !thorough && mask != 0 && mask != 15 && (mask as usize + lb.is_some() as usize) % 3 != 0 {
                    continue;
                }
                let mut imp: Vec<(&str, Beh)> = vec![];
                if let Some(b) = lb {
                    imp.push(("less", *b));
                }
                if let Some(b) = eb {
                    imp.push(("equal", *b));
                }
                for (j, m) in ["less_or_equal", "greater", "greater_or_equal", "not_equal"].iter().enumerate() {
                    if mask & (1 << j) != 0 {
                        imp.push((m, Beh::Ret(RV::Bool(j % 2 == 0))));
                    }
                }
                let a = host(0, &imp);
                for i in 0..6 {
                    cx.push(Case { op: Op::Cmp(i), a: a.clone(), b: Some(Opd::Prim(10, PrimK::Num)) });
                }
            }
        }
    }
}

fn gen_unary_grid(cx: &mut Ctx) {
    let rets = [
        Beh::Ret(RV::Int(100)),
        Beh::Ret(RV::Str),
        Beh::Ret(RV::Null),
        Beh::Ret(RV::SelfV),
        Beh::Ret(RV::Lst),
        Beh::Ret(RV::Tup),
        Beh::Ret(RV::Iter),
        Beh::Unimpl,
        Beh::Throw,
    ];
    let unary: [(&str, &str, Vec<Op>); 10] = [
        ("Negate", "negate", vec![Op::Neg]),
        ("Size", "size", vec![Op::Size]),
        ("Call", "call", vec![Op::Call]),
        ("Index", "index", vec![Op::Index(true), Op::Index(false)]),
        ("IndexAssign", "index_assign", vec![Op::IndexAssign(true), Op::IndexAssign(false)]),
        ("Display", "display", vec![Op::Display, Op::DisplayNested, Op::Debug]),
        ("Debug", "display", vec![Op::Debug, Op::Display]),
        ("Iterator", "negate", vec![Op::For, Op::ToList, Op::Reversed]),
        ("Iterator", "size", vec![Op::For, Op::ToList, Op::Reversed, Op::Access(4)]),
        ("Access", "access", vec![Op::Access(0), Op::Method(2), Op::Access(4)]),
    ];
    for (key, hm, ops) in unary.iter() {
        let mut opds = vec![obj(0, &[0], &[]), plain(0, &[]), plain(0, &[0, 1]), host(0, &[]), obj(0, &[0], &[("Add", f(RI))])];
        if *key == "Iterator" && *hm == "size" {
            // every kind of value an `@iterator` may return
            opds.clear();
            let mut kinds = vec![RV::Lst, RV::Tup, RV::Iter, RV::Rng, RV::PMap, RV::Str, RV::Gen, RV::InnerNext, RV::InnerIter, RV::Int(5), RV::Null, RV::Bool(true), RV::SelfV];
            // nests of every depth around the limit (16 levels), cycles, non-iterable innermost values
            for d in 0..=18u32 {
                for fin in [NestFin::Lst, NestFin::Int, NestFin::Back] {
                    if d >= 3 && d <= 13 && fin != NestFin::Lst {
                        continue;
                    }
                    kinds.push(RV::Nest(d, fin));
                }
            }
            for v in kinds {
                opds.push(obj(0, &[0], &[(key, f(Beh::Ret(v)))]));
                opds.push(obj(0, &[], &[(key, MV::Chain(vec![20, 21], Some(Beh::Ret(v)))), ("NextBack", f(Beh::Count(1)))]));
            }
            for a in &opds {
                for op in ops {
                    cx.push(Case { op: op.clone(), a: a.clone(), b: None });
                }
            }
            continue;
        }
        for r in &rets {
            opds.push(obj(0, &[0], &[(key, f(*r))]));
            if !matches!(r, Beh::Ret(RV::SelfV | RV::Iter)) {
                opds.push(host(0, &[(hm, *r)]));
            }
        }
        opds.push(obj(0, &[], &[(key, MV::NonCallable)]));
        opds.push(obj(0, &[], &[(key, MV::Chain(vec![20], Some(RI)))]));
        opds.push(obj(0, &[], &[(key, MV::Chain(vec![20, 21, 22], Some(Beh::Ret(RV::Str))))]));
        opds.push(obj(0, &[], &[(key, MV::Chain(vec![20, 21], None))]));
        let mut m = Meta::new(30);
        m.ops = vec![(key.to_string(), f(RI))];
        opds.push(Opd::Map(vec![Layer { name: 0, data: vec![1], src: Src::Shared { proto: 30, meta: Some(m), via_get_meta: false } }]));
        for k in [PrimK::Null, PrimK::Bool, PrimK::Num, PrimK::Str, PrimK::List, PrimK::Tuple, PrimK::Range, PrimK::Fn, PrimK::Iter] {
            opds.push(Opd::Prim(0, k));
        }
        for a in &opds {
            for op in ops {
                if matches!(a, Opd::Prim(..)) && matches!(op, Op::Access(_) | Op::Method(_) | Op::AccessAssign(_)) {
                    continue;
                }
                cx.push(Case { op: op.clone(), a: a.clone(), b: None });
            }
            cx.push(Case { op: Op::Not, a: a.clone(), b: None });
            cx.push(Case { op: Op::Type, a: a.clone(), b: None });
        }
    }
    // @access_assign
    for r in [RI, Beh::Unimpl, Beh::Throw] {
        for k in [0usize, 1] {
            cx.push(Case { op: Op::AccessAssign(k), a: obj(0, &[0], &[("AccessAssign", f(r))]), b: None });
            cx.push(Case { op: Op::AccessAssign(k), a: host(0, &[("access_assign", r)]), b: None });
        }
    }
    for a in [obj(0, &[0], &[]), plain(0, &[]), host(0, &[])] {
        cx.push(Case { op: Op::AccessAssign(1), a: a.clone(), b: None });
    }
    // @next (with / without @next_back, @iterator)
    for nb in [Beh::Count(0), Beh::Count(1), Beh::Count(3), Beh::Ret(RV::Null), Beh::Unimpl, Beh::Throw] {
        for extra in 0..9 {
            let mut ops: Vec<(&str, MV)> = vec![("Next", f(nb))];
            match extra {
                5 => ops.push(("NextBack", f(Beh::Count(2)))),
                6 => ops.push(("NextBack", f(Beh::Throw))),
                7 => ops.push(("NextBack", f(Beh::Unimpl))),
                8 => ops.push(("NextBack", MV::Chain(vec![20, 21], Some(Beh::Ret(RV::Null))))),
                1 => ops.push(("Iterator", f(Beh::Ret(RV::Tup)))),
                2 => ops.push(("NextBack", f(Beh::Ret(RV::Null)))),
                3 => ops.push(("NextBack", MV::NonCallable)),
                4 => ops.insert(0, ("Iterator", f(Beh::Throw))),
                _ => {}
            }
            let a = obj(0, &[0], &ops);
            for op in [Op::For, Op::ToList, Op::Reversed, Op::Access(4), Op::Access(3), Op::Size] {
                cx.push(Case { op, a: a.clone(), b: None });
            }
        }
    }
    for it in [HostIter::NotIterable, HostIter::Iterable, HostIter::Forward(0), HostIter::Forward(2), HostIter::Bidirectional(0), HostIter::Bidirectional(3)] {
        for imp in [vec![], vec![("access".to_string(), Beh::Unimpl)], vec![("negate".to_string(), RI)]] {
            let a = Opd::Host(HostD { name: 0, imp, iter: it });
            for op in [Op::For, Op::ToList, Op::Reversed, Op::Access(4), Op::Access(0), Op::Size] {
                cx.push(Case { op, a: a.clone(), b: None });
            }
        }
    }
    cx.push(Case { op: Op::For, a: obj(0, &[], &[("Next", MV::NonCallable)]), b: None });
    cx.push(Case { op: Op::ToList, a: obj(0, &[], &[("Next", MV::NonCallable)]), b: None });
    cx.push(Case { op: Op::For, a: obj(0, &[], &[("Next", MV::Chain(vec![20], Some(Beh::Ret(RV::Null))))]), b: None });
}

/// host objects with derived access tables: every kind × which keys the override / fallback answer × key
fn gen_derived_grid(cx: &mut Ctx) {
    let keys = [5usize, 6, 7, 8, 9, 10, 4];
    let sets: [Vec<usize>; 5] = [vec![], vec![5], vec![7, 10], vec![9, 10, 4], vec![6, 8]];
    for kind in 0u8..4 {
        for ov in &sets {
            for fb in &sets {
                if (kind & 2 == 0 && !ov.is_empty()) || (kind & 1 == 0 && !fb.is_empty()) {
                    continue;
                }
                let d = DerivedD { name: 0, kind, ov: ov.clone(), fb: fb.clone(), sov: ov.clone(), sfb: fb.clone() };
                for k in keys {
                    for op in [Op::Access(k), Op::Method(k), Op::AccessAssign(k)] {
                        cx.push(Case { op, a: Opd::Derived(d.clone()), b: None });
                    }
                }
            }
        }
    }
    // other operations on such an object are the trait defaults: errors
    let d = DerivedD { name: 0, kind: 3, ov: vec![], fb: vec![], sov: vec![], sfb: vec![] };
    for op in [Op::Neg, Op::Size, Op::Call, Op::Index(true), Op::Display, Op::Type, Op::Not] {
        cx.push(Case { op, a: Opd::Derived(d.clone()), b: None });
    }
}

fn native_rv(key: &str) -> RV {
    match key {
        "Less" | "LessOrEqual" | "Greater" | "GreaterOrEqual" | "Equal" | "NotEqual" => RV::Bool(true),
        "Next" | "NextBack" => RV::Null,
        "Display" | "Debug" => RV::Str,
        "Size" => RV::Int(2),
        "Iterator" => RV::Tup,
        _ => RV::Int(300),
    }
}

/// native functions as values of every metakey × every operation; packed calls; the host write API;
/// trailing positions in `match`; literals with data entries after the metakeys
fn gen_wave2_grid(cx: &mut Ctx) {
    let num = |v: usize| Opd::Prim(v, PrimK::Num);
    let unary_ops = [
        Op::Neg, Op::Not, Op::Size, Op::Call, Op::CallPacked, Op::For, Op::ToList, Op::Reversed, Op::Type, Op::Display,
        Op::DisplayNested, Op::Debug, Op::Index(true), Op::IndexAssign(true), Op::ApiIndexAssign(true),
        Op::ApiIndexAssign(false), Op::Access(0), Op::Method(2), Op::AccessAssign(1),
    ];
    for key in ALL_OP_KEYS.iter() {
        let a = obj(0, &[0], &[(key, MV::Native(native_rv(key)))]);
        for op in unary_ops.iter() {
            cx.push(Case { op: op.clone(), a: a.clone(), b: None });
        }
        let r = obj(10, &[0], &[(key, MV::Native(native_rv(key)))]);
        for i in 0..6 {
            cx.push(Case { op: Op::Arith(i), a: a.clone(), b: Some(num(10)) });
            cx.push(Case { op: Op::Arith(i), a: num(0), b: Some(r.clone()) });
            cx.push(Case { op: Op::Compound(i, false), a: a.clone(), b: Some(num(10)) });
            cx.push(Case { op: Op::Cmp(i), a: a.clone(), b: Some(num(10)) });
        }
    }
    // derived comparisons through native @< / @==
    for (lt, eq) in [(false, false), (false, true), (true, false), (true, true)] {
        for (nl, ne) in [(true, true), (true, false), (false, true)] {
            let l = if nl { MV::Native(RV::Bool(lt)) } else { f(Beh::Ret(RV::Bool(lt))) };
            let e = if ne { MV::Native(RV::Bool(eq)) } else { f(Beh::Ret(RV::Bool(eq))) };
            let a = obj(0, &[], &[("Less", l), ("Equal", e)]);
            for i in 0..6 {
                cx.push(Case { op: Op::Cmp(i), a: a.clone(), b: Some(num(10)) });
            }
        }
    }
    // packed call / API write on every kind of operand
    let mut opds = vec![plain(0, &[0]), obj(0, &[0], &[]), host(0, &[]), host(0, &[("call", RI), ("index_assign", RI)]), Opd::Prim(0, PrimK::Fn), Opd::Prim(0, PrimK::List), num(0)];
    for b in [RI, Beh::Ret(RV::SelfV), Beh::Unimpl, Beh::Throw] {
        opds.push(obj(0, &[0], &[("Call", f(b)), ("IndexAssign", f(b))]));
    }
    opds.push(obj(0, &[], &[("Call", MV::Chain(vec![20, 21], Some(RI))), ("IndexAssign", MV::Chain(vec![22], Some(RI)))]));
    opds.push(obj(0, &[], &[("Call", MV::NonCallable), ("IndexAssign", MV::NonCallable)]));
    for a in &opds {
        for op in [Op::CallPacked, Op::Call, Op::ApiIndexAssign(true), Op::ApiIndexAssign(false), Op::IndexAssign(true)] {
            cx.push(Case { op, a: a.clone(), b: None });
        }
    }
    // trailing position: map objects with @size / @index
    for n in 1..=3i64 {
        for ib in [f(RI), f(Beh::Ret(RV::Str)), f(Beh::Ret(RV::Null)), f(Beh::Ret(RV::SelfV)), f(Beh::Throw), f(Beh::Unimpl), MV::Native(RV::Int(300))] {
            let a = obj(0, &[0, 1], &[("Size", f(Beh::Ret(RV::Int(n)))), ("Index", ib.clone())]);
            cx.push(Case { op: Op::MatchLast, a, b: None });
        }
    }
    // literals: data entries after the metakeys
    for aa in [None, Some(f(RI)), Some(f(Beh::Throw)), Some(f(Beh::Unimpl)), Some(MV::Native(RV::Null)), Some(MV::NonCallable)] {
        for data in [vec![0usize], vec![0, 1], vec![1, 2, 3]] {
            for extra in [None, Some("Access"), Some("Add"), Some("Index")] {
                let mut ops: Vec<(&str, MV)> = vec![];
                if let Some(mv) = &aa {
                    ops.push(("AccessAssign", mv.clone()));
                }
                if let Some(k) = extra {
                    ops.push((k, f(RI)));
                }
                if ops.is_empty() {
                    ops.push(("Negate", f(RI)));
                }
                cx.push(Case { op: Op::Literal, a: obj(0, &data, &ops), b: None });
            }
        }
    }
}

/// host API compound assignment, `==`/`!=` against null for every kind of left operand, nested debug
fn gen_wave3_grid(cx: &mut Ctx) {
    let null = Opd::Prim(10, PrimK::Null);
    for i in 0..6 {
        let (_, _, key, rkey, akey, hm, _) = ARITH[i];
        let ahm = format!("{}_assign", hm);
        for a in side_shapes(0, akey, key, &ahm, RI) {
            for b in [Opd::Prim(10, PrimK::Num), plain(10, &[0]), obj(10, &[], &[(rkey, f(RJ))]), host(10, &[])] {
                cx.push(Case { op: Op::ApiCompound(i), a: a.clone(), b: Some(b) });
            }
        }
        cx.push(Case { op: Op::ApiCompound(i), a: obj(0, &[0], &[(akey, MV::Native(RV::Int(300)))]), b: Some(Opd::Prim(10, PrimK::Num)) });
    }
    // left operands of every kind against null
    let mut lhs = vec![
        Opd::Prim(0, PrimK::Num), Opd::Prim(0, PrimK::Str), Opd::Prim(0, PrimK::List), Opd::Prim(0, PrimK::Null), plain(0, &[0]),
        obj(0, &[0], &[]), host(0, &[]), host(0, &[("equal", Beh::Ret(RV::Bool(true)))]),
        host(0, &[("equal", Beh::Ret(RV::Bool(false))), ("not_equal", Beh::Ret(RV::Bool(false)))]),
        host(0, &[("equal", Beh::Throw)]), host(0, &[("less", Beh::Ret(RV::Bool(true)))]),
    ];
    for b in [Beh::Ret(RV::Bool(true)), Beh::Ret(RV::Bool(false)), Beh::Ret(RV::Int(5)), Beh::Throw, Beh::Unimpl] {
        lhs.push(obj(0, &[], &[("Equal", f(b))]));
        lhs.push(obj(0, &[], &[("NotEqual", f(b))]));
        lhs.push(obj(0, &[], &[("Equal", f(b)), ("NotEqual", f(Beh::Ret(RV::Bool(true))))]));
    }
    lhs.push(obj(0, &[], &[("Equal", MV::Native(RV::Bool(true)))]));
    lhs.push(obj(0, &[], &[("Equal", MV::NonCallable)]));
    lhs.push(obj(0, &[], &[("Less", f(Beh::Ret(RV::Bool(true))))]));
    for a in &lhs {
        for i in 0..6 {
            cx.push(Case { op: Op::Cmp(i), a: a.clone(), b: Some(null.clone()) });
            cx.push(Case { op: Op::Cmp(i), a: null.clone(), b: Some(match a { Opd::Prim(_, k) => Opd::Prim(0, *k), o => o.clone() }) });
        }
    }
    // nested debug
    for dbg in [None, Some(f(Beh::Ret(RV::Str))), Some(f(Beh::Ret(RV::Int(5)))), Some(f(Beh::Throw)), Some(MV::Native(RV::Str)), Some(MV::NonCallable)] {
        for dsp in [None, Some(f(Beh::Ret(RV::Str))), Some(f(Beh::Throw))] {
            let mut ops: Vec<(&str, MV)> = vec![];
            if let Some(mv) = &dbg {
                ops.push(("Debug", mv.clone()));
            }
            if let Some(mv) = &dsp {
                ops.push(("Display", mv.clone()));
            }
            let a = obj(0, &[0], &ops);
            for op in [Op::DebugNested, Op::Debug, Op::DisplayNested] {
                cx.push(Case { op, a: a.clone(), b: None });
            }
        }
    }
    for a in [host(0, &[]), host(0, &[("display", Beh::Ret(RV::Str))]), plain(0, &[0]), Opd::Prim(0, PrimK::Num)] {
        cx.push(Case { op: Op::DebugNested, a, b: None });
    }
}

/// access chains: every placement of the key in data / `@meta` along chains of depth 0..=max_depth
fn gen_access_grid(cx: &mut Ctx, max_depth: usize) {
    for depth in 0..=max_depth {
        let n_layers = depth + 1;
        // per layer: bit0 = key in data, bit1 = key in @meta; plus: last layer plain / bad base / normal
        for placement in 0..(4usize.pow(n_layers as u32)) {
            for tail in 0..3 {
                for k in [0usize, 2, 3, 4] {
                    if k != 0 && (placement + tail + k) % 3 != 0 && depth >= 2 {
                        continue; // thin out the non-user keys on deep chains
                    }
                    let mut ls = vec![];
                    for i in 0..n_layers {
                        let bits = (placement >> (2 * i)) & 3;
                        let last = i + 1 == n_layers;
                        let name = i;
                        let mut data = vec![1];
                        if bits & 1 != 0 {
                            data.push(k);
                        }
                        let src = if last && tail == 1 {
                            Src::None
                        } else {
                            let mut m = Meta::new(name);
                            if bits & 2 != 0 {
                                m.named.push(k);
                            }
                            m.base_bad = last && tail == 2;
                            if i == 1 {
                                m.ty = TypeD::Str(name);
                            }
                            Src::Own(m)
                        };
                        if matches!(src, Src::None) && bits & 2 != 0 {
                            continue;
                        }
                        ls.push(Layer { name, data, src });
                    }
                    if ls.len() != n_layers {
                        continue;
                    }
                    fix_layers(&mut ls);
                    let a = Opd::Map(ls);
                    cx.push(Case { op: Op::Access(k), a: a.clone(), b: None });
                    if k == 2 || (k == 0 && placement % 5 == 0) {
                        cx.push(Case { op: Op::Method(k), a: a.clone(), b: None });
                    }
                    if placement % 7 == 0 {
                        cx.push(Case { op: Op::Type, a: a.clone(), b: None });
                        cx.push(Case { op: Op::Display, a: a.clone(), b: None });
                        cx.push(Case { op: Op::AccessAssign(k.min(1)), a: a.clone(), b: None });
                    }
                }
            }
        }
    }
    // operators are never inherited through @base; @iterator on the top enables the iterator fallback
    for key in ["Add", "Negate", "Size", "Call", "Index", "Less", "Iterator", "Next", "Display", "Access"] {
        let mut top = Meta::new(0);
        top.ty = TypeD::Str(0);
        let mut base = Meta::new(1);
        base.ops = vec![(key.to_string(), f(if key == "Next" { Beh::Count(1) } else if key == "Iterator" { Beh::Ret(RV::Tup) } else { RI }))];
        let a = Opd::Map(vec![
            Layer { name: 0, data: vec![], src: Src::Own(top) },
            Layer { name: 1, data: vec![0], src: Src::Own(base) },
        ]);
        for op in [
            Op::Arith(0), Op::Neg, Op::Size, Op::Call, Op::Index(true), Op::Cmp(0), Op::For, Op::ToList, Op::Display,
            Op::Access(0), Op::Access(4), Op::Access(3),
        ] {
            let b = if matches!(op, Op::Arith(_) | Op::Cmp(_)) { Some(Opd::Prim(10, PrimK::Num)) } else { None };
            cx.push(Case { op, a: a.clone(), b });
        }
    }
    // type along the chain
    for t0 in [TypeD::None, TypeD::Str(5), TypeD::NonStr] {
        for t1 in [TypeD::None, TypeD::Str(6), TypeD::NonStr] {
            for t2 in [TypeD::None, TypeD::Str(7)] {
                let mk = |name: usize, ty: TypeD| {
                    let mut m = Meta::new(name);
                    m.ty = ty;
                    m.named = vec![1];
                    Layer { name, data: vec![], src: Src::Own(m) }
                };
                let a = Opd::Map(vec![mk(0, t0), mk(1, t1), mk(2, t2)]);
                for op in [Op::Type, Op::Display, Op::DisplayNested, Op::Debug] {
                    cx.push(Case { op, a: a.clone(), b: None });
                }
            }
        }
    }
}

const ALL_OP_KEYS: [&str; 36] = [
    "Add", "Subtract", "Multiply", "Divide", "Remainder", "Power", "AddRhs", "SubtractRhs", "MultiplyRhs", "DivideRhs",
    "RemainderRhs", "PowerRhs", "AddAssign", "SubtractAssign", "MultiplyAssign", "DivideAssign", "RemainderAssign",
    "PowerAssign", "Less", "LessOrEqual", "Greater", "GreaterOrEqual", "Equal", "NotEqual", "Negate", "Size", "Display",
    "Debug", "Iterator", "Next", "NextBack", "Index", "IndexAssign", "Access", "AccessAssign", "Call",
];
const HOST_METHODS: [&str; 32] = [
    "add", "subtract", "multiply", "divide", "remainder", "power", "add_rhs", "subtract_rhs", "multiply_rhs",
    "divide_rhs", "remainder_rhs", "power_rhs", "add_assign", "subtract_assign", "multiply_assign", "divide_assign",
    "remainder_assign", "power_assign", "less", "less_or_equal", "greater", "greater_or_equal", "equal", "not_equal",
    "negate", "index", "index_assign", "size", "call", "access", "access_assign", "display",
];

fn rand_beh(rng: &mut Rng, key: &str, n: i64) -> Beh {
    let r = rng.below(100);
    if r < 14 {
        return Beh::Unimpl;
    }
    if r < 24 {
        return Beh::Throw;
    }
    match key {
        "Next" | "NextBack" => {
            if rng.chance(1, 5) {
                Beh::Ret(RV::Null)
            } else {
                Beh::Count(rng.below(4) as u32)
            }
        }
        "Less" | "LessOrEqual" | "Greater" | "GreaterOrEqual" | "Equal" | "NotEqual" => match rng.below(8) {
            0 => Beh::Ret(RV::Int(n)),
            1 => Beh::Ret(RV::Null),
            x => Beh::Ret(RV::Bool(x % 2 == 0)),
        },
        "Iterator" => {
            let nd = *rng.pick(&[1u32, 2, 3, 14, 15, 16, 17, 18]);
            let nf = *rng.pick(&[NestFin::Lst, NestFin::Lst, NestFin::Int, NestFin::Back]);
            Beh::Ret(*rng.pick(&[
            RV::Iter, RV::Tup, RV::Lst, RV::Lst, RV::Rng, RV::PMap, RV::Gen, RV::InnerNext, RV::InnerIter, RV::Int(n), RV::Null, RV::Str,
            RV::SelfV,
            RV::Nest(nd, nf),
        ]))
        }
        "Display" | "Debug" => Beh::Ret(*rng.pick(&[RV::Str, RV::Str, RV::Str, RV::Int(n), RV::Null])),
        _ => Beh::Ret(*rng.pick(&[RV::Int(n), RV::Int(n), RV::Int(n), RV::Str, RV::Null, RV::SelfV, RV::Bool(true), RV::Lst, RV::Tup])),
    }
}

fn rand_mv(rng: &mut Rng, key: &str, n: i64, chain_base: usize) -> MV {
    let r = rng.below(100);
    if r >= 96 {
        return MV::Native(native_rv(key));
    }
    if r < 4 {
        MV::NonCallable
    } else if r < 9 {
        let len = 1 + rng.below(3);
        let mut fin = if rng.chance(1, 5) { None } else { Some(rand_beh(rng, key, n)) };
        if matches!(fin, Some(Beh::Count(_))) {
            fin = Some(Beh::Ret(RV::Null)); // stateful callees only as plain functions
        }
        MV::Chain((0..len).map(|i| chain_base + i).collect(), fin)
    } else {
        MV::Fn(rand_beh(rng, key, n))
    }
}

fn rand_meta(rng: &mut Rng, tag: usize, focus: &[&str], chain_base: &mut usize) -> Meta {
    let mut m = Meta::new(tag);
    let p = *rng.pick(&[3u32, 10, 25, 50]);
    for (j, k) in ALL_OP_KEYS.iter().enumerate() {
        let want = if focus.contains(k) { rng.chance(55, 100) } else { rng.chance(p, 100) };
        if want {
            let mv = rand_mv(rng, k, 100 + (tag as i64) * 100 + j as i64, *chain_base);
            if let MV::Chain(ms, _) = &mv {
                *chain_base += ms.len();
            }
            m.ops.push((k.to_string(), mv));
        }
    }
    // random insertion order
    for i in (1..m.ops.len()).rev() {
        let j = rng.below(i + 1);
        m.ops.swap(i, j);
    }
    for k in 0..5 {
        if rng.chance(1, 4) {
            m.named.push(k);
        }
    }
    m.ty = match rng.below(6) {
        0 | 1 => TypeD::Str(tag),
        2 => TypeD::NonStr,
        _ => TypeD::None,
    };
    m
}

fn rand_opd(rng: &mut Rng, base_name: usize, focus: &[&str], host_focus: &[&str], share_with: Option<&Opd>) -> Opd {
    match rng.weighted(&[2, 1, 6, 2]) {
        0 => Opd::Prim(base_name, *rng.pick(&[PrimK::Null, PrimK::Bool, PrimK::Num, PrimK::Num, PrimK::Str, PrimK::List, PrimK::Tuple, PrimK::Range, PrimK::Fn, PrimK::Iter])),
        1 => {
            let data: Vec<usize> = (0..5).filter(|_| rng.chance(1, 3)).collect();
            plain(base_name, &data)
        }
        2 => {
            // share the metamap of the other operand (the typical `foo 10 + foo 20`)
            if let Some(Opd::Map(ls)) = share_with {
                if ls.len() == 1 && rng.chance(1, 3) {
                    if let Src::Shared { proto, meta: Some(m), .. } = &ls[0].src {
                        let data: Vec<usize> = (0..5).filter(|_| rng.chance(1, 3)).collect();
                        return Opd::Map(vec![Layer {
                            name: base_name,
                            data,
                            src: Src::Shared { proto: *proto, meta: Some(m.clone()), via_get_meta: rng.chance(1, 2) },
                        }]);
                    }
                }
            }
            let depth = rng.weighted(&[6, 3, 2, 1]);
            let mut chain_base = base_name + 50;
            let mut ls = vec![];
            for i in 0..=depth {
                let name = base_name + i;
                let data: Vec<usize> = (0..5).filter(|_| rng.chance(1, 4)).collect();
                let last = i == depth;
                let src = if last && i > 0 && rng.chance(1, 4) {
                    Src::None
                } else {
                    let shared = (depth == 0 || last) && rng.chance(1, 4);
                    let tag = if shared { base_name + 40 + i } else { name };
                    let mut m = rand_meta(rng, tag, if i == 0 { focus } else { &[] }, &mut chain_base);
                    m.base_bad = last && rng.chance(1, 12);
                    if shared {
                        if rng.chance(1, 10) {
                            Src::Shared { proto: tag, meta: None, via_get_meta: false }
                        } else {
                            Src::Shared { proto: tag, meta: Some(m), via_get_meta: rng.chance(1, 3) }
                        }
                    } else {
                        Src::Own(m)
                    }
                };
                ls.push(Layer { name, data, src });
            }
            fix_layers(&mut ls);
            Opd::Map(ls)
        }
        _ => {
            let p = *rng.pick(&[0u32, 5, 20, 50]);
            let mut imp = vec![];
            for (j, m) in HOST_METHODS.iter().enumerate() {
                let want = if host_focus.contains(m) { rng.chance(60, 100) } else { rng.chance(p, 100) };
                if want {
                    let r = rng.below(100);
                    let b = if r < 15 {
                        Beh::Unimpl
                    } else if r < 25 {
                        Beh::Throw
                    } else if j >= 18 && j < 24 {
                        Beh::Ret(RV::Bool(rng.chance(1, 2)))
                    } else {
                        Beh::Ret(*rng.pick(&[RV::Int(500 + j as i64), RV::Int(500 + j as i64), RV::Str, RV::Null, RV::Bool(true)]))
                    };
                    imp.push((m.to_string(), b));
                }
            }
            let iter = match rng.below(8) {
                0 => HostIter::Iterable,
                1 => HostIter::Forward(rng.below(3) as u32),
                2 => HostIter::Bidirectional(rng.below(3) as u32),
                _ => HostIter::NotIterable,
            };
            Opd::Host(HostD { name: base_name, imp, iter })
        }
    }
}

fn gen_random(cx: &mut Ctx, rng: &mut Rng, n: usize) {
    for _ in 0..n {
        let which = rng.weighted(&[30, 12, 22, 3, 1, 3, 3, 4, 3, 2, 3, 2, 2, 3, 2, 6, 3, 2, 3, 2, 2, 3, 2]);
        let i6 = rng.below(6);
        let key = rng.below(5);
        let (op, focus_a, focus_b, hf_a, hf_b): (Op, Vec<&str>, Vec<&str>, Vec<String>, Vec<String>) = match which {
            0 => (Op::Arith(i6), vec![ARITH[i6].2], vec![ARITH[i6].3], vec![ARITH[i6].5.to_string()], vec![format!("{}_rhs", ARITH[i6].5)]),
            1 => (Op::Compound(i6, rng.chance(1, 8)), vec![ARITH[i6].4], vec![ARITH[i6].3], vec![format!("{}_assign", ARITH[i6].5)], vec![]),
            2 => (Op::Cmp(i6), vec![CMP[i6].2, "Less", "Equal"], vec![CMP[i6].2], vec![CMP[i6].3.to_string(), "less".into(), "equal".into()], vec![]),
            3 => (Op::Neg, vec!["Negate"], vec![], vec!["negate".into()], vec![]),
            4 => (Op::Not, vec![], vec![], vec![], vec![]),
            5 => (Op::Size, vec!["Size"], vec![], vec!["size".into()], vec![]),
            6 => (Op::Call, vec!["Call"], vec![], vec!["call".into()], vec![]),
            7 => (Op::For, vec!["Iterator", "Next"], vec![], vec![], vec![]),
            8 => (Op::ToList, vec!["Iterator", "Next"], vec![], vec![], vec![]),
            9 => (Op::Type, vec![], vec![], vec![], vec![]),
            10 => (Op::Display, vec!["Display"], vec![], vec!["display".into()], vec![]),
            11 => (Op::DisplayNested, vec!["Display"], vec![], vec!["display".into()], vec![]),
            12 => (Op::Debug, vec!["Debug", "Display"], vec![], vec!["display".into()], vec![]),
            13 => (Op::Index(rng.chance(2, 3)), vec!["Index"], vec![], vec!["index".into()], vec![]),
            14 => (Op::IndexAssign(rng.chance(2, 3)), vec!["IndexAssign"], vec![], vec!["index_assign".into()], vec![]),
            15 => (Op::Access(key), vec![], vec![], vec!["access".into()], vec![]),
            16 => (Op::Method(key.min(2)), vec![], vec![], vec!["access".into()], vec![]),
            17 => (Op::AccessAssign(key.min(2)), vec!["AccessAssign"], vec![], vec!["access_assign".into()], vec![]),
            18 => (Op::Reversed, vec!["Iterator", "Next", "NextBack"], vec![], vec![], vec![]),
            19 => (Op::CallPacked, vec!["Call"], vec![], vec!["call".into()], vec![]),
            20 => (Op::ApiIndexAssign(rng.chance(2, 3)), vec!["IndexAssign"], vec![], vec!["index_assign".into()], vec![]),
            21 => (Op::ApiCompound(i6), vec![ARITH[i6].4], vec![ARITH[i6].3], vec![format!("{}_assign", ARITH[i6].5)], vec![]),
            _ => (Op::DebugNested, vec!["Debug", "Display"], vec![], vec!["display".into()], vec![]),
        };
        let hfa: Vec<&str> = hf_a.iter().map(|s| s.as_str()).collect();
        let hfb: Vec<&str> = hf_b.iter().map(|s| s.as_str()).collect();
        let mut a = rand_opd(rng, 0, &focus_a, &hfa, None);
        let binary = matches!(op, Op::Arith(_) | Op::Cmp(_) | Op::ApiCompound(_)) || matches!(op, Op::Compound(_, false));
        let b = if binary { Some(rand_opd(rng, 10, &focus_b, &hfb, Some(&a))) } else { None };
        if matches!(a, Opd::Prim(..)) && matches!(op, Op::Access(_) | Op::Method(_) | Op::AccessAssign(_)) {
            a = plain(0, &[0]);
        }
        // `@access` intercepts every `.`; keep it rare outside the access operations
        cx.push(Case { op, a, b });
    }
}

// ------------------------------------------------------------------------------------------------
// main
// ------------------------------------------------------------------------------------------------

fn main() {
    kvh::quiet_panics();
    let args = Args::parse();
    let mut rep = Report::new("C17", &args);
    rep.rule = "cases = (operation, operand descriptions); operands: fixed values of every kind, plain maps, maps with any subset of the 36 operator/protocol metakeys (each entry a tracing function returning a value / throwing koto.unimplemented / throwing another error, a non-callable value, or a chain of callable maps), @meta entries, @type, @base chains up to depth 3, own or with_meta-shared metamaps, host objects (17 Rust types: every subset of the derived comparisons overridden, other methods selected per instance). Generated by exhaustive grids per operation (operand shape × operand shape, all 64 subsets of comparison keys × results of @< and @==, all placements of a key along base chains) plus seeded random cases. distinct = distinct canonical request lines; non-trivial = at least one operand is a map or host object".into();
    rep.max_samples = 12;
    let open: Vec<String> = rep.known_open().iter().filter_map(|e| e.get("id").and_then(|x| x.as_str()).map(|s| s.to_string())).collect();
    let drv = Driver::spawn(&args.driver);
    let mut cx = Ctx { rep, drv, open, pending: vec![], known_counts: Default::default(), k_fail: 0, d_fail: 0, sampled: Default::default() };

    // ad-hoc probe: `c17 … -- --script FILE` runs a script with the harness prelude (tr/reg/tick/getreg)
    if let Some(i) = args.extra.iter().position(|x| x == "--script") {
        let src = std::fs::read_to_string(&args.extra[i + 1]).expect("script file");
        let dummy = Case { op: Op::Not, a: Opd::Prim(0, PrimK::Null), b: None };
        match run_case(&dummy, &src) {
            Ok(o) => println!("trace : {}\nresult: {}\nstdout: {}", o.trace.join(";"), o.result, o.stdout),
            Err(p) => println!("panic: {}", p),
        }
        std::process::exit(0);
    }
    if let Some(p) = &args.replay {
        let v: serde_json::Value = serde_json::from_str(&std::fs::read_to_string(p).expect("replay file")).unwrap();
        let case: Case = serde_json::from_value(v["detail"]["case"].clone()).expect("detail.case");
        let script = render(&case);
        println!("script:\n{}", script);
        println!("request: {}", case.request());
        println!("model: {}", cx.drv.ask(&case.request()));
        match run_case(&case, &script) {
            Ok(o) => println!("impl : {}\nstdout: {}", o.canon(), o.stdout),
            Err(p) => println!("impl : panic {}", p),
        }
        cx.push(case);
        cx.flush();
        std::process::exit(cx.rep.finish());
    }

    // 0. corpus and witnesses of listed findings
    let mut witnesses: Vec<(String, Case)> = vec![];
    for e in cx.rep.known_entries() {
        if let (Some(id), Some(w)) = (e.get("id").and_then(|x| x.as_str()), e.get("witness_case")) {
            match serde_json::from_value::<Case>(w.clone()) {
                Ok(c) => witnesses.push((id.to_string(), c)),
                Err(err) => cx.rep.note(format!("witness_case of {} unreadable: {}", id, err)),
            }
        }
    }
    if let Some(dir) = &args.corpus {
        if let Ok(rd) = std::fs::read_dir(dir) {
            let mut ps: Vec<_> = rd.filter_map(|e| e.ok()).map(|e| e.path()).filter(|p| p.extension().is_some_and(|e| e == "json")).collect();
            ps.sort();
            for p in ps {
                match std::fs::read_to_string(&p).ok().and_then(|s| serde_json::from_str::<serde_json::Value>(&s).ok()) {
                    Some(v) => match serde_json::from_value::<Case>(v["case"].clone()) {
                        Ok(c) => {
                            cx.rep.bump("corpus_cases");
                            cx.push(c)
                        }
                        Err(e) => cx.rep.note(format!("corpus file {} unreadable: {}", p.display(), e)),
                    },
                    None => cx.rep.note(format!("corpus file {} unreadable", p.display())),
                }
            }
        }
    }
    for (_, w) in &witnesses {
        cx.push(w.clone());
    }
    cx.flush();

    // 1. grids
    let thorough = args.thorough();
    let mut rng = Rng::new(args.seed);
    if thorough {
        gen_arith_grid(&mut cx, &[0, 1, 2, 3, 4, 5]);
    } else {
        // `+` has its own function; one of the five macro instances rotates with the seed
        gen_arith_grid(&mut cx, &[0, 1 + (args.seed as usize % 5), 1 + ((args.seed as usize + 2) % 5)]);
    }
    gen_cmp_grid(&mut cx, thorough);
    gen_unary_grid(&mut cx);
    gen_derived_grid(&mut cx);
    gen_wave2_grid(&mut cx);
    gen_wave3_grid(&mut cx);
    gen_access_grid(&mut cx, if thorough { 4 } else { 3 });
    cx.flush();
    // 2. seeded random cases
    gen_random(&mut cx, &mut rng, if thorough { 400_000 } else { 20_000 });
    cx.flush();

    // listed findings: the witness must still fail (known) / must pass (fixed)
    for (id, w) in &witnesses {
        let status_known = cx.open.iter().any(|x| x == id);
        let script = render(w);
        let failing = match run_case(w, &script) {
            Err(_) => true,
            Ok(o) => {
                let model = cx.drv.ask(&w.request());
                let mut bad = !d_check(w, &o).is_empty() || !model_matches(&model, &o.canon());
                if w.op == Op::For {
                    let c2 = Case { op: Op::ToList, a: w.a.clone(), b: None };
                    if let Ok(o2) = run_case(&c2, &render(&c2)) {
                        bad |= o.result != o2.result && !(o.result.starts_with("E:") && o2.result.starts_with("E:"));
                    }
                }
                bad
            }
        };
        if status_known && failing {
            let n = cx.known_counts.get(id).copied().unwrap_or(0);
            cx.rep.known(id, &format!("witness still fails ({} cases of this run attributed to it)", n));
        } else if status_known && !failing {
            cx.rep.note(format!("{}: witness no longer fails; the entry can be marked fixed", id));
        } else if !status_known && failing {
            cx.d_fail += 1;
            cx.rep.violation("D", &format!("C17:regression:{}", id), json!({"case": serde_json::to_value(w).unwrap(), "input": script, "note": "a finding recorded as fixed fails again"}));
        }
    }
    let kc = cx.known_counts.clone();
    for (id, n) in kc {
        cx.rep.bump_by(&format!("attributed_to_{}", id), n);
    }
    let (k, d) = (cx.k_fail, cx.d_fail);
    cx.rep.extra.insert("k_disagreements".into(), json!(k));
    cx.rep.extra.insert("d_failures".into(), json!(d));
    cx.rep.extra.insert("driver_requests".into(), json!(cx.drv.requests));
    std::process::exit(cx.rep.finish());
}
