// (K2) stress specifications, and validation of what the arc runner observed.

fn split_tokens(s: &str) -> Vec<String> {
    let mut out = vec![];
    let mut cur = String::new();
    let mut depth = 0i32;
    for ch in s.chars() {
        match ch {
            '(' => {
                depth += 1;
                cur.push(ch);
            }
            ')' => {
                depth -= 1;
                cur.push(ch);
            }
            ' ' if depth == 0 => {
                if !cur.is_empty() {
                    out.push(std::mem::take(&mut cur));
                }
            }
            _ => cur.push(ch),
        }
    }
    if !cur.is_empty() {
        out.push(cur);
    }
    out
}

fn parse_ints(tok: &str) -> Option<Vec<i64>> {
    let inner = tok.strip_prefix('(')?.strip_suffix(')')?;
    if inner.trim().is_empty() {
        return Some(vec![]);
    }
    inner.split(' ').map(|x| x.parse::<i64>().ok()).collect()
}

fn parse_pairs(tok: &str) -> Option<Vec<(i64, i64)>> {
    let inner = tok.strip_prefix('(')?.strip_suffix(')')?;
    let mut out = vec![];
    for p in split_tokens(inner) {
        let v = parse_ints(&p)?;
        if v.len() != 2 {
            return None;
        }
        out.push((v[0], v[1]));
    }
    Some(out)
}

struct Stress {
    kind: &'static str,
    init: St,
    progs: Vec<Vec<Op>>,
    rounds: usize,
    /// sensitivity self-test only: rewrite the generated script (plants a non-atomic operation)
    rewrite: Option<fn(&str) -> String>,
    /// per thread: iterations of an empty loop before its first operation
    delays: Vec<usize>,
    /// per thread: run the operations through the crate's host API (Rust, no script)
    host: Vec<bool>,
}

/// planted mutant 1: `push` as length-read + separate write (`n = size(c); c.resize(n + 1, x)`):
/// two brackets — a push by another thread in between is lost
fn plant_split_push(script: &str) -> String {
    let mut out = String::new();
    for line in script.lines() {
        if let Some(arg) = line.strip_prefix("  c.push(").and_then(|r| r.strip_suffix(')')) {
            out.push_str(&format!("  n = size(c)\n  c.resize(n + 1, {})\n", arg));
        } else {
            out.push_str(line);
            out.push('\n');
        }
    }
    out
}

/// planted mutant 2: `fill` in two halves (two brackets) — a snapshot in between is torn
fn plant_split_fill(script: &str) -> String {
    let mut out = String::new();
    for line in script.lines() {
        if let Some(arg) = line.strip_prefix("  c.fill(").and_then(|r| r.strip_suffix(')')) {
            out.push_str(&format!("  c[0..12] = {}\n  c[12..24] = {}\n", arg, arg));
        } else {
            out.push_str(line);
            out.push('\n');
        }
    }
    out
}


fn stress_request(s: &Stress, dedupe: bool, max_out: usize) -> String {
    let scripts: Vec<String> = s
        .progs
        .iter()
        .enumerate()
        .map(|(t, p)| {
            let src = script_of_delayed(p, s.delays.get(t).copied().unwrap_or(0));
            match s.rewrite {
                Some(f) => f(&src),
                None => src,
            }
        })
        .collect();
    let host_progs: Vec<Value> = s
        .progs
        .iter()
        .enumerate()
        .map(|(t, p)| if s.host.get(t).copied().unwrap_or(false) { json!(p.iter().filter_map(|o| o.host_json()).collect::<Vec<_>>()) } else { json!([]) })
        .collect();
    let spec = json!({"kind": s.init.kind(), "init": s.init.json(), "scripts": scripts, "rounds": s.rounds,
                      "dedupe": dedupe, "max_out": max_out, "host_progs": host_progs});
    format!("stress {}", kvh::hex(spec.to_string().as_bytes()))
}

fn raw_stress_request(kind: &str, init: Value, scripts: &[String], rounds: usize) -> String {
    let spec = json!({"kind": kind, "init": init, "scripts": scripts, "rounds": rounds, "dedupe": true, "max_out": 50});
    format!("stress {}", kvh::hex(spec.to_string().as_bytes()))
}

// ---- small histories: every operation of the model, exact check -------------------------------

fn small_list_op(rng: &mut Rng, tag: i64) -> Op {
    match rng.weighted(&[6, 4, 3, 2, 1, 1, 2, 2, 1, 2, 2, 3, 2, 2, 2, 2, 2, 1, 1, 1, 1, 1, 1, 1, 2]) {
        0 => Op::Push(tag),
        1 => Op::Pop,
        2 => Op::Size,
        3 => Op::Get(rng.below(4)),
        4 => Op::First,
        5 => Op::Last,
        6 => Op::Contains(rng.range(0, 3)),
        7 => Op::Set(rng.below(3), tag),
        8 => Op::Clear,
        9 => Op::Fill(tag),
        10 => Op::Reverse,
        11 => Op::Snap,
        12 => Op::Sort,
        13 => Op::Resize(rng.below(5), tag),
        14 => if rng.chance(1, 2) { Op::Extend(vec![tag, tag + 50]) } else { Op::ExtendVia(*rng.pick(&["tuple", "iter"]), vec![tag]) },
        15 => Op::Insert(rng.below(4), tag),
        16 => Op::Remove(rng.below(3)),
        17 => if RETAIN_VALUE_EXCLUDED.load(std::sync::atomic::Ordering::Relaxed) { Op::Size } else { Op::Retain(rng.range(0, 2)) },
        18 => Op::IsEmpty,
        19 => if rng.chance(1, 2) { Op::EqTo(vec![0, 1]) } else { Op::NeTo(vec![0]) },
        20 => Op::SwapWith(vec![tag, 7]),
        21 => Op::AddAll(1000),
        22 => Op::GetIdx(rng.below(4)),
        23 => match rng.below(4) {
            0 => Op::LastVia(*rng.pick(&["match", "arg"])),
            1 => if rng.chance(1, 2) { Op::TailVia } else { Op::InitVia },
            2 => Op::FirstVia("match"),
            _ => Op::SnapVia(*rng.pick(&["copy", "deep_copy", "display", "debug", "concat", "slice", "json", "yaml"])),
        },
        _ => Op::Snap,
    }
}

/// shape filter: map `==` is generated only when F-C19-10 is not an open finding
static MAP_EQ_EXCLUDED: std::sync::atomic::AtomicBool = std::sync::atomic::AtomicBool::new(false);
/// shape filter: list.retain with a value is generated only when F-C19-11 is not an open finding
static RETAIN_VALUE_EXCLUDED: std::sync::atomic::AtomicBool = std::sync::atomic::AtomicBool::new(false);

fn small_map_op(rng: &mut Rng, v: i64) -> Op {
    let k = rng.range(0, 4);
    match rng.weighted(&[5, 4, 3, 2, 3, 1, 3, 2, 2, 2, 1, 1, 1, 2, 1, 2]) {
        0 => Op::Ins(k, v),
        1 => Op::Rem(k),
        2 => Op::MGet(k),
        3 => Op::Has(k),
        4 => Op::MSize,
        5 => Op::MClear,
        6 => Op::GetI(rng.below(4)),
        7 => Op::Ins1(k),
        8 => Op::Put(k, v),
        9 => Op::MAccess(k),
        10 => Op::MIdx(rng.below(4)),
        11 => Op::MSort,
        12 => Op::MExtend(vec![(k, v), (rng.range(0, 4), v + 1)]),
        13 => Op::MSnapVia(*rng.pick(&["copy", "deep_copy", "display", "debug", "json", "yaml"])),
        14 => if rng.chance(1, 2) { Op::MIsEmpty } else { Op::MSetAt(rng.below(4), k, v) },
        _ => if MAP_EQ_EXCLUDED.load(std::sync::atomic::Ordering::Relaxed) { Op::MSize } else { Op::MEqTo(vec![(0, 0), (1, 10)]) },
    }
}

fn gen_small(rng: &mut Rng, map: bool, n_threads: usize, max_ops: usize, rounds: usize) -> Stress {
    let mut progs = vec![];
    if map {
        let init: Vec<(i64, i64)> = (0..rng.below(4) as i64).map(|k| (k, k * 10)).collect();
        for t in 0..n_threads {
            let n = 1 + rng.below(max_ops);
            let p = (0..n).map(|j| small_map_op(rng, (t as i64 + 1) * 100 + j as i64)).collect();
            progs.push(p);
        }
        Stress { kind: "small-map", init: St::M(init), progs, rounds, rewrite: None, delays: vec![], host: vec![] }
    } else {
        let init: Vec<i64> = (0..rng.below(4) as i64).collect();
        for t in 0..n_threads {
            let n = 1 + rng.below(max_ops);
            let p = (0..n).map(|j| small_list_op(rng, (t as i64 + 1) * 100 + j as i64)).collect();
            progs.push(p);
        }
        Stress { kind: "small-list", init: St::L(init), progs, rounds, rewrite: None, delays: vec![], host: vec![] }
    }
}

// ---- large histories: counting invariants -------------------------------------------------------

const TAG: i64 = 1_000_000;

fn gen_big_list(rng: &mut Rng, n_threads: usize, k: usize) -> Stress {
    let mut progs = vec![];
    for t in 0..n_threads {
        let mut p = vec![];
        let mut pushed = 0i64;
        for _ in 0..k {
            p.push(match rng.weighted(&[52, 26, 8, 4, 3, 3, 4]) {
                0 => {
                    pushed += 1;
                    Op::Push((t as i64 + 1) * TAG + pushed)
                }
                1 => Op::Pop,
                2 => Op::Size,
                3 => Op::Get(rng.below(6)),
                4 => Op::First,
                5 => Op::Last,
                // a tag that is never pushed, or an own tag that is not pushed yet: must be absent
                _ => if rng.chance(1, 2) { Op::Contains(99 * TAG + 7) } else { Op::Contains((t as i64 + 1) * TAG + pushed + 1) },
            });
        }
        progs.push(p);
    }
    Stress { kind: "big-list", init: St::L(vec![]), progs, rounds: 1, rewrite: None, delays: vec![], host: vec![] }
}

fn check_big_list(s: &Stress, threads: &[Vec<String>], fin: &str) -> Result<Value, String> {
    let mut pushed: HashSet<i64> = HashSet::new();
    for p in &s.progs {
        for o in p {
            if let Op::Push(x) = o {
                pushed.insert(*x);
            }
        }
    }
    let total = pushed.len() as i64;
    let mut popped: HashSet<i64> = HashSet::new();
    let mut null_pops = 0u64;
    for (t, (p, rs)) in s.progs.iter().zip(threads).enumerate() {
        if p.len() != rs.len() {
            return Err(format!("thread {} returned {} results for {} operations", t, rs.len(), p.len()));
        }
        for (j, (o, r)) in p.iter().zip(rs).enumerate() {
            let at = || format!("thread {} op {} {:?} -> {}", t, j, o, r);
            match o {
                Op::Push(_) => {
                    if r != "u" {
                        return Err(at());
                    }
                }
                Op::Pop => {
                    if r == "null" {
                        null_pops += 1;
                    } else {
                        let v: i64 = r.strip_prefix('i').and_then(|x| x.parse().ok()).ok_or_else(at)?;
                        if !pushed.contains(&v) {
                            return Err(format!("{}: popped a value nobody pushed", at()));
                        }
                        if !popped.insert(v) {
                            return Err(format!("{}: the same element was popped twice (duplicated update)", at()));
                        }
                    }
                }
                Op::Size => {
                    let v: i64 = r.strip_prefix('i').and_then(|x| x.parse().ok()).ok_or_else(at)?;
                    if v < 0 || v > total {
                        return Err(format!("{}: size outside the reachable range 0..={}", at(), total));
                    }
                }
                Op::Get(_) | Op::First | Op::Last => {
                    if r != "null" {
                        let v: i64 = r.strip_prefix('i').and_then(|x| x.parse().ok()).ok_or_else(at)?;
                        if !pushed.contains(&v) {
                            return Err(format!("{}: read a value nobody pushed", at()));
                        }
                    }
                }
                Op::Contains(_) => {
                    if r != "b0" {
                        return Err(format!("{}: phantom element", at()));
                    }
                }
                _ => {}
            }
        }
    }
    let fin_v = parse_ints(fin).ok_or_else(|| format!("final contents unreadable: {}", fin))?;
    let mut seen: HashSet<i64> = HashSet::new();
    let mut last_of_thread: HashMap<i64, i64> = HashMap::new();
    let mut switches = 0u64;
    let mut prev_owner = -1i64;
    for v in &fin_v {
        if !pushed.contains(v) {
            return Err(format!("final list contains {} which nobody pushed", v));
        }
        if popped.contains(v) {
            return Err(format!("final list contains {} which was also returned by a pop", v));
        }
        if !seen.insert(*v) {
            return Err(format!("final list contains {} twice", v));
        }
        let owner = v / TAG;
        if let Some(prev) = last_of_thread.get(&owner) {
            if prev >= v {
                return Err(format!("final list has thread {}'s pushes out of program order ({} before {})", owner, prev, v));
            }
        }
        last_of_thread.insert(owner, *v);
        if owner != prev_owner {
            switches += 1;
        }
        prev_owner = owner;
    }
    if (popped.len() + fin_v.len()) as i64 != total {
        return Err(format!(
            "lost update: {} pushes, {} popped + {} remaining = {}",
            total,
            popped.len(),
            fin_v.len(),
            popped.len() + fin_v.len()
        ));
    }
    Ok(json!({"pushes": total, "popped": popped.len(), "remaining": fin_v.len(), "null_pops": null_pops, "owner_switches_in_final": switches}))
}

const SHARED: i64 = 900;

fn gen_big_map(rng: &mut Rng, n_threads: usize, k: usize) -> Stress {
    let mut progs = vec![];
    for t in 0..n_threads {
        let mut p = vec![];
        for j in 0..k {
            let own = (t as i64 + 1) * 10 + rng.range(0, 4);
            let sh = SHARED + rng.range(0, 2);
            let seq = (j % 1000) as i64;
            p.push(match rng.weighted(&[24, 12, 14, 6, 10, 6, 8, 8, 6]) {
                0 => Op::Ins(own, own * 1000 + seq),
                1 => Op::Rem(own),
                2 => Op::MGet(own),
                3 => Op::Has(own),
                4 => Op::Ins(sh, sh * 1000 + seq),
                5 => Op::Rem(sh),
                6 => Op::MGet(sh),
                7 => Op::MSize,
                _ => Op::GetI(rng.below(12)),
            });
        }
        progs.push(p);
    }
    Stress { kind: "big-map", init: St::M(vec![]), progs, rounds: 1, rewrite: None, delays: vec![], host: vec![] }
}

fn check_big_map(s: &Stress, threads: &[Vec<String>], fin: &str) -> Result<Value, String> {
    let n = s.progs.len() as i64;
    let max_keys = n * 5 + 3;
    let mut own_final: HashMap<i64, Option<i64>> = HashMap::new();
    // last operation of each thread on each shared key: Some(v) inserted / None removed
    let mut shared_last: HashMap<i64, Vec<Option<i64>>> = HashMap::new();
    let mut foreign_reads = 0u64;
    for (t, (p, rs)) in s.progs.iter().zip(threads).enumerate() {
        if p.len() != rs.len() {
            return Err(format!("thread {} returned {} results for {} operations", t, rs.len(), p.len()));
        }
        let mut own: HashMap<i64, i64> = HashMap::new();
        let mut sh_last: HashMap<i64, Option<i64>> = HashMap::new();
        for (j, (o, r)) in p.iter().zip(rs).enumerate() {
            let at = || format!("thread {} op {} {:?} -> {}", t, j, o, r);
            let is_own = |k: &i64| *k < SHARED;
            let val_ok = |k: i64, r: &str| -> bool {
                r == "null" || r.strip_prefix('i').and_then(|x| x.parse::<i64>().ok()).is_some_and(|v| v / 1000 == k)
            };
            match o {
                Op::Ins(k, v) if is_own(k) => {
                    // only the owner writes this key: the old value must be the owner's last write
                    if *r != opt_tok(own.get(k).copied()) {
                        return Err(format!("{}: expected old value {} (lost or foreign update on an owned key)", at(), opt_tok(own.get(k).copied())));
                    }
                    own.insert(*k, *v);
                }
                Op::Rem(k) if is_own(k) => {
                    if *r != opt_tok(own.get(k).copied()) {
                        return Err(format!("{}: expected {}", at(), opt_tok(own.get(k).copied())));
                    }
                    own.remove(k);
                }
                Op::MGet(k) if is_own(k) => {
                    if *r != opt_tok(own.get(k).copied()) {
                        return Err(format!("{}: expected {}", at(), opt_tok(own.get(k).copied())));
                    }
                }
                Op::Has(k) if is_own(k) => {
                    if *r != (if own.contains_key(k) { "b1" } else { "b0" }) {
                        return Err(at());
                    }
                }
                Op::Ins(k, v) => {
                    if !val_ok(*k, r) {
                        return Err(format!("{}: value does not belong to the key", at()));
                    }
                    sh_last.insert(*k, Some(*v));
                }
                Op::Rem(k) => {
                    if !val_ok(*k, r) {
                        return Err(format!("{}: value does not belong to the key", at()));
                    }
                    sh_last.insert(*k, None);
                }
                Op::MGet(k) => {
                    if !val_ok(*k, r) {
                        return Err(format!("{}: value does not belong to the key", at()));
                    }
                }
                Op::MSize => {
                    let v: i64 = r.strip_prefix('i').and_then(|x| x.parse().ok()).ok_or_else(at)?;
                    if v < 0 || v > max_keys {
                        return Err(format!("{}: size outside the reachable range 0..={}", at(), max_keys));
                    }
                }
                Op::GetI(_) => {
                    if r != "null" {
                        let kv = parse_ints(r).ok_or_else(at)?;
                        if kv.len() != 2 || kv[1] / 1000 != kv[0] {
                            return Err(format!("{}: entry pair (key, value) is inconsistent — half-updated entry", at()));
                        }
                        if kv[0] < SHARED && kv[0] / 10 != t as i64 + 1 {
                            foreign_reads += 1;
                        }
                    }
                }
                _ => {}
            }
        }
        for kk in 0..5 {
            let k = (t as i64 + 1) * 10 + kk;
            own_final.insert(k, own.get(&k).copied());
        }
        for (k, v) in sh_last {
            shared_last.entry(k).or_default().push(v);
        }
    }
    let fin_v = parse_pairs(fin).ok_or_else(|| format!("final contents unreadable: {}", fin))?;
    let mut seen = HashSet::new();
    for (k, v) in &fin_v {
        if !seen.insert(*k) {
            return Err(format!("final map has key {} twice", k));
        }
        if v / 1000 != *k {
            return Err(format!("final map entry ({} {}) is inconsistent", k, v));
        }
        if *k < SHARED {
            if own_final.get(k).copied().flatten() != Some(*v) {
                return Err(format!("final map has ({} {}) but the owner's last write was {:?}", k, v, own_final.get(k)));
            }
        } else {
            let cands = shared_last.get(k).cloned().unwrap_or_default();
            if !cands.contains(&Some(*v)) {
                return Err(format!("final map has ({} {}) which is no thread's last write to that key ({:?}) — lost update", k, v, cands));
            }
        }
    }
    for (k, v) in &own_final {
        if v.is_some() && !seen.contains(k) {
            return Err(format!("owned key {} (last write {:?}) is missing from the final map — lost update", k, v));
        }
    }
    for (k, cands) in &shared_last {
        if !seen.contains(k) && !cands.contains(&None) {
            return Err(format!("shared key {} is missing but no thread's last operation on it was a remove", k));
        }
    }
    Ok(json!({"final_entries": fin_v.len(), "get_index_of_foreign_entry": foreign_reads}))
}

/// writers `fill v` (one exclusive bracket writing every slot), readers `to_tuple()` (one shared
/// bracket): a snapshot with two different values is a torn read.
fn gen_torn_fill(rng: &mut Rng, n_threads: usize, k: usize) -> Stress {
    let mut progs = vec![];
    for t in 0..n_threads {
        let mut p = vec![];
        for j in 0..k {
            if t % 2 == 0 {
                p.push(if rng.chance(4, 5) { Op::Fill((t as i64 + 1) * TAG + j as i64) } else { Op::Snap });
            } else {
                p.push(if rng.chance(4, 5) { Op::Snap } else { Op::Fill((t as i64 + 1) * TAG + j as i64) });
            }
        }
        progs.push(p);
    }
    Stress { kind: "torn-fill", init: St::L(vec![0; 24]), progs, rounds: 1, rewrite: None, delays: vec![], host: vec![] }
}

fn check_torn_fill(s: &Stress, threads: &[Vec<String>], fin: &str) -> Result<Value, String> {
    let mut fills: HashSet<i64> = HashSet::new();
    fills.insert(0);
    for p in &s.progs {
        for o in p {
            if let Op::Fill(x) = o {
                fills.insert(*x);
            }
        }
    }
    let mut distinct_seen: HashSet<i64> = HashSet::new();
    let check = |tok: &str, what: String| -> Result<i64, String> {
        let v = parse_ints(tok).ok_or_else(|| format!("{}: unreadable snapshot {}", what, tok))?;
        if v.len() != 24 {
            return Err(format!("{}: snapshot has {} slots, not 24", what, v.len()));
        }
        if v.iter().any(|x| *x != v[0]) {
            return Err(format!("{}: torn read — snapshot mixes two fills: {}", what, tok));
        }
        if !fills.contains(&v[0]) {
            return Err(format!("{}: snapshot value {} was never written", what, v[0]));
        }
        Ok(v[0])
    };
    for (t, (p, rs)) in s.progs.iter().zip(threads).enumerate() {
        if p.len() != rs.len() {
            return Err(format!("thread {} returned {} results for {} operations", t, rs.len(), p.len()));
        }
        let mut own_last: Option<i64> = None;
        let mut foreign_since = false;
        for (j, (o, r)) in p.iter().zip(rs).enumerate() {
            match o {
                Op::Snap => {
                    let v = check(r, format!("thread {} op {}", t, j))?;
                    distinct_seen.insert(v);
                    let _ = (own_last, foreign_since);
                    if v / TAG != t as i64 + 1 {
                        foreign_since = true;
                    }
                }
                Op::Fill(x) => {
                    if r != "u" {
                        return Err(format!("thread {} op {} fill -> {}", t, j, r));
                    }
                    own_last = Some(*x);
                }
                _ => {}
            }
        }
    }
    check(fin, "final".into())?;
    Ok(json!({"distinct_fills_observed": distinct_seen.len()}))
}

/// `reverse` (one exclusive bracket) from all threads + snapshots: every snapshot is ascending or
/// descending, and the final direction is the parity of all reversals (a lost update flips it).
fn gen_reverse(rng: &mut Rng, n_threads: usize, k: usize) -> Stress {
    let mut progs = vec![];
    for _ in 0..n_threads {
        let mut p = vec![];
        for _ in 0..k {
            p.push(if rng.chance(2, 3) { Op::Reverse } else { Op::Snap });
        }
        progs.push(p);
    }
    Stress { kind: "reverse-parity", init: St::L((1..=24).collect()), progs, rounds: 1, rewrite: None, delays: vec![], host: vec![] }
}

fn check_reverse(s: &Stress, threads: &[Vec<String>], fin: &str) -> Result<Value, String> {
    let asc: Vec<i64> = (1..=24).collect();
    let desc: Vec<i64> = (1..=24).rev().collect();
    let mut n_rev = 0u64;
    let mut both = (0u64, 0u64);
    for (t, (p, rs)) in s.progs.iter().zip(threads).enumerate() {
        if p.len() != rs.len() {
            return Err(format!("thread {} returned {} results for {} operations", t, rs.len(), p.len()));
        }
        for (j, (o, r)) in p.iter().zip(rs).enumerate() {
            match o {
                Op::Reverse => n_rev += 1,
                Op::Snap => {
                    let v = parse_ints(r).ok_or_else(|| format!("thread {} op {}: unreadable {}", t, j, r))?;
                    if v == asc {
                        both.0 += 1;
                    } else if v == desc {
                        both.1 += 1;
                    } else {
                        return Err(format!("thread {} op {}: torn read — snapshot is a half-reversed list: {}", t, j, r));
                    }
                }
                _ => {}
            }
        }
    }
    let f = parse_ints(fin).ok_or_else(|| format!("final unreadable {}", fin))?;
    let expect = if n_rev % 2 == 0 { &asc } else { &desc };
    if &f != expect {
        return Err(format!("after {} reversals the list must be {} but is {}", n_rev, if n_rev % 2 == 0 { "ascending" } else { "descending" }, fin));
    }
    Ok(json!({"reversals": n_rev, "snapshots_asc": both.0, "snapshots_desc": both.1}))
}

/// every thread writes its own slot `l[t] = 1, 2, 3 …` (one exclusive bracket each) and takes
/// snapshots: each slot seen by one reader never decreases; final slot = number of writes.
fn gen_slots(rng: &mut Rng, n_threads: usize, k: usize) -> Stress {
    let mut progs = vec![];
    for t in 0..n_threads {
        let mut p = vec![];
        let mut c = 0i64;
        for _ in 0..k {
            if rng.chance(2, 3) {
                c += 1;
                p.push(Op::Set(t, c));
            } else {
                p.push(Op::Snap);
            }
        }
        progs.push(p);
    }
    Stress { kind: "own-slot", init: St::L(vec![0; n_threads]), progs, rounds: 1, rewrite: None, delays: vec![], host: vec![] }
}

fn check_slots(s: &Stress, threads: &[Vec<String>], fin: &str) -> Result<Value, String> {
    let n = s.progs.len();
    let mut writes = vec![0i64; n];
    let mut progress_seen = 0u64;
    for (t, (p, rs)) in s.progs.iter().zip(threads).enumerate() {
        if p.len() != rs.len() {
            return Err(format!("thread {} returned {} results for {} operations", t, rs.len(), p.len()));
        }
        let mut last = vec![0i64; n];
        for (j, (o, r)) in p.iter().zip(rs).enumerate() {
            match o {
                Op::Set(_, c) => {
                    if r != "u" {
                        return Err(format!("thread {} op {} {:?} -> {}", t, j, o, r));
                    }
                    writes[t] = *c;
                }
                Op::Snap => {
                    let v = parse_ints(r).ok_or_else(|| format!("thread {} op {}: unreadable {}", t, j, r))?;
                    if v.len() != n {
                        return Err(format!("thread {} op {}: snapshot length {}", t, j, v.len()));
                    }
                    if v[t] != writes[t] {
                        return Err(format!("thread {} op {}: own slot reads {} after writing {}", t, j, v[t], writes[t]));
                    }
                    for i in 0..n {
                        if v[i] < last[i] {
                            return Err(format!("thread {} op {}: slot {} went back from {} to {}", t, j, i, last[i], v[i]));
                        }
                        if i != t && v[i] > last[i] {
                            progress_seen += 1;
                        }
                        last[i] = v[i];
                    }
                }
                _ => {}
            }
        }
    }
    let f = parse_ints(fin).ok_or_else(|| format!("final unreadable {}", fin))?;
    if f != writes {
        return Err(format!("final slots {:?} but the owners' last writes are {:?} — lost update", f, writes));
    }
    Ok(json!({"foreign_progress_observed": progress_seen}))
}

// ---- replay of the check-then-act defects (F-C19-2..4) ------------------------------------------

struct Toctou {
    id: &'static str,
    what: &'static str,
    kind: &'static str,
    init: Value,
    scripts: Vec<String>,
}

/// Thread 0 runs the check-then-act operation in a loop (script errors caught), thread 1 shrinks
/// and regrows the container. The documented failure is a host panic in thread 0.
fn toctou_cases(loops: usize) -> Vec<Toctou> {
    let shrinker = format!("export run = |c|\n  for i in 0..{}\n    c.pop()\n    c.push(1)\n  ['u']\n", loops);
    let looped = |body: &str| format!("export run = |c|\n  for i in 0..{}\n    try\n      {}\n    catch _\n      null\n", loops, body);
    vec![
        Toctou {
            id: "F-C19-2",
            what: "list index read `l[i]`: length read under one guard (validate_index(l.len())), element under a second (l.data()[index]) — vm.rs run_index (List, Number)",
            kind: "l",
            init: json!([1]),
            scripts: vec![looped("x = c[0]") + "  ['u']\n", shrinker.clone()],
        },
        Toctou {
            id: "F-C19-3",
            what: "list.insert: bounds check `index > l.data().len()` under one guard, `l.data_mut().insert` under a second — core_lib/list.rs insert",
            kind: "l",
            init: json!([1]),
            scripts: vec![looped("c.insert(size(c), 7)") + "    c.pop()\n  ['u']\n", shrinker.clone()],
        },
        Toctou {
            id: "F-C19-4",
            what: "list.remove: bounds check `index >= l.data().len()` under one guard, `l.data_mut().remove` under a second — core_lib/list.rs remove",
            kind: "l",
            init: json!([1, 1]),
            scripts: vec![looped("c.remove(size(c) - 1)") + "    c.push(1)\n  ['u']\n", shrinker.clone()],
        },
        Toctou {
            id: "F-C19-5",
            what: "list range read `l[a..b]`: `range.indices(l.len())` under one guard, `&l.data()[indices]` under a second — vm.rs run_index (List, Range)",
            kind: "l",
            init: json!([1, 2, 3]),
            scripts: vec![
                looped("x = c[0..]") + "  ['u']\n",
                format!("export run = |c|\n  for i in 0..{}\n    c.pop()\n    c.pop()\n    c.push(1)\n    c.push(2)\n  ['u']\n", loops),
            ],
        },
        Toctou {
            id: "F-C19-6",
            what: "map.update (a compound operation: atomicity is not demanded) does `map.get(&key).unwrap()` after inserting the default under an earlier guard — core_lib/map.rs do_map_update; a concurrent remove turns the race into a host panic",
            kind: "m",
            init: json!([[1, 1]]),
            scripts: vec![
                looped("c.update(1, 0, |v| v + 1)") + "  ['u']\n",
                format!("export run = |c|\n  for i in 0..{}\n    c.remove(1)\n  ['u']\n", loops),
            ],
        },
    ]
}

// ---- replay of the nested-read deadlocks (F-C19-7..9) and of the map `==` history (F-C19-10) -----

struct DeadlockCase {
    id: &'static str,
    kind: &'static str,
    init: Value,
    scripts: Vec<String>,
}

fn deadlock_cases(loops: usize) -> Vec<DeadlockCase> {
    let reader = |expr: &str| format!("export run = |c|\n  for i in 0..{}\n    x = {}\n  ['u']\n", loops, expr);
    let lmut = format!("export run = |c|\n  for i in 0..{}\n    c.push(i)\n    c.pop()\n  ['u']\n", loops);
    let mmut = format!("export run = |c|\n  for i in 0..{}\n    c.insert('k9', i)\n    c.remove('k9')\n  ['u']\n", loops);
    let l50: Vec<i64> = (0..50).collect();
    vec![
        DeadlockCase { id: "F-C19-7", kind: "l", init: json!(l50), scripts: vec![reader("c == c"), lmut.clone(), lmut.clone()] },
        DeadlockCase { id: "F-C19-8", kind: "l", init: json!(l50), scripts: vec![reader("c + c"), lmut.clone(), lmut] },
        DeadlockCase { id: "F-C19-9", kind: "m", init: json!([[1, 10], [2, 20]]), scripts: vec![reader("c == c"), mmut.clone(), mmut] },
        DeadlockCase {
            id: "F-C19-12",
            kind: "l",
            init: json!([1]),
            scripts: vec![
                format!("export run = |c|\n  c.push(c)\n  for i in 0..{}\n    try\n      x = koto.deep_copy(c)\n    catch _\n      null\n  ['u']\n", loops * 2 / 3),
                format!("export run = |c|\n  for i in 0..{}\n    c.insert(0, i)\n    c.remove(0)\n  ['u']\n", loops * 2 / 3),
                format!("export run = |c|\n  for i in 0..{}\n    c.insert(0, i)\n    c.remove(0)\n  ['u']\n", loops * 2 / 3),
            ],
        },
        DeadlockCase {
            id: "F-C19-13",
            kind: "l",
            init: json!([1]),
            scripts: vec![
                format!("export run = |c|\n  c.push(c)\n  for i in 0..{}\n    try\n      x = json.to_string(c)\n    catch _\n      null\n  ['u']\n", loops * 2 / 3),
                format!("export run = |c|\n  for i in 0..{}\n    c.insert(0, i)\n    c.remove(0)\n  ['u']\n", loops * 2 / 3),
                format!("export run = |c|\n  for i in 0..{}\n    c.insert(0, i)\n    c.remove(0)\n  ['u']\n", loops * 2 / 3),
            ],
        },
    ]
}

fn map_eq_history(rounds: usize) -> Stress {
    let lit = vec![(1, 10), (0, 0)];
    Stress {
        kind: "witness-map-eq",
        init: St::M(lit.clone()),
        progs: vec![
            vec![Op::MEqTo(lit.clone()), Op::MEqTo(lit)],
            vec![Op::Ins(0, 601000), Op::Ins(0, 601001), Op::MClear],
            vec![Op::Rem(1), Op::MClear],
            vec![Op::Put(4, 603000), Op::Ins1(1)],
        ],
        rounds,
        rewrite: None,
        delays: vec![],
        host: vec![],
    }
}

fn retain_value_history(rounds: usize) -> Stress {
    Stress {
        kind: "witness-retain-value",
        init: St::L(vec![2, 0, 1]),
        progs: vec![vec![Op::Retain(0), Op::Retain(0)], vec![Op::Remove(0)], vec![Op::Set(0, 602000)], vec![Op::Push(603000), Op::Pop]],
        rounds,
        rewrite: None,
        delays: vec![],
        host: vec![],
    }
}

// ---- reads through the VM's instruction paths against push/pop writers (large histories) -------

/// init = [1..=8]; writers alternate push(tag) / pop, so the list always has at least its 8 initial
/// elements and never holds null; readers use index, unpacking / match patterns, slices, `for`.
fn gen_vm_reads(rng: &mut Rng, n_threads: usize, k: usize) -> Stress {
    let mut progs = vec![];
    let readers = (n_threads / 2).max(1);
    for t in 0..n_threads {
        let mut p = vec![];
        if t < readers {
            for _ in 0..k {
                p.push(match rng.weighted(&[10, 8, 3, 3, 2, 3, 2, 2, 3, 3, 3, 3, 2, 1]) {
                    0 => Op::LastVia("match"),
                    1 => Op::LastVia("arg"),
                    2 => Op::FirstVia("match"),
                    3 => Op::Last,
                    4 => Op::First,
                    5 => Op::GetIdx(rng.below(8)),
                    6 => Op::Get(rng.below(8)),
                    7 => Op::Size,
                    8 => Op::SnapVia(*rng.pick(&["slice", "display", "copy", "concat"])),
                    9 => Op::TailVia,
                    10 => Op::InitVia,
                    11 => Op::Collect(*rng.pick(&["for", "iter", "unpack"])),
                    12 => Op::Snap,
                    _ => Op::Contains(3),
                });
            }
        } else {
            let mut c = 0i64;
            for j in 0..k {
                if j % 2 == 0 {
                    c += 1;
                    p.push(Op::Push((t as i64 + 1) * TAG + c));
                } else {
                    p.push(Op::Pop);
                }
            }
        }
        progs.push(p);
    }
    Stress { kind: "vm-reads", init: St::L((1..=8).collect()), progs, rounds: 1, rewrite: None, delays: vec![], host: vec![] }
}

fn check_vm_reads(s: &Stress, threads: &[Vec<String>], fin: &str) -> Result<Value, String> {
    let init: Vec<i64> = (1..=8).collect();
    let mut tags: HashSet<i64> = HashSet::new();
    let mut writers = 0i64;
    for p in &s.progs {
        let mut w = false;
        for o in p {
            if let Op::Push(x) = o {
                tags.insert(*x);
                w = true;
            }
        }
        writers += w as i64;
    }
    let int_of = |r: &str| -> Option<i64> { r.strip_prefix('i').and_then(|x| x.parse().ok()) };
    // a snapshot-like value: `skip` initial elements dropped at the front, at least `min` entries
    let seq_ok = |v: &[i64], skip: usize, min: usize| -> Result<(), String> {
        if v.len() < min {
            return Err(format!("only {} entries, the list never has fewer than {}", v.len(), min));
        }
        let head = &init[skip..];
        let n = head.len().min(v.len());
        if v[..n] != head[..n] {
            return Err("the initial elements are not in place".into());
        }
        let mut seen = HashSet::new();
        for x in &v[n..] {
            if !tags.contains(x) || !seen.insert(*x) {
                return Err(format!("entry {} was never pushed (or appears twice)", x));
            }
        }
        Ok(())
    };
    let mut popped: HashSet<i64> = HashSet::new();
    let mut last_was_tag = 0u64;
    for (t, (p, rs)) in s.progs.iter().zip(threads).enumerate() {
        if p.len() != rs.len() {
            return Err(format!("thread {} returned {} results for {} operations", t, rs.len(), p.len()));
        }
        for (j, (o, r)) in p.iter().zip(rs).enumerate() {
            let at = |why: &str| format!("thread {} op {} {:?} [{}] -> {}: {}", t, j, o, o.koto().trim().replace('\n', " / "), r.chars().take(200).collect::<String>(), why);
            match o {
                Op::LastVia(_) | Op::Last => match int_of(r) {
                    None => return Err(at("the list is never empty and never holds null: the value is not the last element of any state")),
                    Some(v) => {
                        if v != 8 && !tags.contains(&v) {
                            return Err(at("not the last element of any state (last is 8 or a pushed tag)"));
                        }
                        last_was_tag += (v != 8) as u64;
                    }
                },
                Op::FirstVia(_) | Op::First => {
                    if int_of(r) != Some(1) {
                        return Err(at("the first element is always 1"));
                    }
                }
                Op::GetIdx(i) | Op::Get(i) => {
                    if int_of(r) != Some(init[*i]) {
                        return Err(at("the initial elements never move"));
                    }
                }
                Op::Size => {
                    let v = int_of(r).ok_or_else(|| at("unreadable"))?;
                    if v < 8 || v > 8 + writers {
                        return Err(at("size outside the reachable range"));
                    }
                }
                Op::Snap | Op::SnapVia(_) => {
                    let v = parse_ints(r).ok_or_else(|| at("unreadable"))?;
                    seq_ok(&v, 0, 8).map_err(|e| at(&e))?;
                }
                Op::TailVia => {
                    let v = parse_ints(r).ok_or_else(|| at("unreadable"))?;
                    seq_ok(&v, 1, 7).map_err(|e| at(&e))?;
                }
                Op::InitVia => {
                    let v = parse_ints(r).ok_or_else(|| at("unreadable"))?;
                    seq_ok(&v, 0, 7).map_err(|e| at(&e))?;
                }
                Op::Collect(f) => {
                    let v = parse_ints(r).ok_or_else(|| at("unreadable (a null or a foreign value was seen)"))?;
                    if *f == "unpack" {
                        if v != vec![1, 2] {
                            return Err(at("a, b = c must give 1, 2"));
                        }
                    } else {
                        // several guards: every value seen must be explained by some state
                        seq_ok(&v, 0, 8).map_err(|e| at(&e))?;
                    }
                }
                Op::Contains(_) => {
                    if r != "b1" {
                        return Err(at("3 is always in the list"));
                    }
                }
                Op::Push(_) => {
                    if r != "u" {
                        return Err(at("push failed"));
                    }
                }
                Op::Pop => {
                    let v = int_of(r).ok_or_else(|| at("pop of a list that always has a pushed element of this thread or more returned null"))?;
                    if !tags.contains(&v) {
                        return Err(at("popped one of the initial elements or a value nobody pushed"));
                    }
                    if !popped.insert(v) {
                        return Err(at("the same element was popped twice"));
                    }
                }
                _ => {}
            }
        }
    }
    let f = parse_ints(fin).ok_or_else(|| format!("final unreadable {}", fin))?;
    seq_ok(&f, 0, 8).map_err(|e| format!("final contents: {}", e))?;
    if f.len() - 8 + popped.len() != tags.len() {
        return Err(format!("lost update: {} pushes, {} popped + {} remaining", tags.len(), popped.len(), f.len() - 8));
    }
    Ok(json!({"last_was_a_pushed_tag": last_was_tag}))
}

// ---- host API alphabet (KMap / KList helpers), threads in Rust next to script threads ----------

fn gen_host(rng: &mut Rng, map: bool, n_threads: usize, rounds: usize) -> Stress {
    let mut progs = vec![];
    let mut host = vec![];
    if map {
        let init: Vec<(i64, i64)> = (0..3).map(|k| (k, k * 10)).collect();
        for t in 0..n_threads {
            let n = 1 + rng.below(3);
            // one thread in three is a script thread, the others use the host API
            let is_host = t % 3 != 2;
            let mut p = vec![];
            for j in 0..n {
                let k = rng.range(0, 3);
                let v = (t as i64 + 1) * 100 + j as i64;
                p.push(match rng.weighted(&[4, 6, 3, 2, 2, 1, 2, 1, 2]) {
                    0 => Op::Put(k, v),
                    1 => Op::Rem(k),
                    2 => if is_host { Op::RemPath(k) } else { Op::Rem(k) },
                    3 => Op::MGet(k),
                    4 => Op::Has(k),
                    5 => Op::MClear,
                    6 => Op::MSize,
                    7 => Op::MIsEmpty,
                    _ => Op::GetI(rng.below(3)),
                });
            }
            progs.push(p);
            host.push(is_host);
        }
        Stress { kind: "host-map", init: St::M(init), progs, rounds, rewrite: None, delays: vec![], host }
    } else {
        let init: Vec<i64> = (0..3).collect();
        for t in 0..n_threads {
            let n = 1 + rng.below(3);
            let is_host = t % 3 != 2;
            let mut p = vec![];
            for j in 0..n {
                let v = (t as i64 + 1) * 100 + j as i64;
                p.push(match rng.weighted(&[5, 6, 2, 1, 1, 2, 1, 2]) {
                    0 => Op::Push(v),
                    1 => Op::Pop,
                    2 => Op::Size,
                    3 => Op::First,
                    4 => Op::Last,
                    5 => Op::Get(rng.below(4)),
                    6 => Op::Clear,
                    _ => Op::Snap,
                });
            }
            progs.push(p);
            host.push(is_host);
        }
        Stress { kind: "host-list", init: St::L(init), progs, rounds, rewrite: None, delays: vec![], host }
    }
}

// ---- readers that look at several entries in ONE operation vs writers that change several ------

/// The writer flips every entry with ONE operation (map.extend / list.fill / transform / reverse /
/// sort); the reader compares the container with a MIX of old and new entries (shared container on
/// the left, on the right, inside a tuple, with `!=`): equal to no state, so every answer must be
/// false — a `true` is a read that combined two states.
fn gen_torn_eq(rng: &mut Rng, map: bool, n: usize, rounds: usize) -> Stress {
    let half = n / 2;
    if map {
        let base = if n > 9 { 100 } else { 0 };
        let keys: Vec<i64> = (0..n as i64).map(|i| base + i).collect();
        let init: Vec<(i64, i64)> = keys.iter().map(|k| (*k, k * 10)).collect();
        let new1: Vec<(i64, i64)> = keys.iter().map(|k| (*k, k * 10 + 1)).collect();
        let new2: Vec<(i64, i64)> = keys.iter().map(|k| (*k, k * 10 + 2)).collect();
        let mix = |a: &Vec<(i64, i64)>, b: &Vec<(i64, i64)>| -> Vec<(i64, i64)> { a[..half].iter().chain(b[half..].iter()).copied().collect() };
        let forms = ["lhs", "rhs", "tuple", "tuple_rhs", "ne", "ne_rhs"];
        let mut readers = vec![];
        for _ in 0..2 {
            let f = *rng.pick(&forms);
            let m = match rng.below(4) {
                0 => mix(&init, &new1),
                1 => mix(&new1, &init),
                2 => mix(&new1, &new2),
                _ => mix(&init, &new2),
            };
            readers.push(if f == "lhs" { Op::MEqTo(m) } else { Op::MEqVia(f, m) });
        }
        let progs = vec![readers.clone(), vec![Op::MExtend(new1)], vec![Op::MExtend(new2)], readers];
        Stress { kind: "torn-eq-map", init: St::M(init), progs, rounds, rewrite: None, delays: vec![0, rng.below(30), rng.below(60), rng.below(30)], host: vec![] }
    } else {
        let init: Vec<i64> = (0..n as i64).collect();
        let (w, new): (Op, Vec<i64>) = match rng.below(4) {
            0 => (Op::Fill(7), vec![7; n]),
            1 => (Op::AddAll(1000), init.iter().map(|x| x + 1000).collect()),
            2 => (Op::Reverse, init.iter().rev().copied().collect()),
            _ => (Op::Resize(n, 0), init.clone()),
        };
        let forms = ["lhs", "rhs", "tuple", "tuple_rhs", "ne_rhs"];
        let mut readers = vec![];
        for i in 0..2 {
            let f = *rng.pick(&forms);
            let m: Vec<i64> = if i == 0 { init[..half].iter().chain(new[half..].iter()).copied().collect() } else { new[..half].iter().chain(init[half..].iter()).copied().collect() };
            readers.push(if f == "lhs" { Op::EqTo(m) } else { Op::EqVia(f, m) });
        }
        let progs = vec![readers.clone(), vec![w], readers];
        Stress { kind: "torn-eq-list", init: St::L(init), progs, rounds, rewrite: None, delays: vec![0, rng.below(40), rng.below(20)], host: vec![] }
    }
}

// ---- binary operations whose two operands are the SAME shared container, against writers --------

fn same_operand_cases(loops: usize) -> Vec<DeadlockCase> {
    let reader = |stmt: &str| format!("export run = |c|\n  for i in 0..{}\n    {}\n  ['u']\n", loops, stmt);
    let lmut = format!("export run = |c|\n  for i in 0..{}\n    c.push(i)\n    c.pop()\n  ['u']\n", loops);
    let mmut = format!("export run = |c|\n  for i in 0..{}\n    c.insert('k9', i)\n    c.remove('k9')\n  ['u']\n", loops);
    let l50: Vec<i64> = (0..50).collect();
    let l = |id: &'static str, stmt: &str| DeadlockCase { id, kind: "l", init: json!(l50), scripts: vec![reader(stmt), lmut.clone(), lmut.clone()] };
    let m = |id: &'static str, stmt: &str| DeadlockCase { id, kind: "m", init: json!([[1, 10], [2, 20]]), scripts: vec![reader(stmt), mmut.clone(), mmut.clone()] };
    vec![
        l("same:l + l", "x = c + c"),
        l("same:l == l", "x = c == c"),
        l("same:l != l", "x = c != c"),
        l("same:l.contains l", "x = c.contains(c)"),
        l("same:l.extend l", "c.extend(c)\n    c.resize(50, 0)"),
        l("same:l.swap l", "c.swap(c)"),
        l("same:(l, l) == (l, l)", "x = (c, c) == (c, c)"),
        l("same:l.extend l.iter()", "c.extend(c.iter().take(3))\n    c.resize(50, 0)"),
        m("same:m == m", "x = c == c"),
        m("same:m != m", "x = c != c"),
        m("same:m + m", "x = c + c"),
        m("same:m.extend m", "c.extend(c)"),
        m("same:m.extend m.keys()", "c.extend(c.keys().take(2))\n    c.remove('k9')"),
    ]
}
