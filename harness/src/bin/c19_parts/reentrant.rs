// Re-entrant family: for every core operation that calls back into user code while it works on a
// container — callbacks (retain, sort, transform, resize_with, update, iterator adaptors over the
// container) and overloaded element operators (@==, @<, @display reached through contains,
// retain(value), sort(), ==, display) — a program whose callback touches the SAME container, once
// read-only and once mutating. Expected: the same answer from the rc and the arc runner, no host
// panic, no hang. The members listed under F-C19-1 (`family`) are the known exceptions; any other
// failing member is a VIOLATION.

fn reentrant_family() -> Vec<(String, String)> {
    let mut out = vec![];
    for (kind, body) in [("read", "n = size(c)"), ("write", "if size(c) < 6\n    W")] {
        let lbody = body.replace("W", "c.push(0)");
        let mbody = body.replace("W", "c.insert('z', 0)");
        // (id, container literal, callback params, callback tail, call)
        let list_cb: [(&str, &str, &str, &str); 9] = [
            ("list.retain(f)", "|x|", "x > 0", "c.retain(f)"),
            ("list.sort(f)", "|x|", "x", "c.sort(f)"),
            ("list.transform", "|x|", "x + 1", "c.transform(f)"),
            ("list.resize_with", "||", "0", "c.resize_with(5, f)"),
            ("list.each", "|x|", "x", "c.each(f).to_tuple()"),
            ("list.keep", "|x|", "x > 1", "c.keep(f).to_tuple()"),
            ("list.fold", "|a, x|", "a + x", "c.fold(0, f)"),
            ("list.find", "|x|", "x == 2", "c.find(f)"),
            ("list.for", "|x|", "x", "for x in copy(c)\n  f(x)\nfor x in c\n  if size(c) > 8\n    break\n  f(x)"),
        ];
        for (id, params, tail, call) in list_cb {
            out.push((format!("{}/{}", id, kind), format!("c = [3, 1, 2]\nf = {}\n  {}\n  {}\nres = {}\n(res, c)\n", params, lbody, tail, call)));
        }
        let list_op: [(&str, &str, &str, &str); 5] = [
            ("list.contains@==", "@==", "true", "c.contains(x)"),
            ("list.retain(value)@==", "@==", "true", "c.retain(x)"),
            ("list.sort()@<", "@<", "true", "c.push(x)\nres = c.sort()"),
            ("list.display@display", "@display", "'X'", "c.push(x)\nres = '{c}'"),
            ("list.==@==", "@==", "true", "c.push(x)\nres = c == [3, 1, 2, 9]"),
        ];
        for (id, op, tail, call) in list_op {
            let params = if op == "@display" { "||" } else { "|other|" };
            let extra = if op == "@<" { "  @==: |other| false\n  @>: |other| false\n" } else { "" };
            let call = if call.contains("res =") { call.to_string() } else { format!("res = {}", call) };
            out.push((
                format!("{}/{}", id, kind),
                format!("c = [3, 1, 2]\nx =\n  {}: {}\n    {}\n    {}\n{}{}\n(type(res), size(c))\n", op, params, lbody.replace("\n    ", "\n      "), tail, extra, call),
            ));
        }
        let map_cb: [(&str, &str, &str, &str); 5] = [
            ("map.update", "|v|", "v + 1", "c.update('a', f)"),
            ("map.update(default)", "|v|", "v + 1", "c.update('q', 5, f)"),
            ("map.sort(f)", "|k, v|", "k", "c.sort(f)"),
            ("map.each", "|(k, v)|", "v", "c.each(f).to_tuple()"),
            ("map.keep", "|(k, v)|", "v > 1", "c.keep(f).to_tuple()"),
        ];
        for (id, params, tail, call) in map_cb {
            out.push((format!("{}/{}", id, kind), format!("c = {{b: 2, a: 1}}\nf = {}\n  {}\n  {}\nres = {}\n(res, c)\n", params, mbody, tail, call)));
        }
        let map_op: [(&str, &str, &str, &str); 2] = [
            ("map.display@display", "@display", "'X'", "c.x = x\nres = '{c}'"),
            ("map.==@==", "@==", "true", "c.x = x\nres = c == {b: 2, a: 1, x: 9}"),
        ];
        for (id, op, tail, call) in map_op {
            let params = if op == "@display" { "||" } else { "|other|" };
            out.push((
                format!("{}/{}", id, kind),
                format!("c = {{b: 2, a: 1}}\nx =\n  {}: {}\n    {}\n    {}\n{}\n(type(res), size(c))\n", op, params, mbody.replace("\n    ", "\n      "), tail, call),
            ));
        }
    }
    out
}

/// run the family on both builds; returns (member, rc answer, arc answer, failing?)
fn run_reentrant_family(cx: &mut Cx) {
    let fam = reentrant_family();
    let reqs: Vec<String> = fam.iter().map(|(_, src)| format!("prog {}", kvh::hex(src.as_bytes()))).collect();
    // rc: sequential in the rc runner (panics are caught there)
    let rc_ans: Vec<String> = reqs.iter().map(|r| cx.rc.ask(r, Duration::from_secs(10))).collect();
    // arc: a hang is the expected failure mode, so every member gets its own fresh runner, 21 at a time
    let arc_exe = cx.arc.exe.clone();
    let mut arc_ans: Vec<String> = vec![String::new(); reqs.len()];
    for (ci, chunk) in reqs.chunks(21).enumerate() {
        let res: Vec<String> = std::thread::scope(|sc| {
            let hs: Vec<_> = chunk
                .iter()
                .map(|r| {
                    let exe = arc_exe.clone();
                    sc.spawn(move || {
                        let mut ch = Child::spawn(&exe);
                        match ch.request(r, Duration::from_secs(3)) {
                            Reply::Ok(s) => s,
                            Reply::Timeout => "TIMEOUT".to_string(),
                            Reply::Died(s) => format!("DIED {}", s),
                        }
                    })
                })
                .collect();
            hs.into_iter().map(|h| h.join().unwrap()).collect()
        });
        for (i, a) in res.into_iter().enumerate() {
            arc_ans[ci * 21 + i] = a;
        }
    }
    let listed: Vec<String> = cx
        .rep
        .known_open()
        .iter()
        .filter(|e| e["id"].as_str() == Some("F-C19-1"))
        .flat_map(|e| e["family"].as_array().cloned().unwrap_or_default())
        .filter_map(|x| x.as_str().map(|s| s.to_string()))
        .collect();
    let mut known_hit = vec![];
    let mut table = serde_json::Map::new();
    for (i, (id, src)) in fam.iter().enumerate() {
        cx.rep.case(&reqs[i], true);
        let (a, b) = (&rc_ans[i], &arc_ans[i]);
        let rc_panics = a.contains("| panic ");
        let arc_hangs = b == "TIMEOUT";
        let arc_panics = b.contains("| panic ") || b.starts_with("DIED");
        let failing = rc_panics || arc_hangs || arc_panics || a != b || a.contains("SCRIPT") ;
        let class = |s: &str| if s == "TIMEOUT" { "hang".to_string() } else { s.rsplit(" | ").next().unwrap_or("?").split(' ').next().unwrap_or("?").to_string() };
        table.insert(id.clone(), json!(format!("rc={} arc={}", class(a), class(b))));
        cx.rep.bump(&format!("reentrant_member={}", if failing { "differs-or-fails" } else { "same-in-both-builds" }));
        if !failing {
            if listed.contains(id) {
                cx.rep.note(format!("re-entrant family member {} is listed under F-C19-1 but now gives the same answer in both builds", id));
            }
            continue;
        }
        if listed.contains(id) {
            known_hit.push(id.clone());
        } else {
            cx.d_fail += 1;
            cx.rep.violation(
                "D",
                &format!("C19:reentrant:{}", id),
                json!({"kind": "prog", "member": id, "program": src, "rc": a, "arc": b,
                       "note": "a callback / element operator that touches the container its operation is working on: the rc runner panics (RefCell already borrowed) and / or the arc runner hangs (self-deadlock) or the builds disagree; this member is not one of the call sites listed under F-C19-1"}),
            );
        }
    }
    if !known_hit.is_empty() {
        cx.rep.known("F-C19-1", &format!("{} of {} listed re-entrant family members still fail (rc panics / arc self-deadlocks): {}", known_hit.len(), listed.len(), known_hit.join(", ")));
    }
    cx.rep.extra.insert("reentrant_family".into(), Value::Object(table));
}
