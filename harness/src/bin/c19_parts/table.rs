// Coverage table of the container operations, checked against the source on every run:
// every `result.add_fn("name", …)` of core_lib/list.rs and core_lib/map.rs must have an entry
// (a new operation without coverage is reported as K:C19:op-table), plus the VM-level operations
// on lists and maps (listed by hand). Each *form* is stressed concurrently with the mutators.

#[derive(Clone, Copy)]
enum Cover {
    /// single guard: exact linearizability check against the Lean spec; the tags name the forms
    Exact(&'static [&'static str]),
    /// several guards / callbacks / iteration: atomicity is not demanded; stressed for deadlock
    /// (watchdog) and host panics only
    Compound(&'static [&'static str]),
    /// both kinds of forms
    Both(&'static [&'static str], &'static [&'static str]),
    /// does not touch the shared data
    NoData(&'static str),
}

const LIST_TABLE: &[(&str, Cover)] = &[
    ("clear", Cover::Exact(&["l.clear"])),
    ("contains", Cover::Exact(&["l.contains"])),
    ("extend", Cover::Exact(&["l.extend.list", "l.extend.tuple", "l.extend.iter"])),
    ("fill", Cover::Exact(&["l.fill"])),
    ("first", Cover::Exact(&["l.first"])),
    ("get", Cover::Exact(&["l.get"])),
    ("insert", Cover::Exact(&["l.insert"])),
    ("is_empty", Cover::Exact(&["l.is_empty"])),
    ("last", Cover::Exact(&["l.last"])),
    ("pop", Cover::Exact(&["l.pop"])),
    ("push", Cover::Exact(&["l.push"])),
    ("remove", Cover::Exact(&["l.remove"])),
    ("resize", Cover::Exact(&["l.resize"])),
    ("resize_with", Cover::Compound(&["list.resize_with"])),
    ("retain", Cover::Both(&["l.retain.value"], &["list.retain(f)"])),
    ("reverse", Cover::Exact(&["l.reverse"])),
    ("sort", Cover::Both(&["l.sort"], &["list.sort(f)"])),
    ("swap", Cover::Exact(&["l.swap"])),
    ("to_tuple", Cover::Exact(&["l.to_tuple"])),
    ("transform", Cover::Exact(&["l.transform"])),
];

const MAP_TABLE: &[(&str, Cover)] = &[
    ("clear", Cover::Exact(&["m.clear"])),
    ("contains_key", Cover::Exact(&["m.contains_key"])),
    ("extend", Cover::Exact(&["m.extend"])),
    ("get", Cover::Exact(&["m.get"])),
    ("get_index", Cover::Exact(&["m.get_index"])),
    ("get_meta", Cover::NoData("reads the meta map handle only")),
    ("insert", Cover::Exact(&["m.insert2", "m.insert1"])),
    ("is_empty", Cover::Exact(&["m.is_empty"])),
    ("keys", Cover::Compound(&["map.keys"])),
    ("remove", Cover::Exact(&["m.remove"])),
    ("sort", Cover::Both(&["m.sort"], &["map.sort(f)"])),
    ("update", Cover::Compound(&["map.update"])),
    ("values", Cover::Compound(&["map.values"])),
    ("with_meta", Cover::NoData("replaces the meta map handle of a copy of the KMap struct")),
];

/// VM-level and prelude operations on a list / map value (not `add_fn` entries)
const VM_TABLE: &[(&str, Cover)] = &[
    ("vm.list.index l[i]", Cover::Exact(&["l.index"])),
    ("vm.list.slice l[a..b]", Cover::Exact(&["l.slice"])),
    ("vm.list.index_assign l[i] = x", Cover::Exact(&["l.set"])),
    ("vm.list.display '{l}' / print / to_string", Cover::Exact(&["l.display"])),
    ("vm.list.debug '{l:?}'", Cover::Exact(&["l.debug"])),
    ("vm.list.equal l == x / x == l / inside tuples", Cover::Exact(&["l.eq", "l.eq.rhs", "l.eq.tuple", "l.eq.tuple_rhs"])),
    ("vm.list.not_equal l != x / x != l", Cover::Exact(&["l.ne", "l.ne.rhs"])),
    ("vm.list.add l + x", Cover::Exact(&["l.concat"])),
    ("vm.size size l", Cover::Exact(&["l.size", "m.size"])),
    ("koto.copy", Cover::Exact(&["l.copy", "m.copy"])),
    ("koto.deep_copy", Cover::Exact(&["l.deep_copy", "m.deep_copy"])),
    ("vm.list.temp_index (unpacking / match patterns: `(..., last)`, `|(others..., last)|`, `(first, ...)`)", Cover::Exact(&["l.match.last", "l.arg.last", "l.match.first"])),
    ("vm.list.slice_from / slice_to (patterns `(first, rest...)`, `(others..., last)`)", Cover::Exact(&["l.match.rest", "l.match.others"])),
    ("vm.list.iteration (for, iter(), consumers, whole unpacking: several instructions)", Cover::Compound(&["list.iter.to_tuple", "list.for", "list.iter.consumers", "list.unpack", "list.match"])),
    ("vm.map.access m.k", Cover::Exact(&["m.access"])),
    ("vm.map.access_assign m.k = v", Cover::Exact(&["m.put"])),
    ("vm.map.index m[i]", Cover::Exact(&["m.index"])),
    ("vm.map.display '{m}'", Cover::Exact(&["m.display"])),
    ("vm.map.debug '{m:?}'", Cover::Exact(&["m.debug"])),
    ("vm.map.equal m == x / x == m / inside tuples", Cover::Exact(&["m.eq", "m.eq.rhs", "m.eq.tuple", "m.eq.tuple_rhs"])),
    ("vm.map.not_equal m != x / x != m", Cover::Exact(&["m.ne", "m.ne.rhs"])),
    ("vm.map.iteration (for)", Cover::Compound(&["map.for"])),
    ("vm.map.index_assign m[i] = (k, v)", Cover::Exact(&["m.set_at"])),
    ("libs serializers json / yaml / toml to_string (koto_serde)", Cover::Exact(&["l.json", "l.yaml", "m.json", "m.yaml"])),
    ("libs toml.to_string", Cover::NoData("same koto_serde serializer as json / yaml; toml rejects null values and top-level lists, so it is not part of the mixes")),
    ("vm.add `l + l` / `m + m` (the same container on both sides)", Cover::NoData("forms l.concat / same-operand family; NOTE `a + b` reads each operand under its own guard, one after the other (two brackets, also for `l + l`): each half is one state of its operand, the two halves need not be the same state")),
    ("tuple / string", Cover::NoData("immutable (Ptr<[KValue]> / Ptr<str>): no cell, nothing to lock; a tuple holding a list shares that list's cell")),
];

/// `pub fn`s of types/map.rs (ValueMap, KMap) and types/list.rs (KList): the crate's host API.
/// "host:<op>" = driven from Rust threads by the host-API stress (exact check); other entries say
/// why there is nothing to drive.
const HOST_TABLE: &[(&str, &str, &str)] = &[
    ("map", "with_capacity", "constructor"),
    ("map", "make_data_slice", "ValueMap method: works on data the caller has already borrowed"),
    ("map", "new", "constructor"),
    ("map", "with_type", "constructor"),
    ("map", "with_data", "constructor"),
    ("map", "with_contents", "constructor"),
    ("map", "from_data_and_meta_maps", "clones the two handles"),
    ("map", "data", "host:has host:geti (read guard handed to the caller)"),
    ("map", "data_mut", "write guard handed to the caller; used by every script-level map operation"),
    ("map", "meta_map", "meta map handle"),
    ("map", "set_meta_map", "meta map handle of this KMap value (&mut self)"),
    ("map", "contains_meta_key", "meta map"),
    ("map", "get", "host:get"),
    ("map", "get_meta_value", "meta map"),
    ("map", "insert", "host:ins"),
    ("map", "remove", "host:rem"),
    ("map", "remove_path", "host:rempath"),
    ("map", "insert_meta", "meta map (&mut self)"),
    ("map", "add_fn", "KMap::insert of a native function: same path as host:ins"),
    ("map", "len", "host:size"),
    ("map", "is_empty", "host:isempty"),
    ("map", "clear", "host:clear"),
    ("map", "is_same_instance", "pointer comparison"),
    ("map", "is_same_meta_instance", "pointer comparison"),
    ("map", "meta_type", "meta map"),
    ("map", "display", "script form m.display / m.debug"),
    ("list", "with_capacity", "constructor"),
    ("list", "with_data", "constructor"),
    ("list", "from_slice", "constructor"),
    ("list", "len", "host:size"),
    ("list", "is_empty", "host:isempty"),
    ("list", "data", "host:first host:last host:geth host:snap"),
    ("list", "data_mut", "host:push host:pop host:clear"),
    ("list", "is_same_instance", "pointer comparison"),
    ("list", "display", "script form l.display / l.debug"),
];

fn pub_fn_names(path: &str) -> Option<Vec<String>> {
    let src = std::fs::read_to_string(path).ok()?;
    let mut out = vec![];
    for part in src.split("pub fn ").skip(1) {
        let name: String = part.chars().take_while(|c| c.is_alphanumeric() || *c == '_').collect();
        if !name.is_empty() && !out.contains(&name) {
            out.push(name);
        }
    }
    Some(out)
}

fn repo_root() -> String {
    std::env::var("KOTO_REPO").unwrap_or_else(|_| "/repo".to_string())
}

/// names registered with `result.add_fn("…"` in a core_lib module
fn add_fn_names(path: &str) -> Option<Vec<String>> {
    let src = std::fs::read_to_string(path).ok()?;
    let mut out = vec![];
    for part in src.split("result.add_fn(\"").skip(1) {
        if let Some(end) = part.find('"') {
            out.push(part[..end].to_string());
        }
    }
    Some(out)
}

/// (problems, table as JSON for the evidence)
fn check_op_table() -> (Vec<String>, Value) {
    let mut problems = vec![];
    let mut listing = serde_json::Map::new();
    for (module, table) in [("list", LIST_TABLE), ("map", MAP_TABLE)] {
        let path = format!("{}/crates/runtime/src/core_lib/{}.rs", repo_root(), module);
        match add_fn_names(&path) {
            None => problems.push(format!("cannot read {}", path)),
            Some(names) => {
                if names.len() < 10 {
                    problems.push(format!("{}: only {} add_fn entries found — source shape changed", path, names.len()));
                }
                for n in &names {
                    if !table.iter().any(|(t, _)| t == n) {
                        problems.push(format!("core.{}.{} is registered in {} but has no entry in the C19 coverage table (new operation without concurrent coverage)", module, n, path));
                    }
                }
                for (t, _) in table {
                    if !names.iter().any(|n| n == t) {
                        problems.push(format!("coverage table lists core.{}.{} which {} no longer registers", module, t, path));
                    }
                }
            }
        }
    }
    for module in ["list", "map"] {
        let path = format!("{}/crates/runtime/src/types/{}.rs", repo_root(), module);
        match pub_fn_names(&path) {
            None => problems.push(format!("cannot read {}", path)),
            Some(names) => {
                for n in &names {
                    if !HOST_TABLE.iter().any(|(m, t, _)| *m == module && t == n) {
                        problems.push(format!("host API {}::{} ({}) has no entry in the C19 host-API table", if module == "map" { "KMap" } else { "KList" }, n, path));
                    }
                }
                for (m, t, _) in HOST_TABLE.iter().filter(|(m, _, _)| *m == module) {
                    if !names.iter().any(|n| n == t) {
                        problems.push(format!("host-API table lists {}::{} which {} no longer defines", m, t, path));
                    }
                }
            }
        }
    }
    for (m, t, why) in HOST_TABLE {
        listing.insert(format!("host.{}.{}", if *m == "map" { "KMap" } else { "KList" }, t), json!(why));
    }
    for (prefix, table) in [("core.list.", LIST_TABLE), ("core.map.", MAP_TABLE), ("", VM_TABLE)] {
        for (name, c) in table {
            let v = match c {
                Cover::Exact(f) => json!({"exact": f}),
                Cover::Compound(f) => json!({"compound": f}),
                Cover::Both(a, b) => json!({"exact": a, "compound": b}),
                Cover::NoData(why) => json!({"no_shared_data": why}),
            };
            listing.insert(format!("{}{}", prefix, name), v);
        }
    }
    (problems, Value::Object(listing))
}

fn all_forms() -> (Vec<&'static str>, Vec<&'static str>) {
    let (mut exact, mut compound) = (vec![], vec![]);
    for table in [LIST_TABLE, MAP_TABLE, VM_TABLE] {
        for (_, c) in table {
            match c {
                Cover::Exact(f) => exact.extend(f.iter().copied()),
                Cover::Compound(f) => compound.extend(f.iter().copied()),
                Cover::Both(a, b) => {
                    exact.extend(a.iter().copied());
                    compound.extend(b.iter().copied());
                }
                Cover::NoData(_) => {}
            }
        }
    }
    (exact, compound)
}

/// the operation of a form, for a container that initially has `len` entries; `vals`: some values
/// (list) / keys (map) present initially
fn make_form(tag: &str, rng: &mut Rng, len: usize, vals: &[i64], t: i64) -> Op {
    let some_val = if vals.is_empty() { 0 } else { *rng.pick(vals) };
    let last_val = vals.last().copied().unwrap_or(0);
    let near = |rng: &mut Rng| -> usize { if rng.chance(1, 2) { rng.below(3) } else { len.saturating_sub(rng.below(3)) } };
    let new = 500_000 + t * 1000 + rng.range(0, 99);
    match tag {
        "l.clear" => Op::Clear,
        "l.contains" => Op::Contains(if rng.chance(1, 2) { last_val } else { 77_777 }),
        "l.extend.list" => Op::Extend(vec![new, new + 100]),
        "l.extend.tuple" => Op::ExtendVia("tuple", vec![new, new + 100]),
        "l.extend.iter" => Op::ExtendVia("iter", vec![new, new + 100]),
        "l.fill" => Op::Fill(new),
        "l.first" => Op::First,
        "l.get" => Op::Get(near(rng)),
        "l.insert" => Op::Insert(near(rng), new),
        "l.is_empty" => Op::IsEmpty,
        "l.last" => Op::Last,
        "l.pop" => Op::Pop,
        "l.push" => Op::Push(new),
        "l.remove" => Op::Remove(near(rng)),
        "l.resize" => Op::Resize(if rng.chance(1, 2) { len + 2 } else { len.saturating_sub(2) }, new),
        "l.retain.value" => Op::Retain(some_val),
        "l.reverse" => Op::Reverse,
        "l.sort" => Op::Sort,
        "l.swap" => Op::SwapWith(vec![new, new + 1]),
        "l.to_tuple" => Op::Snap,
        "l.transform" => Op::AddAll(1_000_000),
        "l.index" => Op::GetIdx(near(rng)),
        "l.slice" => Op::SnapVia("slice"),
        "l.set" => Op::Set(near(rng), new),
        "l.display" => Op::SnapVia("display"),
        "l.debug" => Op::SnapVia("debug"),
        "l.eq" => Op::EqTo(vals.to_vec()),
        "l.ne" => Op::NeTo(vals.to_vec()),
        "l.eq.rhs" if vals.len() <= 50 => Op::EqVia("rhs", vals.to_vec()),
        "l.eq.tuple" if vals.len() <= 50 => Op::EqVia("tuple", vals.to_vec()),
        "l.eq.tuple_rhs" if vals.len() <= 50 => Op::EqVia("tuple_rhs", vals.to_vec()),
        "l.ne.rhs" if vals.len() <= 50 => Op::EqVia("ne_rhs", vals.to_vec()),
        "l.eq.rhs" | "l.eq.tuple" | "l.eq.tuple_rhs" | "l.ne.rhs" => Op::EqTo(vals.to_vec()),
        "l.concat" => Op::SnapVia("concat"),
        "l.size" => Op::Size,
        "l.copy" => Op::SnapVia("copy"),
        "l.deep_copy" => Op::SnapVia("deep_copy"),
        "l.json" => Op::SnapVia("json"),
        "l.yaml" => Op::SnapVia("yaml"),
        "m.json" => Op::MSnapVia("json"),
        "m.yaml" => Op::MSnapVia("yaml"),
        "m.set_at" => Op::MSetAt(near(rng), if rng.chance(1, 2) { some_val } else { vals.first().copied().unwrap_or(1) % 10 + if vals.iter().all(|k| *k < 10) { 0 } else { 500 } }, new),
        "l.match.last" => Op::LastVia("match"),
        "l.arg.last" => Op::LastVia("arg"),
        "l.match.first" => Op::FirstVia("match"),
        "l.match.rest" => Op::TailVia,
        "l.match.others" => Op::InitVia,
        "m.clear" => Op::MClear,
        "m.contains_key" => Op::Has(some_val),
        // keys keep one width (one digit in small maps, three in large ones): the order of the
        // 'k<n>' strings must be the numeric order the model sorts by
        "m.extend" => Op::MExtend(vec![(some_val, new), (if vals.iter().all(|k| *k < 10) { rng.range(0, 9) } else { vals.first().copied().unwrap_or(100) % 100 + 500 }, new)]),
        "m.get" => Op::MGet(some_val),
        "m.get_index" => Op::GetI(near(rng)),
        "m.insert2" => Op::Ins(some_val, new),
        "m.insert1" => Op::Ins1(some_val),
        "m.is_empty" => Op::MIsEmpty,
        "m.remove" => Op::Rem(some_val),
        "m.sort" => Op::MSort,
        "m.size" => Op::MSize,
        "m.copy" => Op::MSnapVia("copy"),
        "m.deep_copy" => Op::MSnapVia("deep_copy"),
        "m.access" => Op::MAccess(some_val),
        "m.put" => Op::Put(some_val, new),
        "m.index" => Op::MIdx(near(rng)),
        "m.display" => Op::MSnapVia("display"),
        "m.debug" => Op::MSnapVia("debug"),
        "m.eq" => Op::MEqTo(vals.iter().map(|k| (*k, k * 10)).collect()),
        "m.eq.rhs" => Op::MEqVia("rhs", vals.iter().map(|k| (*k, k * 10)).collect()),
        "m.eq.tuple" => Op::MEqVia("tuple", vals.iter().map(|k| (*k, k * 10)).collect()),
        "m.eq.tuple_rhs" => Op::MEqVia("tuple_rhs", vals.iter().map(|k| (*k, k * 10)).collect()),
        "m.ne" => Op::MEqVia("ne", vals.iter().map(|k| (*k, k * 10)).collect()),
        "m.ne.rhs" => Op::MEqVia("ne_rhs", vals.iter().map(|k| (*k, k * 10)).collect()),
        other => Op::Compound(Box::leak(other.to_string().into_boxed_str())),
    }
}

/// One history: thread 0 runs the form under test (once or twice), the other threads run the
/// mutators (push / pop / insert / remove / index-assign / clear; for maps insert / insert1 /
/// `m.k = v` / remove / clear) after a random start delay.
fn gen_pair(rng: &mut Rng, tag: &'static str, big: bool, n_threads: usize, rounds: usize) -> Stress {
    let is_map = tag.starts_with("m.") || tag.starts_with("map.");
    let t0_ops = 1 + rng.below(2);
    let mut progs: Vec<Vec<Op>> = vec![];
    let mut delays = vec![0usize];
    let max_delay = if big { 2500 } else { 40 };
    if is_map {
        // keys of equal width so that the order of 'k<n>' strings is the numeric order
        let (base, n) = if big { (100i64, 300usize) } else { (0, rng.below(4)) };
        let mut keys: Vec<i64> = (0..n as i64).map(|i| base + i).collect();
        // not sorted initially (so that sort does something)
        for i in (1..keys.len()).rev() {
            let j = rng.below(i + 1);
            keys.swap(i, j);
        }
        let init: Vec<(i64, i64)> = keys.iter().map(|k| (*k, k * 10)).collect();
        progs.push((0..t0_ops).map(|_| make_form(tag, rng, n, &keys, 0)).collect());
        for t in 1..n_threads {
            let n_ops = 1 + rng.below(3);
            let mut p = vec![];
            for j in 0..n_ops {
                let k = if keys.is_empty() || rng.chance(1, 3) { base + if big { 400 + rng.range(0, 99) } else { rng.range(4, 9) } } else { *rng.pick(&keys) };
                let v = 600_000 + t as i64 * 1000 + j as i64;
                p.push(match rng.weighted(&[5, 2, 3, 5, 1, 3, 1, 3]) {
                    0 => Op::Ins(k, v),
                    1 => Op::Ins1(k),
                    2 => Op::Put(k, v),
                    3 => Op::Rem(k),
                    4 => Op::MClear,
                    // one operation that changes several entries
                    5 => Op::MExtend(keys.iter().take(12).map(|k| (*k, v)).collect()),
                    6 => Op::MSort,
                    _ => Op::MSetAt(rng.below(3), k, v),
                });
            }
            progs.push(p);
            delays.push(rng.below(max_delay));
        }
        Stress { kind: "pair-map", init: St::M(init), progs, rounds, rewrite: None, delays, host: vec![] }
    } else {
        let n = if big { 1200 } else { rng.below(5) };
        let mut vals: Vec<i64> = (0..n as i64).map(|i| if big { 1000 + i } else { i }).collect();
        for i in (1..vals.len()).rev() {
            let j = rng.below(i + 1);
            vals.swap(i, j);
        }
        progs.push((0..t0_ops).map(|_| make_form(tag, rng, n, &vals, 0)).collect());
        for t in 1..n_threads {
            let n_ops = 1 + rng.below(3);
            let mut p = vec![];
            for j in 0..n_ops {
                let v = 600_000 + t as i64 * 1000 + j as i64;
                let idx = if rng.chance(1, 2) { rng.below(3) } else { n / 2 };
                p.push(match rng.weighted(&[6, 5, 3, 3, 3, 1, 2, 2, 1, 1, 1]) {
                    0 => Op::Push(v),
                    1 => Op::Pop,
                    2 => Op::Insert(idx, v),
                    3 => Op::Remove(idx),
                    4 => Op::Set(idx, v),
                    5 => Op::Clear,
                    6 => Op::Resize(if rng.chance(1, 2) { n + 1 } else { n.saturating_sub(1) }, v),
                    7 => Op::Extend(vec![v, v + 1, v + 2]),
                    8 => Op::Fill(v),
                    9 => Op::Reverse,
                    _ => Op::Sort,
                });
            }
            progs.push(p);
            delays.push(rng.below(max_delay));
        }
        Stress { kind: "pair-list", init: St::L(vals), progs, rounds, rewrite: None, delays, host: vec![] }
    }
}
