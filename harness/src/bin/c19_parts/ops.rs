// Container operations: model operation + surface form (how it is written in Koto), rendering
// (Koto source, model request) and the harness-side copy of the sequential semantics used only to
// *search* for a linearization (the found order is then validated by the Lean model).
//
// Map keys are the strings 'k<n>' in Koto (so that `m.k3` / `m.k3 = v` can be exercised) and the
// integers n in the model; a stored `null` (one-argument `m.insert k`) is NULLV in the model.

const NULLV: i64 = -999999;

#[derive(Clone, Debug, PartialEq, Eq, Hash)]
enum Op {
    // ---- list: model operation (surface form) ----
    Push(i64),
    Pop,
    Size,
    Get(usize),      // l.get(i)
    GetIdx(usize),   // l[i]            (error → null)
    First,
    Last,
    Contains(i64),
    Set(usize, i64), // l[i] = x
    Clear,
    Fill(i64),
    Reverse,
    Snap,                     // l.to_tuple()
    SnapVia(&'static str),    // copy / deep_copy / display / debug / concat / slice
    Sort,
    Resize(usize, i64),
    Extend(Vec<i64>),
    ExtendVia(&'static str, Vec<i64>), // tuple / range-less iterator argument forms
    Insert(usize, i64),
    Remove(usize),
    Retain(i64),
    IsEmpty,
    EqTo(Vec<i64>),
    NeTo(Vec<i64>), // not (l != [..])
    SwapWith(Vec<i64>),
    AddAll(i64), // l.transform |x| x + d
    // reads through the VM's unpacking / matching instructions (TempIndex, SliceFrom/SliceTo)
    LastVia(&'static str),  // match c (..., last) / |(others..., last)|
    FirstVia(&'static str), // match c (first, ...)
    TailVia,                // match c (first, rest...) → rest
    InitVia,                // match c (others..., last) → others
    /// several instructions, each with its own guard: the values seen are collected and checked
    /// against the universe of values by the large-history oracle only
    Collect(&'static str),
    // ---- map ----
    Ins(i64, i64),
    Ins1(i64),
    Put(i64, i64), // m.k = v
    Rem(i64),
    MGet(i64),
    MAccess(i64), // m.k (error → null)
    Has(i64),
    MSize,
    MClear,
    GetI(usize),
    MIdx(usize), // m[i] (error → null)
    MSort,
    MExtend(Vec<(i64, i64)>),
    MIsEmpty,
    MSnapVia(&'static str), // copy / deep_copy / display / debug
    MEqTo(Vec<(i64, i64)>),
    /// `==` / `!=` with the shared container on the right, inside a tuple, negated
    EqVia(&'static str, Vec<i64>),
    MEqVia(&'static str, Vec<(i64, i64)>),
    /// `m[i] = (k, v)` (run_index_assign, Map arm)
    MSetAt(usize, i64, i64),
    /// host API only: KMap::remove_path
    RemPath(i64),
    // ---- compound (several guards / callbacks): executed, result not compared ----
    Compound(&'static str),
}

fn ints_sp(xs: &[i64]) -> String {
    xs.iter().map(|x| x.to_string()).collect::<Vec<_>>().join(" ")
}
fn ints_cs(xs: &[i64]) -> String {
    xs.iter().map(|x| x.to_string()).collect::<Vec<_>>().join(", ")
}
fn map_lit(es: &[(i64, i64)]) -> String {
    format!("{{{}}}", es.iter().map(|(k, v)| format!("k{}: {}", k, v)).collect::<Vec<_>>().join(", "))
}

/// Koto source of the compound operations (container is `c`; nothing is recorded but 'u')
fn compound_src(name: &str) -> &'static str {
    match name {
        "list.retain(f)" => "c.retain(|x| x % 7 != 3)",
        "list.resize_with" => "c.resize_with(size(c) + 1, || 5)",
        "list.sort(f)" => "c.sort(|x| 0 - x)",
        "list.iter.to_tuple" => "c.iter().to_tuple()",
        "list.for" => "for x in c\n    null",
        "list.iter.consumers" => "(c.sum(), c.count(), c.min(), c.max(), c.to_list(), c.to_string())",
        "list.unpack" => "(a, b, rest...) = c",
        "list.match" => "match c\n    (first, others...) then first\n    else null",
        "map.update" => "c.update('k1', 0, |v| if v == null then 0 else v + 1)",
        "map.sort(f)" => "c.sort(|k, v| k)",
        "map.keys" => "c.keys().to_tuple()",
        "map.values" => "c.values().to_tuple()",
        "map.for" => "for k, v in c\n    null",
        "map.get_meta" => "c.get_meta()",
        "map.with_meta" => "c.with_meta({@type: 'T'})",
        _ => "null",
    }
}

impl Op {
    fn is_compound(&self) -> bool {
        matches!(self, Op::Compound(_))
    }
    /// the model operation (request text for the driver)
    fn sexp(&self) -> String {
        match self {
            Op::Push(x) => format!("(push {})", x),
            Op::Pop => "(pop)".into(),
            Op::Size | Op::MSize => "(size)".into(),
            Op::Get(i) | Op::GetIdx(i) => format!("(get {})", i),
            Op::First => "(first)".into(),
            Op::Last => "(last)".into(),
            Op::Contains(x) => format!("(contains {})", x),
            Op::Set(i, x) => format!("(set {} {})", i, x),
            Op::Clear | Op::MClear => "(clear)".into(),
            Op::Fill(x) => format!("(fill {})", x),
            Op::Reverse => "(reverse)".into(),
            Op::Snap | Op::SnapVia(_) | Op::MSnapVia(_) => "(snap)".into(),
            Op::Sort | Op::MSort => "(sort)".into(),
            Op::Resize(n, x) => format!("(resize {} {})", n, x),
            Op::Extend(xs) | Op::ExtendVia(_, xs) => format!("(extend {})", ints_sp(xs)).replace(" )", ")"),
            Op::Insert(i, x) => format!("(insert {} {})", i, x),
            Op::Remove(i) => format!("(remove {})", i),
            Op::Retain(x) => format!("(retain {})", x),
            Op::IsEmpty | Op::MIsEmpty => "(isempty)".into(),
            Op::EqTo(xs) | Op::NeTo(xs) | Op::EqVia(_, xs) => format!("(eq {})", ints_sp(xs)).replace(" )", ")"),
            Op::SwapWith(xs) => format!("(swap {})", ints_sp(xs)).replace(" )", ")"),
            Op::AddAll(d) => format!("(addall {})", d),
            Op::LastVia(_) => "(last)".into(),
            Op::FirstVia(_) => "(first)".into(),
            Op::TailVia => "(tail)".into(),
            Op::InitVia => "(init)".into(),
            Op::Collect(n) => format!("(collect {})", n),
            Op::Ins(k, v) => format!("(ins {} {})", k, v),
            Op::Ins1(k) => format!("(ins1 {})", k),
            Op::Put(k, v) => format!("(put {} {})", k, v),
            Op::Rem(k) | Op::RemPath(k) => format!("(rem {})", k),
            Op::MSetAt(i, k, v) => format!("(setat {} {} {})", i, k, v),
            Op::MGet(k) | Op::MAccess(k) => format!("(get {})", k),
            Op::Has(k) => format!("(has {})", k),
            Op::GetI(i) | Op::MIdx(i) => format!("(geti {})", i),
            Op::MExtend(es) => format!("(extend {})", es.iter().map(|(k, v)| format!("({} {})", k, v)).collect::<Vec<_>>().join(" ")).replace(" )", ")"),
            Op::MEqTo(es) | Op::MEqVia(_, es) => format!("(eq {})", es.iter().map(|(k, v)| format!("({} {})", k, v)).collect::<Vec<_>>().join(" ")).replace(" )", ")"),
            Op::Compound(n) => format!("(compound {})", n.replace(' ', "_")),
        }
    }
    /// the operation as a host-API call (KMap / KList helpers of the crate, no script), if it has one
    fn host_json(&self) -> Option<Value> {
        Some(match self {
            Op::Put(k, v) => json!(["ins", k, v]),
            Op::Rem(k) => json!(["rem", k]),
            Op::RemPath(k) => json!(["rempath", k]),
            Op::MGet(k) => json!(["get", k]),
            Op::Has(k) => json!(["has", k]),
            Op::MSize | Op::Size => json!(["size"]),
            Op::MIsEmpty | Op::IsEmpty => json!(["isempty"]),
            Op::MClear | Op::Clear => json!(["clear"]),
            Op::GetI(i) => json!(["geti", i]),
            Op::Push(x) => json!(["push", x]),
            Op::Pop => json!(["pop"]),
            Op::First => json!(["first"]),
            Op::Last => json!(["last"]),
            Op::Get(i) => json!(["geth", i]),
            Op::Snap => json!(["snap"]),
            _ => return None,
        })
    }
    /// Koto statements (inside `run = |c|`, results appended to `r`)
    fn koto(&self) -> String {
        match self {
            Op::Push(x) => format!("  c.push({})\n  r.push('u')\n", x),
            Op::Pop => "  r.push(c.pop())\n".into(),
            Op::Size | Op::MSize => "  r.push(size(c))\n".into(),
            Op::Get(i) => format!("  r.push(c.get({}))\n", i),
            Op::GetIdx(i) | Op::MIdx(i) => format!("  r.push(idx_at(c, {}))\n", i),
            Op::First => "  r.push(c.first())\n".into(),
            Op::Last => "  r.push(c.last())\n".into(),
            Op::Contains(x) => format!("  r.push(c.contains({}))\n", x),
            Op::Set(i, x) => format!("  r.push(set_at(c, {}, {}))\n", i, x),
            Op::Clear | Op::MClear => "  c.clear()\n  r.push('u')\n".into(),
            Op::Fill(x) => format!("  c.fill({})\n  r.push('u')\n", x),
            Op::Reverse => "  c.reverse()\n  r.push('u')\n".into(),
            Op::Snap => "  r.push(c.to_tuple())\n".into(),
            Op::SnapVia(f) | Op::MSnapVia(f) => match *f {
                "copy" => "  r.push(copy(c))\n".into(),
                "deep_copy" => "  r.push(koto.deep_copy(c))\n".into(),
                "display" => "  r.push('{c}')\n".into(),
                "debug" => "  r.push('{c:?}')\n".into(),
                "concat" => "  r.push(c + [])\n".into(),
                "slice" => "  r.push(c[..])\n".into(),
                "json" => "  r.push(json.to_string(c))\n".into(),
                "yaml" => "  r.push('[' + yaml.to_string(c) + ']')\n".into(),
                "toml" => "  r.push('[' + toml.to_string(c) + ']')\n".into(),
                _ => "  r.push(c.to_tuple())\n".into(),
            },
            Op::Sort | Op::MSort => "  c.sort()\n  r.push('u')\n".into(),
            Op::Resize(n, x) => format!("  c.resize({}, {})\n  r.push('u')\n", n, x),
            Op::Extend(xs) => format!("  c.extend([{}])\n  r.push('u')\n", ints_cs(xs)),
            Op::ExtendVia(f, xs) => match *f {
                "tuple" => format!("  c.extend(({},))\n  r.push('u')\n", ints_cs(xs)).replace("((,))", "(())"),
                _ => format!("  c.extend([{}].each(|x| x))\n  r.push('u')\n", ints_cs(xs)),
            },
            Op::Insert(i, x) => format!("  r.push(try_call(|| c.insert({}, {})))\n", i, x),
            Op::Remove(i) => format!("  r.push(try_val(|| c.remove({})))\n", i),
            Op::Retain(x) => format!("  c.retain({})\n  r.push('u')\n", x),
            Op::IsEmpty | Op::MIsEmpty => "  r.push(c.is_empty())\n".into(),
            Op::EqTo(xs) if xs.len() > 50 => "  r.push(c == big_ref)\n".into(),
            Op::NeTo(xs) if xs.len() > 50 => "  r.push(not (c != big_ref))\n".into(),
            Op::EqTo(xs) => format!("  r.push(c == [{}])\n", ints_cs(xs)),
            Op::NeTo(xs) => format!("  r.push(not (c != [{}]))\n", ints_cs(xs)),
            Op::SwapWith(xs) => format!("  tmp = [{}]\n  c.swap(tmp)\n  r.push(tmp)\n", ints_cs(xs)),
            Op::AddAll(d) => format!("  c.transform(|x| x + {})\n  r.push('u')\n", d),
            Op::LastVia(f) => match *f {
                "arg" => "  r.push(try_null(|| last_a(c)))\n".into(),
                _ => "  r.push(last_m(c))\n".into(),
            },
            Op::FirstVia(_) => "  r.push(first_m(c))\n".into(),
            Op::TailVia => "  r.push(tail_m(c))\n".into(),
            Op::InitVia => "  r.push(init_m(c))\n".into(),
            Op::Collect(f) => match *f {
                "for" => "  seen = []\n  for x in c\n    seen.push(x)\n  r.push(seen)\n".into(),
                "iter" => "  r.push(c.iter().to_tuple())\n".into(),
                _ => "  a, b = c\n  r.push((a, b))\n".into(),
            },
            Op::Ins(k, v) => format!("  r.push(c.insert('k{}', {}))\n", k, v),
            Op::Ins1(k) => format!("  r.push(c.insert('k{}'))\n", k),
            Op::Put(k, v) => format!("  c.k{} = {}\n  r.push('u')\n", k, v),
            Op::Rem(k) => format!("  r.push(c.remove('k{}'))\n", k),
            Op::MGet(k) => format!("  r.push(c.get('k{}'))\n", k),
            Op::MAccess(k) => format!("  r.push(try_null(|| c.k{}))\n", k),
            Op::Has(k) => format!("  r.push(c.contains_key('k{}'))\n", k),
            Op::GetI(i) => format!("  r.push(c.get_index({}))\n", i),
            Op::MExtend(es) => format!("  c.extend({})\n  r.push('u')\n", map_lit(es)),
            Op::MEqTo(es) => format!("  r.push(c == {})\n", map_lit(es)),
            Op::EqVia(f, xs) => match *f {
                "rhs" => format!("  r.push([{}] == c)\n", ints_cs(xs)),
                "tuple" => format!("  r.push((1, c) == (1, [{}]))\n", ints_cs(xs)),
                "tuple_rhs" => format!("  r.push((1, [{}]) == (1, c))\n", ints_cs(xs)),
                _ => format!("  r.push(not ([{}] != c))\n", ints_cs(xs)),
            },
            Op::MEqVia(f, es) => match *f {
                "rhs" => format!("  r.push({} == c)\n", map_lit(es)),
                "tuple" => format!("  r.push((1, c) == (1, {}))\n", map_lit(es)),
                "tuple_rhs" => format!("  r.push((1, {}) == (1, c))\n", map_lit(es)),
                "ne" => format!("  r.push(not (c != {}))\n", map_lit(es)),
                _ => format!("  r.push(not ({} != c))\n", map_lit(es)),
            },
            Op::RemPath(k) => format!("  r.push(c.remove('k{}'))\n", k),
            Op::MSetAt(i, k, v) => format!("  r.push(mset_at(c, {}, 'k{}', {}))\n", i, k, v),
            Op::Compound(n) => format!("  {}\n  r.push('u')\n", compound_src(n)),
        }
    }
}

const SCRIPT_HEAD: &str = "set_at = |c, i, x|\n  try\n    c[i] = x\n    'u'\n  catch _\n    'E'\n\nmset_at = |c, i, k, v|\n  try\n    c[i] = (k, v)\n    'u'\n  catch _\n    'E'\n\nidx_at = |c, i|\n  try\n    c[i]\n  catch _\n    null\n\ntry_call = |f|\n  try\n    f()\n    'u'\n  catch _\n    'E'\n\ntry_val = |f|\n  try\n    f()\n  catch _\n    'E'\n\ntry_null = |f|\n  try\n    f()\n  catch _\n    null\n\nlast_m = |c|\n  match c\n    (..., last) then last\n    else null\n\nlast_a = |(others..., last)| last\n\nfirst_m = |c|\n  match c\n    (first, ...) then first\n    else null\n\ntail_m = |c|\n  t = match c\n    (first, rest...) then rest\n    else []\n  if t == null then [] else t\n\ninit_m = |c|\n  t = match c\n    (others..., last) then others\n    else []\n  if t == null then [] else t\n\n";

/// a large comparison operand is built once at load time (a literal of that size exceeds the
/// compiler's register limit)
fn preamble(ops: &[Op]) -> String {
    for o in ops {
        if let Op::EqTo(xs) | Op::NeTo(xs) = o {
            if xs.len() > 50 {
                let mut s = String::from("big_ref = []\n");
                for ch in xs.chunks(60) {
                    s.push_str(&format!("big_ref.extend(({},))\n", ints_cs(ch)));
                }
                s.push('\n');
                return s;
            }
        }
    }
    String::new()
}

/// `export run = |c|` applying the operations in order and returning the list of results. Long
/// programs are cut into helper functions of at most 100 operations (the compiler limits a
/// function body to 64 KiB of bytecode and 255 registers). `delay`: iterations of an empty loop
/// before the first operation (spreads the threads' operations over a long operation's window).
fn script_of_delayed(ops: &[Op], delay: usize) -> String {
    let mut s = String::from(SCRIPT_HEAD);
    s.push_str(&preamble(ops));
    let pre = if delay > 0 { format!("  for d in 0..{}\n    null\n", delay) } else { String::new() };
    if ops.len() <= 100 {
        s.push_str("export run = |c|\n  r = []\n");
        s.push_str(&pre);
        for o in ops {
            s.push_str(&o.koto());
        }
        s.push_str("  r\n");
        return s;
    }
    let chunks: Vec<&[Op]> = ops.chunks(100).collect();
    for (i, ch) in chunks.iter().enumerate() {
        s.push_str(&format!("part{} = |c, r|\n", i));
        for o in ch.iter() {
            s.push_str(&o.koto());
        }
        s.push_str("  null\n\n");
    }
    s.push_str("export run = |c|\n  r = []\n");
    s.push_str(&pre);
    for i in 0..chunks.len() {
        s.push_str(&format!("  part{}(c, r)\n", i));
    }
    s.push_str("  r\n");
    s
}

fn script_of(ops: &[Op]) -> String {
    script_of_delayed(ops, 0)
}

#[derive(Clone, Debug, PartialEq, Eq, Hash)]
enum St {
    L(Vec<i64>),
    M(Vec<(i64, i64)>),
}

fn opt_tok(x: Option<i64>) -> String {
    match x {
        Some(v) => format!("i{}", v),
        None => "null".into(),
    }
}

fn val_tok(x: Option<i64>) -> String {
    match x {
        Some(v) if v != NULLV => format!("i{}", v),
        _ => "null".into(),
    }
}

fn ints_tok(xs: &[i64]) -> String {
    format!("({})", xs.iter().map(|x| x.to_string()).collect::<Vec<_>>().join(" "))
}

fn bool_tok(b: bool) -> String {
    if b { "b1".into() } else { "b0".into() }
}

fn m_put(m: &mut Vec<(i64, i64)>, k: i64, v: i64) -> Option<i64> {
    match m.iter_mut().find(|e| e.0 == k) {
        Some(e) => {
            let old = e.1;
            e.1 = v;
            Some(old)
        }
        None => {
            m.push((k, v));
            None
        }
    }
}

impl St {
    fn show(&self) -> String {
        match self {
            St::L(l) => ints_tok(l),
            St::M(m) => format!("({})", m.iter().map(|(k, v)| format!("({} {})", k, v)).collect::<Vec<_>>().join(" ")),
        }
    }
    fn json(&self) -> Value {
        match self {
            St::L(l) => json!(l),
            St::M(m) => json!(m.iter().map(|(k, v)| vec![*k, *v]).collect::<Vec<_>>()),
        }
    }
    fn kind(&self) -> &'static str {
        match self {
            St::L(_) => "l",
            St::M(_) => "m",
        }
    }
    /// harness-side sequential semantics (search only)
    fn apply(&mut self, op: &Op) -> String {
        match (self, op) {
            (_, Op::Compound(_)) => "u".into(),
            (St::L(l), Op::Push(x)) => {
                l.push(*x);
                "u".into()
            }
            (St::L(l), Op::Pop) => opt_tok(l.pop()),
            (St::L(l), Op::Size) => format!("i{}", l.len()),
            (St::L(l), Op::Get(i)) | (St::L(l), Op::GetIdx(i)) => opt_tok(l.get(*i).copied()),
            (St::L(l), Op::First) => opt_tok(l.first().copied()),
            (St::L(l), Op::Last) => opt_tok(l.last().copied()),
            (St::L(l), Op::Contains(x)) => bool_tok(l.contains(x)),
            (St::L(l), Op::Set(i, x)) => {
                if *i < l.len() {
                    l[*i] = *x;
                    "u".into()
                } else {
                    "E".into()
                }
            }
            (St::L(l), Op::Clear) => {
                l.clear();
                "u".into()
            }
            (St::L(l), Op::Fill(x)) => {
                for e in l.iter_mut() {
                    *e = *x;
                }
                "u".into()
            }
            (St::L(l), Op::Reverse) => {
                l.reverse();
                "u".into()
            }
            (St::L(l), Op::Snap) | (St::L(l), Op::SnapVia(_)) => ints_tok(l),
            (St::L(l), Op::Sort) => {
                l.sort();
                "u".into()
            }
            (St::L(l), Op::Resize(n, x)) => {
                l.resize(*n, *x);
                "u".into()
            }
            (St::L(l), Op::Extend(xs)) | (St::L(l), Op::ExtendVia(_, xs)) => {
                l.extend(xs.iter().copied());
                "u".into()
            }
            (St::L(l), Op::Insert(i, x)) => {
                if *i <= l.len() {
                    l.insert(*i, *x);
                    "u".into()
                } else {
                    "E".into()
                }
            }
            (St::L(l), Op::Remove(i)) => {
                if *i < l.len() {
                    format!("i{}", l.remove(*i))
                } else {
                    "E".into()
                }
            }
            (St::L(l), Op::Retain(x)) => {
                l.retain(|e| e == x);
                "u".into()
            }
            (St::L(l), Op::IsEmpty) => bool_tok(l.is_empty()),
            (St::L(l), Op::EqTo(xs)) | (St::L(l), Op::NeTo(xs)) | (St::L(l), Op::EqVia(_, xs)) => bool_tok(l == xs),
            (St::L(l), Op::SwapWith(xs)) => {
                let old = std::mem::replace(l, xs.clone());
                ints_tok(&old)
            }
            (St::L(l), Op::LastVia(_)) => opt_tok(l.last().copied()),
            (St::L(l), Op::FirstVia(_)) => opt_tok(l.first().copied()),
            (St::L(l), Op::TailVia) => ints_tok(if l.is_empty() { &[] } else { &l[1..] }),
            (St::L(l), Op::InitVia) => ints_tok(if l.is_empty() { &[] } else { &l[..l.len() - 1] }),
            (St::L(l), Op::AddAll(d)) => {
                for e in l.iter_mut() {
                    *e += *d;
                }
                "u".into()
            }
            (St::M(m), Op::Ins(k, v)) => val_tok(m_put(m, *k, *v)),
            (St::M(m), Op::Ins1(k)) => val_tok(m_put(m, *k, NULLV)),
            (St::M(m), Op::Put(k, v)) => {
                m_put(m, *k, *v);
                "u".into()
            }
            (St::M(m), Op::Rem(k)) | (St::M(m), Op::RemPath(k)) => match m.iter().position(|e| e.0 == *k) {
                Some(p) => val_tok(Some(m.remove(p).1)),
                None => "null".into(),
            },
            (St::M(m), Op::MGet(k)) => val_tok(m.iter().find(|e| e.0 == *k).map(|e| e.1)),
            (St::M(m), Op::MAccess(k)) => match m.iter().find(|e| e.0 == *k) {
                Some(e) => val_tok(Some(e.1)),
                None => "null".into(),
            },
            (St::M(m), Op::Has(k)) => bool_tok(m.iter().any(|e| e.0 == *k)),
            (St::M(m), Op::MSize) => format!("i{}", m.len()),
            (St::M(m), Op::MClear) => {
                m.clear();
                "u".into()
            }
            (St::M(m), Op::GetI(i)) | (St::M(m), Op::MIdx(i)) => match m.get(*i) {
                Some((k, v)) => format!("({} {})", k, v),
                None => "null".into(),
            },
            (St::M(m), Op::MSetAt(i, k, v)) => {
                if *i >= m.len() {
                    "E".into()
                } else {
                    match m.iter().position(|e| e.0 == *k) {
                        Some(j) if j != *i => "E".into(),
                        _ => {
                            m[*i] = (*k, *v);
                            "u".into()
                        }
                    }
                }
            }
            (St::M(m), Op::MSort) => {
                m.sort_by_key(|e| e.0);
                "u".into()
            }
            (St::M(m), Op::MExtend(es)) => {
                for (k, v) in es {
                    m_put(m, *k, *v);
                }
                "u".into()
            }
            (St::M(m), Op::MIsEmpty) => bool_tok(m.is_empty()),
            (St::M(m), Op::MSnapVia(_)) => ints_tok(&m.iter().flat_map(|e| [e.0, e.1]).collect::<Vec<_>>()),
            (St::M(m), Op::MEqTo(es)) | (St::M(m), Op::MEqVia(_, es)) => {
                if m.len() != es.len() {
                    bool_tok(false)
                } else if es.len() <= 8 {
                    bool_tok(m.iter().all(|e| es.iter().any(|f| f == e)))
                } else {
                    let h: HashMap<i64, i64> = es.iter().copied().collect();
                    bool_tok(m.iter().all(|e| h.get(&e.0) == Some(&e.1)))
                }
            }
            _ => "bad-op".into(),
        }
    }
}

/// Search an interleaving of the threads' operation sequences (program order kept) whose
/// sequential execution from `init` reproduces every observed result and the final contents.
/// `Err(())`: search budget exhausted (undecided).
fn find_linearization(init: &St, progs: &[Vec<Op>], observed: &[Vec<String>], fin: &str) -> Result<Option<Vec<usize>>, ()> {
    fn go(
        st: &St,
        pos: &mut Vec<usize>,
        progs: &[Vec<Op>],
        observed: &[Vec<String>],
        fin: &str,
        order: &mut Vec<usize>,
        dead: &mut HashSet<(Vec<usize>, St)>,
        budget: &mut u64,
        started: std::time::Instant,
    ) -> bool {
        if pos.iter().zip(progs).all(|(p, pr)| *p == pr.len()) {
            return st.show() == fin;
        }
        if *budget == 0 {
            return false;
        }
        *budget -= 1;
        if *budget % 256 == 0 && started.elapsed().as_secs_f64() > 1.0 {
            *budget = 0;
            return false;
        }
        if dead.contains(&(pos.clone(), st.clone())) {
            return false;
        }
        for t in 0..progs.len() {
            if pos[t] < progs[t].len() {
                let mut s2 = st.clone();
                let r = s2.apply(&progs[t][pos[t]]);
                if r == observed[t][pos[t]] {
                    pos[t] += 1;
                    order.push(t);
                    if go(&s2, pos, progs, observed, fin, order, dead, budget, started) {
                        return true;
                    }
                    order.pop();
                    pos[t] -= 1;
                }
            }
        }
        dead.insert((pos.clone(), st.clone()));
        false
    }
    let mut pos = vec![0; progs.len()];
    let mut order = vec![];
    let mut dead = HashSet::new();
    let big = match init {
        St::L(l) => l.len() > 100,
        St::M(m) => m.len() > 100,
    };
    let mut budget = if big { 20_000u64 } else { 300_000u64 };
    if go(init, &mut pos, progs, observed, fin, &mut order, &mut dead, &mut budget, std::time::Instant::now()) {
        Ok(Some(order))
    } else if budget == 0 {
        Err(())
    } else {
        Ok(None)
    }
}
