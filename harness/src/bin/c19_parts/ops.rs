// Container operations: rendering (Koto source, model request) and the harness-side copy of the
// sequential semantics used only to *search* for a linearization (the found order is then
// validated by the Lean model).

#[derive(Clone, Debug, PartialEq, Eq, Hash)]
enum Op {
    // list
    Push(i64),
    Pop,
    Size,
    Get(usize),
    First,
    Last,
    Contains(i64),
    Set(usize, i64),
    Clear,
    Fill(i64),
    Reverse,
    Snap,
    // map
    Ins(i64, i64),
    Rem(i64),
    MGet(i64),
    Has(i64),
    MSize,
    MClear,
    GetI(usize),
}

impl Op {
    fn sexp(&self) -> String {
        match self {
            Op::Push(x) => format!("(push {})", x),
            Op::Pop => "(pop)".into(),
            Op::Size | Op::MSize => "(size)".into(),
            Op::Get(i) => format!("(get {})", i),
            Op::First => "(first)".into(),
            Op::Last => "(last)".into(),
            Op::Contains(x) => format!("(contains {})", x),
            Op::Set(i, x) => format!("(set {} {})", i, x),
            Op::Clear | Op::MClear => "(clear)".into(),
            Op::Fill(x) => format!("(fill {})", x),
            Op::Reverse => "(reverse)".into(),
            Op::Snap => "(snap)".into(),
            Op::Ins(k, v) => format!("(ins {} {})", k, v),
            Op::Rem(k) => format!("(rem {})", k),
            Op::MGet(k) => format!("(get {})", k),
            Op::Has(k) => format!("(has {})", k),
            Op::GetI(i) => format!("(geti {})", i),
        }
    }
    /// Koto statements (inside `run = |c|`, results appended to `r`)
    fn koto(&self) -> String {
        match self {
            Op::Push(x) => format!("  c.push({})\n  r.push('u')\n", x),
            Op::Pop => "  r.push(c.pop())\n".into(),
            Op::Size | Op::MSize => "  r.push(size(c))\n".into(),
            Op::Get(i) => format!("  r.push(c.get({}))\n", i),
            Op::First => "  r.push(c.first())\n".into(),
            Op::Last => "  r.push(c.last())\n".into(),
            Op::Contains(x) => format!("  r.push(c.contains({}))\n", x),
            Op::Set(i, x) => format!("  r.push(set_at(c, {}, {}))\n", i, x),
            Op::Clear | Op::MClear => "  c.clear()\n  r.push('u')\n".into(),
            Op::Fill(x) => format!("  c.fill({})\n  r.push('u')\n", x),
            Op::Reverse => "  c.reverse()\n  r.push('u')\n".into(),
            Op::Snap => "  r.push(c.to_tuple())\n".into(),
            Op::Ins(k, v) => format!("  r.push(c.insert({}, {}))\n", k, v),
            Op::Rem(k) => format!("  r.push(c.remove({}))\n", k),
            Op::MGet(k) => format!("  r.push(c.get({}))\n", k),
            Op::Has(k) => format!("  r.push(c.contains_key({}))\n", k),
            Op::GetI(i) => format!("  r.push(c.get_index({}))\n", i),
        }
    }
}

const SCRIPT_HEAD: &str = "set_at = |c, i, x|\n  try\n    c[i] = x\n    'u'\n  catch _\n    'E'\n\n";

/// `export run = |c|` applying the operations in order and returning the list of results. Long
/// programs are cut into helper functions of at most 100 operations (the compiler limits a
/// function body to 64 KiB of bytecode and 255 registers).
fn script_of(ops: &[Op]) -> String {
    let mut s = String::from(SCRIPT_HEAD);
    if ops.len() <= 100 {
        s.push_str("export run = |c|\n  r = []\n");
        for o in ops {
            s.push_str(&o.koto());
        }
        s.push_str("  r\n");
        return s;
    }
    let chunks: Vec<&[Op]> = ops.chunks(100).collect();
    for (i, ch) in chunks.iter().enumerate() {
        s.push_str(&format!("part{} = |c, r|\n", i));
        for o in ch.iter() {
            s.push_str(&o.koto());
        }
        s.push_str("  null\n\n");
    }
    s.push_str("export run = |c|\n  r = []\n");
    for i in 0..chunks.len() {
        s.push_str(&format!("  part{}(c, r)\n", i));
    }
    s.push_str("  r\n");
    s
}

#[derive(Clone, Debug, PartialEq, Eq, Hash)]
enum St {
    L(Vec<i64>),
    M(Vec<(i64, i64)>),
}

fn opt_tok(x: Option<i64>) -> String {
    match x {
        Some(v) => format!("i{}", v),
        None => "null".into(),
    }
}

fn ints_tok(xs: &[i64]) -> String {
    format!("({})", xs.iter().map(|x| x.to_string()).collect::<Vec<_>>().join(" "))
}

impl St {
    fn show(&self) -> String {
        match self {
            St::L(l) => ints_tok(l),
            St::M(m) => format!("({})", m.iter().map(|(k, v)| format!("({} {})", k, v)).collect::<Vec<_>>().join(" ")),
        }
    }
    fn json(&self) -> Value {
        match self {
            St::L(l) => json!(l),
            St::M(m) => json!(m.iter().map(|(k, v)| vec![*k, *v]).collect::<Vec<_>>()),
        }
    }
    fn kind(&self) -> &'static str {
        match self {
            St::L(_) => "l",
            St::M(_) => "m",
        }
    }
    /// harness-side sequential semantics (search only)
    fn apply(&mut self, op: &Op) -> String {
        match (self, op) {
            (St::L(l), Op::Push(x)) => {
                l.push(*x);
                "u".into()
            }
            (St::L(l), Op::Pop) => opt_tok(l.pop()),
            (St::L(l), Op::Size) => format!("i{}", l.len()),
            (St::L(l), Op::Get(i)) => opt_tok(l.get(*i).copied()),
            (St::L(l), Op::First) => opt_tok(l.first().copied()),
            (St::L(l), Op::Last) => opt_tok(l.last().copied()),
            (St::L(l), Op::Contains(x)) => if l.contains(x) { "b1".into() } else { "b0".into() },
            (St::L(l), Op::Set(i, x)) => {
                if *i < l.len() {
                    l[*i] = *x;
                    "u".into()
                } else {
                    "E".into()
                }
            }
            (St::L(l), Op::Clear) => {
                l.clear();
                "u".into()
            }
            (St::L(l), Op::Fill(x)) => {
                for e in l.iter_mut() {
                    *e = *x;
                }
                "u".into()
            }
            (St::L(l), Op::Reverse) => {
                l.reverse();
                "u".into()
            }
            (St::L(l), Op::Snap) => ints_tok(l),
            (St::M(m), Op::Ins(k, v)) => match m.iter_mut().find(|e| e.0 == *k) {
                Some(e) => {
                    let old = e.1;
                    e.1 = *v;
                    format!("i{}", old)
                }
                None => {
                    m.push((*k, *v));
                    "null".into()
                }
            },
            (St::M(m), Op::Rem(k)) => match m.iter().position(|e| e.0 == *k) {
                Some(p) => format!("i{}", m.remove(p).1),
                None => "null".into(),
            },
            (St::M(m), Op::MGet(k)) => opt_tok(m.iter().find(|e| e.0 == *k).map(|e| e.1)),
            (St::M(m), Op::Has(k)) => if m.iter().any(|e| e.0 == *k) { "b1".into() } else { "b0".into() },
            (St::M(m), Op::MSize) => format!("i{}", m.len()),
            (St::M(m), Op::MClear) => {
                m.clear();
                "u".into()
            }
            (St::M(m), Op::GetI(i)) => match m.get(*i) {
                Some((k, v)) => format!("({} {})", k, v),
                None => "null".into(),
            },
            _ => "bad-op".into(),
        }
    }
}

/// Search an interleaving of the threads' operation sequences (program order kept) whose
/// sequential execution from `init` reproduces every observed result and the final contents.
/// `Err(())`: search budget exhausted (undecided).
fn find_linearization(init: &St, progs: &[Vec<Op>], observed: &[Vec<String>], fin: &str) -> Result<Option<Vec<usize>>, ()> {
    fn go(
        st: &St,
        pos: &mut Vec<usize>,
        progs: &[Vec<Op>],
        observed: &[Vec<String>],
        fin: &str,
        order: &mut Vec<usize>,
        dead: &mut HashSet<(Vec<usize>, St)>,
        budget: &mut u64,
    ) -> bool {
        if pos.iter().zip(progs).all(|(p, pr)| *p == pr.len()) {
            return st.show() == fin;
        }
        if *budget == 0 {
            return false;
        }
        *budget -= 1;
        if dead.contains(&(pos.clone(), st.clone())) {
            return false;
        }
        for t in 0..progs.len() {
            if pos[t] < progs[t].len() {
                let mut s2 = st.clone();
                let r = s2.apply(&progs[t][pos[t]]);
                if r == observed[t][pos[t]] {
                    pos[t] += 1;
                    order.push(t);
                    if go(&s2, pos, progs, observed, fin, order, dead, budget) {
                        return true;
                    }
                    order.pop();
                    pos[t] -= 1;
                }
            }
        }
        dead.insert((pos.clone(), st.clone()));
        false
    }
    let mut pos = vec![0; progs.len()];
    let mut order = vec![];
    let mut dead = HashSet::new();
    let mut budget = 2_000_000u64;
    if go(init, &mut pos, progs, observed, fin, &mut order, &mut dead, &mut budget) {
        Ok(Some(order))
    } else if budget == 0 {
        Err(())
    } else {
        Ok(None)
    }
}
