// Host objects defined with the derive macros (non-generic and GENERIC types; methods, getters,
// setters with names / aliases, overrides) — the code #[koto_impl] generates differs between the
// rc and the arc build (per-type tables behind thread_local / LazyLock<KCell>), so programs that
// call methods and read / ASSIGN fields are part of the rc-vs-arc program differential.
mod host_objects {
#[allow(unused_imports)]
use koto::runtime::Result;
use koto::derive::*;
use koto::prelude::*;

#[derive(Clone, KotoCopy, KotoType)]
struct Plain {
    x: i64,
    label: KValue,
}

#[koto_impl]
impl Plain {
    #[koto_method]
    fn double(&self) -> i64 {
        self.x * 2
    }
    #[koto_method]
    fn bump(&mut self, n: i64) -> &mut Self {
        self.x += n;
        self
    }
    #[koto_get]
    fn x(&self) -> KValue {
        self.x.into()
    }
    #[koto_set]
    fn set_x(&mut self, v: &KValue) {
        if let KValue::Number(n) = v {
            self.x = i64::from(n);
        }
    }
    #[koto_get(name = "label", alias = "tag")]
    fn label_get(&self) -> KValue {
        self.label.clone()
    }
    #[koto_set(name = "label", alias = "tag")]
    fn label_set(&mut self, v: &KValue) {
        self.label = v.clone();
    }
}

impl KotoObject for Plain {
    fn display(&self, ctx: &mut DisplayContext) -> Result<()> {
        ctx.append(format!("Plain({})", self.x));
        Ok(())
    }
}

#[derive(Clone, KotoCopy, KotoType)]
struct Generic<T>
where
    T: KotoField,
    KValue: From<T>,
{
    value: T,
    assigned: KValue,
    count: i64,
}

#[koto_impl]
impl<T> Generic<T>
where
    T: KotoField,
    KValue: From<T>,
{
    #[koto_method]
    fn get(&self) -> KValue {
        self.value.clone().into()
    }
    #[koto_method]
    fn assignments(&self) -> i64 {
        self.count
    }
    #[koto_get]
    fn value(&self) -> KValue {
        self.value.clone().into()
    }
    #[koto_set]
    fn set_value(&mut self, v: &KValue) {
        self.assigned = v.clone();
        self.count += 1;
    }
    #[koto_get]
    fn assigned(&self) -> KValue {
        self.assigned.clone()
    }
    #[koto_set(name = "other", alias = "alt")]
    fn set_other(&mut self, v: &KValue) {
        self.assigned = v.clone();
        self.count += 100;
    }
}

impl<T> KotoObject for Generic<T>
where
    T: KotoField,
    KValue: From<T>,
{
}

pub fn add_host_objects(prelude: &KMap) {
    prelude.add_fn("make_plain", |ctx| match ctx.args() {
        [KValue::Number(n)] => Ok(KObject::from(Plain { x: i64::from(n), label: KValue::Null }).into()),
        unexpected => unexpected_args("|Number|", unexpected),
    });
    prelude.add_fn("make_generic", |ctx| match ctx.args() {
        [KValue::Number(n)] => Ok(KObject::from(Generic::<KNumber> { value: *n, assigned: KValue::Null, count: 0 }).into()),
        [KValue::Str(s)] => Ok(KObject::from(Generic::<KString> { value: s.clone(), assigned: KValue::Null, count: 0 }).into()),
        [KValue::Bool(b)] => Ok(KObject::from(Generic::<bool> { value: *b, assigned: KValue::Null, count: 0 }).into()),
        unexpected => unexpected_args("|Number|, |String| or |Bool|", unexpected),
    });
}

}
use host_objects::add_host_objects;

/// programs for the rc-vs-arc differential: first and repeated use per concrete type
fn object_programs() -> Vec<(String, String)> {
    let mut out = vec![];
    out.push(("plain".to_string(), "o = make_plain(3)\nprint(o.x, o.double())\no.x = 10\no.x = 11\no.label = 'a'\no.tag = 'b'\nprint(o.x, o.label, o.tag, '{o}')\no.bump(5).bump(1)\np = copy(o)\np.x = 1\nprint(o.x, p.x, type(o))\n(o.x, p.x)\n".to_string()));
    for (name, lit, lit2) in [("number", "5", "7"), ("string", "'s'", "'z'"), ("bool", "true", "false")] {
        out.push((
            format!("generic-{}", name),
            format!("g = make_generic({lit})\nprint(g.value, g.get())\ng.value = {lit2}\ng.value = {lit}\nprint(g.assigned, g.assignments())\ng.other = 1\ng.alt = 2\nh = make_generic({lit2})\nh.value = {lit}\nprint(h.assigned, h.assignments(), g.assignments())\ntry\n  g.missing = 1\ncatch e\n  print('no field')\n(g.assigned, g.assignments(), h.assignments())\n"),
        ));
    }
    out.push(("generic-all".to_string(), "objs = (make_generic(1), make_generic('a'), make_generic(true), make_plain(2))\nfor i, o in objs.enumerate()\n  if i < 3\n    o.value = i\n    o.other = i\n    print(o.assigned, o.assignments())\n  else\n    o.x = i\n    print(o.x)\n3\n".to_string()));
    out
}
