// main driver of the check

struct Cx {
    rep: Report,
    drv: Option<Driver>,
    rc: Child,
    arc: Child,
    rng: Rng,
    thorough: bool,
    open: Vec<String>,
    d_fail: u64,
    k_fail: u64,
    deadlocks: u64,
}

const T_PROG: Duration = Duration::from_secs(12);
/// deadlock watchdog for one stress request (normal duration: 0.05–1 s; generous because other
/// builds share the machine)
const WATCHDOG: Duration = Duration::from_secs(45);

impl Cx {
    /// send the same requests to both runners (in parallel), answers in order
    fn both(&mut self, reqs: &[String], timeout: Duration) -> (Vec<String>, Vec<String>) {
        let (rc, arc) = (&mut self.rc, &mut self.arc);
        std::thread::scope(|sc| {
            let h1 = sc.spawn(move || reqs.iter().map(|r| rc.ask(r, timeout)).collect::<Vec<_>>());
            let h2 = sc.spawn(move || reqs.iter().map(|r| arc.ask(r, timeout)).collect::<Vec<_>>());
            (h1.join().unwrap(), h2.join().unwrap())
        })
    }

    fn model(&mut self, reqs: &[String]) -> Option<Vec<String>> {
        self.drv.as_mut().map(|d| d.batch(reqs))
    }

    // ---------------------------------------------------------------------------------------------
    // (K1a) whole programs, rc runner vs arc runner
    fn programs(&mut self, items: &[(String, String, Option<String>)]) {
        // items: (origin, source, script path)
        let reqs: Vec<String> = items
            .iter()
            .map(|(_, src, path)| match path {
                Some(p) => format!("prog {} {}", kvh::hex(src.as_bytes()), kvh::hex(p.as_bytes())),
                None => format!("prog {}", kvh::hex(src.as_bytes())),
            })
            .collect();
        let (a, b) = self.both(&reqs, T_PROG);
        for (i, (origin, src, path)) in items.iter().enumerate() {
            let nontrivial = src.lines().filter(|l| !l.trim().is_empty() && !l.trim_start().starts_with('#')).count() >= 3;
            self.rep.case(&reqs[i], nontrivial);
            self.rep.bump(&format!("prog_origin={}", origin.split(':').next().unwrap_or("?")));
            let class = |s: &str| s.rsplit(" | ").next().unwrap_or("?").split(' ').next().unwrap_or("?").to_string();
            self.rep.bump(&format!("prog_outcome_rc={}", if a[i] == "TIMEOUT" || a[i].starts_with("DIED") { a[i].split(' ').next().unwrap().to_string() } else { class(&a[i]) }));
            if a[i].contains("| timeout ") || b[i].contains("| timeout ") {
                // Koto's own execution limit fired: wall-clock dependent, not comparable
                self.rep.bump("prog_skipped_execution_limit");
                continue;
            }
            if a[i] == b[i] {
                if self.rep.samples.len() < 3 && origin.starts_with("gen") && src.len() > 200 && i % 7 == 3 {
                    self.rep.sample(json!({"kind": "program differential", "origin": origin, "program": src, "rc": a[i], "arc": b[i]}));
                }
                continue;
            }
            // differ: is each side stable across fresh processes? (compiler capture order is
            // HashSet-ordered, F-C05-2: a per-process effect, not a memory-strategy effect)
            self.rc.restart();
            self.arc.restart();
            let (a2, b2) = self.both(&[reqs[i].clone()], T_PROG);
            self.rc.restart();
            self.arc.restart();
            let (a3, b3) = self.both(&[reqs[i].clone()], T_PROG);
            let rc_stable = a2[0] == a[i] && a3[0] == a[i];
            let arc_stable = b2[0] == b[i] && b3[0] == b[i];
            if !(rc_stable && arc_stable) {
                self.rep.bump("prog_unstable_across_processes");
                self.rep.note(format!("program from {} gives different answers in different processes of the SAME build (not attributable to rc/arc): {:?} rc={:?} arc={:?}", origin, src, [&a[i], &a2[0], &a3[0]], [&b[i], &b2[0], &b3[0]]));
                continue;
            }
            self.d_fail += 1;
            if self.d_fail <= 6 {
                self.rep.violation(
                    "D",
                    "C19:rc-arc-differ",
                    json!({"kind": "prog", "origin": origin, "program": src, "script_path": path, "rc": a[i], "arc": b[i],
                           "note": "the same program gives different (result, stdout, error) under the rc and the arc build; answers are stable across fresh processes of each build"}),
                );
            }
        }
    }

    // ---------------------------------------------------------------------------------------------
    // (K1b) lock protocol vs real PtrMut
    fn gen_cell_script(&mut self) -> Vec<&'static str> {
        // generator-side bookkeeping only decides which drops/accesses make sense
        let (mut r, mut w) = (0usize, false);
        let n = 1 + self.rng.below(14);
        let mut s = vec![];
        for _ in 0..n {
            let k = self.rng.weighted(&[5, 4, 5, 4, 5, 3, 4, 3]);
            let t = match k {
                0 => "b",
                1 => "bm",
                2 => "tb",
                3 => "tbm",
                4 => "dr",
                5 => "dw",
                6 => "r",
                _ => "w",
            };
            match t {
                "b" | "tb" => {
                    if !w {
                        r += 1;
                    }
                }
                "bm" | "tbm" => {
                    if !w && r == 0 {
                        w = true;
                    }
                }
                "dr" => {
                    if r == 0 {
                        continue;
                    }
                    r -= 1;
                }
                "dw" => {
                    if !w {
                        continue;
                    }
                    w = false;
                }
                "r" => {
                    if r == 0 && !w {
                        continue;
                    }
                }
                "w" => {
                    if !w {
                        continue;
                    }
                }
                _ => {}
            }
            s.push(t);
        }
        s
    }

    fn cells(&mut self, scripts: &[Vec<String>]) {
        // 1. the model decides, per mode, where the first conflicting blocking request is
        let mut mreqs = vec![];
        for s in scripts {
            let toks: Vec<String> = s.iter().map(|t| if t == "w" { "w3".to_string() } else { t.clone() }).collect();
            mreqs.push(format!("lock rc 0 0 {}", toks.join(" ")));
            mreqs.push(format!("lock arc 0 0 {}", toks.join(" ")));
        }
        let Some(m) = self.model(&mreqs) else { return };
        // 2. real cells: blocking calls marked `!` where the model predicts a conflict
        let mut rc_reqs = vec![];
        let mut arc_reqs = vec![];
        for (i, s) in scripts.iter().enumerate() {
            for (mode, out) in [("rc", &mut rc_reqs), ("arc", &mut arc_reqs)] {
                let ans = &m[2 * i + if mode == "rc" { 0 } else { 1 }];
                let n_out = ans.split(" | ").next().unwrap_or("").split(' ').filter(|x| !x.is_empty()).count();
                let stopped = ans.contains("panic") || ans.contains("block");
                let mut toks = vec![];
                for (j, t) in s.iter().enumerate() {
                    if j >= n_out {
                        break;
                    }
                    let t = if t == "w" { "w3".to_string() } else { t.clone() };
                    if stopped && j == n_out - 1 {
                        toks.push(format!("{}!", t));
                    } else {
                        toks.push(t);
                    }
                }
                out.push(format!("cell {}", toks.join(" ")));
            }
        }
        let (rc, arc) = (&mut self.rc, &mut self.arc);
        let (ra, rb) = std::thread::scope(|sc| {
            let h1 = sc.spawn(|| rc_reqs.iter().map(|r| rc.ask(r, Duration::from_secs(10))).collect::<Vec<_>>());
            let h2 = sc.spawn(|| arc_reqs.iter().map(|r| arc.ask(r, Duration::from_secs(10))).collect::<Vec<_>>());
            (h1.join().unwrap(), h2.join().unwrap())
        });
        for (i, s) in scripts.iter().enumerate() {
            for (mode, real) in [("rc", &ra[i]), ("arc", &rb[i])] {
                let ans = &m[2 * i + if mode == "rc" { 0 } else { 1 }];
                self.rep.case(&format!("{} {}", mode, s.join(" ")), s.len() >= 3);
                // model: `<outcomes> | readers writer`; real: `<outcomes> | held_r held_w after_w after_all`
                let (mo, mst) = ans.split_once(" | ").unwrap_or((ans, ""));
                let (ro, rst) = real.split_once(" | ").unwrap_or((real, ""));
                let mo_n = mo.to_string();
                let ro_n = ro.to_string();
                let mst_v: Vec<&str> = mst.split(' ').collect();
                let rst_v: Vec<&str> = rst.split(' ').collect();
                let state_ok = rst_v.len() == 4
                    && mst_v.len() == 2
                    && rst_v[0] == mst_v[0]
                    && rst_v[1] == mst_v[1]
                    && rst_v[2] == (if mst_v[0] == "0" { "free" } else { "shared" })
                    && rst_v[3] == "free";
                if ans.contains("panic") {
                    self.rep.bump("cell_outcome=rc_panic");
                } else if ans.contains("block") {
                    self.rep.bump("cell_outcome=arc_block");
                } else if ans.contains("none") {
                    self.rep.bump("cell_outcome=try_none");
                } else {
                    self.rep.bump("cell_outcome=all_ok");
                }
                let vals_ok = true;
                if mo_n != ro_n || !state_ok || !vals_ok {
                    self.k_fail += 1;
                    if self.k_fail <= 5 {
                        self.rep.violation(
                            "K",
                            "K:C19:Model.Cell.lockStep",
                            json!({"kind": "cell", "build": mode, "script": s, "model": ans, "impl": real,
                                   "note": "the lock protocol model and the real koto_memory::PtrMut disagree; rc_arc_equiv / linearizable no longer speak about this code"}),
                        );
                    }
                }
                if self.rep.samples.len() < 5 && ans.contains(if mode == "rc" { "panic" } else { "block" }) && i % 5 == 1 {
                    self.rep.sample(json!({"kind": "lock protocol", "build": mode, "script": s, "model": ans, "impl": real}));
                }
            }
        }
    }

    // ---------------------------------------------------------------------------------------------
    // (K1c) sequential container semantics: model bracket scripts vs real list/map in both builds
    fn seq_ops(&mut self, cases: &[(St, Vec<Op>)]) {
        let mreqs: Vec<String> =
            cases.iter().map(|(st, ops)| format!("seq {} {} {}", st.kind(), st.show(), ops.iter().map(|o| o.sexp()).collect::<Vec<_>>().join(" "))).collect();
        let Some(m) = self.model(&mreqs) else { return };
        let reqs: Vec<String> = cases
            .iter()
            .map(|(st, ops)| {
                let spec = json!({"kind": st.kind(), "init": st.json(), "script": script_of(ops)});
                format!("ops {}", kvh::hex(spec.to_string().as_bytes()))
            })
            .collect();
        let (a, b) = self.both(&reqs, Duration::from_secs(10));
        for (i, (st, ops)) in cases.iter().enumerate() {
            self.rep.case(&mreqs[i], ops.len() >= 3);
            for o in ops {
                self.rep.bump(&format!("seq_op={}", o.sexp().trim_start_matches('(').split([' ', ')']).next().unwrap_or("?")));
            }
            // harness-side copy of the semantics (used by the linearization search) must agree too
            let mut s2 = st.clone();
            let mine = format!("{} | {}", ops.iter().map(|o| s2.apply(o)).collect::<Vec<_>>().join(" "), s2.show());
            if a[i] != m[i] || b[i] != m[i] || mine != m[i] {
                self.k_fail += 1;
                if self.k_fail <= 5 {
                    self.rep.violation(
                        "K",
                        "K:C19:Model.Cell.LOp.sem/MOp.sem",
                        json!({"kind": "ops", "request": mreqs[i], "model": m[i], "rc": a[i], "arc": b[i], "harness_copy": mine,
                               "script": script_of(ops),
                               "note": "sequential semantics of the container operations: model vs real runtime (both builds)"}),
                    );
                }
            } else if self.rep.samples.len() < 6 && ops.len() >= 5 && i % 11 == 2 {
                self.rep.sample(json!({"kind": "sequential container ops", "request": mreqs[i], "model": m[i], "rc": a[i], "arc": b[i]}));
            }
        }
    }

    // ---------------------------------------------------------------------------------------------
    // (K2) stress on the arc runner
    fn stress_small(&mut self, s: &Stress) {
        let big = match &s.init {
            St::L(l) => l.len() > 100,
            St::M(m) => m.len() > 100,
        };
        let req = stress_request(s, true, if big { 30 } else { 150 });
        let ans = match self.arc.request(&req, WATCHDOG) {
            Reply::Ok(a) => a,
            Reply::Timeout => {
                self.d_fail += 1;
                self.deadlocks += 1;
                self.rep.violation("D", "C19:deadlock", json!({"kind": "stress", "mode": s.kind, "init": s.init.show().chars().take(300).collect::<String>(),
                    "programs": s.progs.iter().map(|p| p.iter().map(|o| o.sexp().chars().take(200).collect::<String>()).collect::<Vec<_>>()).collect::<Vec<_>>(),
                    "koto_statements": s.progs.iter().map(|p| p.iter().map(|o| o.koto().chars().take(200).collect::<String>()).collect::<Vec<_>>()).collect::<Vec<_>>(),
                    "note": "DEADLOCK: threads running single-container operations on one shared container made no progress for 45 s (a run of this size takes well under a second); thread 0 runs the operation under test, the others the mutators"}));
                return;
            }
            Reply::Died(st) => {
                self.d_fail += 1;
                self.rep.violation("D", "C19:runner-died", json!({"kind": "stress", "mode": s.kind, "status": st, "init": s.init.show(),
                    "programs": s.progs.iter().map(|p| p.iter().map(|o| o.sexp()).collect::<Vec<_>>()).collect::<Vec<_>>()}));
                return;
            }
        };
        let v: Value = serde_json::from_str(&ans).unwrap_or(json!({"error": ans}));
        let outcomes = v["outcomes"].as_array().cloned().unwrap_or_default();
        if outcomes.is_empty() {
            self.k_fail += 1;
            self.rep.violation("K", "K:C19:stress-runner", json!({"kind": "stress", "answer": ans.chars().take(2000).collect::<String>()}));
            return;
        }
        let distinct = v["distinct"].as_u64().unwrap_or(0);
        self.rep.bump(&format!("small_threads={}", s.progs.len()));
        self.rep.bump_by("small_rounds", s.rounds as u64);
        self.rep.bump(&format!("small_distinct_outcomes={}", match distinct { 1 => "1".to_string(), 2..=3 => "2-3".to_string(), 4..=9 => "4-9".to_string(), _ => "10+".to_string() }));
        let mut lin_reqs = vec![];
        let mut expects = vec![];
        for o in &outcomes {
            let threads: Vec<Vec<String>> = o["threads"].as_array().unwrap().iter().map(|t| split_tokens(t.as_str().unwrap_or(""))).collect();
            let fin = o["final"].as_str().unwrap_or("").to_string();
            let key = format!("{} {} {:?} -> {:?} {}", s.kind, s.init.show(), s.progs, threads, fin);
            self.rep.case(&key, s.progs.iter().map(|p| p.len()).sum::<usize>() >= 3);
            let bad = threads.iter().flatten().any(|t| !ok_token(t)) || threads.iter().zip(&s.progs).any(|(r, p)| r.len() != p.len());
            let clip = |x: &str| -> String { if x.len() > 600 { format!("{} …[{} chars]", x.chars().take(600).collect::<String>(), x.len()) } else { x.to_string() } };
            let hist = json!({"kind": "stress", "mode": s.kind, "init": clip(&s.init.show()),
                "programs": s.progs.iter().map(|p| p.iter().map(|o| clip(&o.sexp())).collect::<Vec<_>>()).collect::<Vec<_>>(),
                "observed": threads.iter().map(|t| t.iter().map(|x| clip(x)).collect::<Vec<_>>()).collect::<Vec<_>>(),
                "final": clip(&fin), "final_len": split_tokens(fin.trim_start_matches('(').trim_end_matches(')')).len(),
                "rounds_with_this_outcome": o["n"]});
            if bad {
                self.d_fail += 1;
                if self.d_fail <= 6 {
                    self.rep.violation("D", "C19:atomicity:operation-failed", hist);
                }
                continue;
            }
            match find_linearization(&s.init, &s.progs, &threads, &fin) {
                Err(()) => self.rep.bump("small_linearization_search_budget_exhausted"),
                Ok(None) => {
                    self.d_fail += 1;
                    if self.d_fail <= 6 {
                        let mut h = hist;
                        h["note"] = json!("no sequential order of the whole operations (respecting each thread's program order) explains the observed results and final contents: the operations were not atomic");
                        self.rep.violation("D", "C19:atomicity:not-linearizable", h);
                    }
                }
                Ok(Some(order)) => {
                    // hand the witness order to the Lean model: seqAll / resOf must reproduce it
                    let mut pos = vec![0usize; s.progs.len()];
                    let mut items = vec![];
                    for t in &order {
                        items.push(format!("({} {})", t, s.progs[*t][pos[*t]].sexp()));
                        pos[*t] += 1;
                    }
                    lin_reqs.push(format!("lin {} {} {}", s.init.kind(), s.init.show(), items.join(" ")));
                    let per: Vec<String> = threads.iter().enumerate().map(|(t, r)| format!("{}:{}", t, r.join(" "))).collect();
                    expects.push((format!("{} | {}", per.join(";"), fin), hist, order));
                }
            }
        }
        if let Some(m) = self.model(&lin_reqs) {
            for (i, (exp, hist, order)) in expects.into_iter().enumerate() {
                if m[i] != exp {
                    self.k_fail += 1;
                    if self.k_fail <= 5 {
                        let mut h = hist;
                        h["linearization"] = json!(order);
                        h["model"] = json!(m[i]);
                        h["expected"] = json!(exp);
                        self.rep.violation("K", "K:C19:Model.Cell.seqAll", h);
                    }
                } else if self.rep.samples.len() < 8 && distinct >= 3 && i == 1 {
                    let mut h = hist;
                    h["linearization_found"] = json!(order);
                    h["model_seqAll"] = json!(m[i]);
                    h["distinct_outcomes_of_this_spec"] = json!(distinct);
                    self.rep.sample(h);
                }
            }
        }
    }

    /// compound forms (several guards / callbacks / iteration): watchdog and host panics only
    fn stress_compound(&mut self, s: &Stress, form: &str) {
        let req = stress_request(s, true, 30);
        self.rep.case(&format!("compound {} {}", form, kvh::fnv1a(req.as_bytes())), true);
        self.rep.bump(&format!("pair_compound_form={}", form));
        match self.arc.request(&req, WATCHDOG) {
            Reply::Timeout => {
                self.d_fail += 1;
                self.deadlocks += 1;
                self.rep.violation("D", "C19:deadlock", json!({"kind": "stress", "mode": s.kind, "form": form,
                    "koto_statements": s.progs.iter().map(|p| p.iter().map(|o| o.koto()).collect::<Vec<_>>()).collect::<Vec<_>>(),
                    "note": "DEADLOCK: no progress for 45 s"}));
            }
            Reply::Died(st) => {
                self.d_fail += 1;
                self.rep.violation("D", "C19:runner-died", json!({"kind": "stress", "form": form, "status": st}));
            }
            Reply::Ok(ans) => {
                let v: Value = serde_json::from_str(&ans).unwrap_or(json!({}));
                for o in v["outcomes"].as_array().cloned().unwrap_or_default() {
                    for t in o["threads"].as_array().cloned().unwrap_or_default() {
                        let t = t.as_str().unwrap_or("").to_string();
                        if t.starts_with("PANIC:") {
                            self.d_fail += 1;
                            if self.d_fail <= 8 {
                                self.rep.violation("D", &format!("C19:host-panic:{}", form), json!({"kind": "stress", "form": form, "panic": t,
                                    "koto_statements": s.progs.iter().map(|p| p.iter().map(|o| o.koto()).collect::<Vec<_>>()).collect::<Vec<_>>(),
                                    "note": "a compound operation need not be atomic, but a race must not panic the host"}));
                            }
                            return;
                        } else if t.starts_with("RUN-ERROR:") {
                            self.rep.bump("pair_compound_script_error");
                        }
                    }
                }
            }
        }
    }

    /// every form of the coverage table, concurrently with the mutators
    fn stress_pairs(&mut self) {
        let t0 = std::time::Instant::now();
        let (exact, compound) = all_forms();
        let budget = if self.thorough { 420.0 } else { 40.0 };
        let passes = if self.thorough { 8 } else { 2 };
        let mut done = 0u64;
        'outer: for pass in 0..passes {
            for (fi, tag) in exact.iter().enumerate() {
                if (*tag == "m.eq" && MAP_EQ_EXCLUDED.load(std::sync::atomic::Ordering::Relaxed))
                    || (*tag == "l.retain.value" && RETAIN_VALUE_EXCLUDED.load(std::sync::atomic::Ordering::Relaxed))
                {
                    continue;
                }
                for big in [true, false] {
                    if self.deadlocks > 0 {
                        self.rep.note("pair stress stopped after the first deadlock (each one costs a 45 s watchdog)");
                        break 'outer;
                    }
                    if t0.elapsed().as_secs_f64() > budget {
                        self.rep.note(format!("pair stress: wall-clock budget reached after {} histories (pass {})", done, pass));
                        break 'outer;
                    }
                    let mut r = self.rng.fork();
                    let n_threads = [2usize, 3, 4, 8][(fi + pass + big as usize) % if self.thorough { 4 } else { 3 }];
                    let rounds = match (self.thorough, big) {
                        (true, true) => 300,
                        (true, false) => 800,
                        (false, true) => 200,
                        (false, false) => 400,
                    };
                    let s = gen_pair(&mut r, tag, big, n_threads, rounds);
                    self.rep.bump(&format!("pair_form={}", tag));
                    self.stress_small(&s);
                    done += 1;
                }
            }
            for tag in compound.iter() {
                if self.deadlocks > 0 || t0.elapsed().as_secs_f64() > budget {
                    break 'outer;
                }
                let mut r = self.rng.fork();
                let s = gen_pair(&mut r, tag, pass % 2 == 0, 3, if self.thorough { 300 } else { 120 });
                self.stress_compound(&s, tag);
                done += 1;
            }
        }
        self.rep.extra.insert("pair_stress".into(), json!({"histories": done, "exact_forms": exact.len(), "compound_forms": compound.len(), "wall_s": t0.elapsed().as_secs_f64()}));
    }

    fn stress_big(&mut self, s: &Stress, check: fn(&Stress, &[Vec<String>], &str) -> Result<Value, String>) {
        let req = stress_request(s, false, 4);
        let ops_total: usize = s.progs.iter().map(|p| p.len()).sum();
        let hist_small = |s: &Stress| json!({"kind": "stress", "mode": s.kind, "init": s.init.show(), "threads": s.progs.len(),
            "programs": s.progs.iter().map(|p| p.iter().map(|o| o.sexp()).collect::<Vec<_>>().join(" ")).collect::<Vec<_>>()});
        let ans = match self.arc.request(&req, Duration::from_secs(90)) {
            Reply::Ok(a) => a,
            Reply::Timeout => {
                self.d_fail += 1;
                let mut h = hist_small(s);
                h["note"] = json!("watchdog: threads running single-bracket operations on one shared container did not finish within 90 s");
                self.rep.violation("D", "C19:deadlock", h);
                return;
            }
            Reply::Died(st) => {
                self.d_fail += 1;
                let mut h = hist_small(s);
                h["status"] = json!(st);
                self.rep.violation("D", "C19:runner-died", h);
                return;
            }
        };
        let v: Value = serde_json::from_str(&ans).unwrap_or(json!({"error": ans.chars().take(500).collect::<String>()}));
        let outcomes = v["outcomes"].as_array().cloned().unwrap_or_default();
        if outcomes.is_empty() {
            self.k_fail += 1;
            self.rep.violation("K", "K:C19:stress-runner", json!({"kind": "stress", "answer": ans.chars().take(2000).collect::<String>()}));
            return;
        }
        for o in &outcomes {
            let threads: Vec<Vec<String>> = o["threads"].as_array().unwrap().iter().map(|t| split_tokens(t.as_str().unwrap_or(""))).collect();
            let fin = o["final"].as_str().unwrap_or("").to_string();
            let key = format!("{} n={} seed-derived ops={}", s.kind, s.progs.len(), kvh::fnv1a(req.as_bytes()));
            self.rep.case(&key, ops_total >= 16);
            self.rep.bump(&format!("big_{}_threads={}", s.kind, s.progs.len()));
            self.rep.bump_by("big_operations", ops_total as u64);
            let failed_tok = threads.iter().flatten().find(|t| !ok_token(t)).cloned();
            let res = match failed_tok {
                Some(t) => Err(format!("an operation failed in the host: {}", t)),
                None => check(s, &threads, &fin),
            };
            match res {
                Ok(stats) => {
                    if self.rep.samples.len() < 12 && s.progs.len() >= 4 {
                        self.rep.sample(json!({"kind": "stress (counting invariants)", "mode": s.kind, "threads": s.progs.len(), "ops_per_thread": s.progs[0].len(),
                            "thread0_first_ops": s.progs[0].iter().take(8).map(|o| o.sexp()).collect::<Vec<_>>(),
                            "thread0_first_results": threads[0].iter().take(8).collect::<Vec<_>>(), "stats": stats}));
                    }
                    if let Some(obj) = stats.as_object() {
                        for (k, v) in obj {
                            if let Some(n) = v.as_u64() {
                                self.rep.bump_by(&format!("big_{}_{}", s.kind, k), n);
                            }
                        }
                    }
                }
                Err(why) => {
                    self.d_fail += 1;
                    if self.d_fail <= 6 {
                        let mut h = hist_small(s);
                        h["violated"] = json!(why);
                        h["final"] = json!(fin.chars().take(4000).collect::<String>());
                        h["observed"] = json!(threads.iter().map(|t| t.join(" ")).collect::<Vec<_>>());
                        self.rep.violation("D", &format!("C19:atomicity:{}", s.kind), h);
                    }
                }
            }
        }
    }
}

fn load_corpus(dir: &std::path::Path, ext: &str) -> Vec<(String, String)> {
    let mut out = vec![];
    if let Ok(rd) = std::fs::read_dir(dir) {
        let mut ps: Vec<_> = rd.filter_map(|e| e.ok()).map(|e| e.path()).collect();
        ps.sort();
        for p in ps {
            if p.extension().is_some_and(|e| e == ext) {
                if let Ok(s) = std::fs::read_to_string(&p) {
                    out.push((p.file_name().unwrap().to_string_lossy().to_string(), s));
                }
            }
        }
    }
    out
}

fn main() {
    if std::env::args().any(|a| a == "--runner") {
        runner_main();
        return;
    }
    kvh::quiet_panics();
    let args = Args::parse();
    if args.has_flag("--dump-gen") {
        // debugging aid: print generated programs with the rc answer
        let mut rng = Rng::new(args.seed);
        for i in 0..200 {
            let g = Gen::new(rng.fork());
            let n = 4 + rng.below(14);
            let (src, _) = g.program(n);
            let ans = run_prog(&src, None);
            let class = ans.rsplit(" | ").next().unwrap_or("").to_string();
            let mut it = class.split(' ');
            let c = it.next().unwrap_or("");
            let msg = it.next().map(unhex_str).unwrap_or_default();
            if c != "ok" {
                println!("=== {} {}: {}\n{}", i, c, msg.lines().take(6).collect::<Vec<_>>().join(" / "), if c == "compile" { src.clone() } else { String::new() });
            }
        }
        return;
    }
    let mut rep = Report::new("C19", &args);
    rep.rule = "cases: (a) programs (corpus, /repo tests, documentation examples, seeded generated programs) run by the rc-built and the arc-built runner — non-trivial = at least 3 code lines; (b) borrow scripts on the real PtrMut of each build vs the model — non-trivial = at least 3 requests; (c) sequential list/map operation sequences, model vs both builds — non-trivial = at least 3 operations; (d) stress outcomes on a shared container under arc: one case per DISTINCT observed outcome (thread results + final contents) of a small history, each explained by a linearization validated by the Lean model, and one case per large history checked by counting invariants — non-trivial = at least 3 (small) / 16 (large) operations. distinct = distinct canonical request / outcome text".into();
    let open: Vec<String> = rep.known_open().iter().filter_map(|e| e.get("id").and_then(|x| x.as_str()).map(|s| s.to_string())).collect();
    let arc_path = args.extra.iter().position(|a| a == "--arc-bin").and_then(|i| args.extra.get(i + 1)).cloned();
    let Some(arc_path) = arc_path else {
        rep.violation("K", "K:C19:arc-build-missing", json!({"note": "no --arc-bin given: ./check passes it when props/C19.json has arc_build=true"}));
        std::process::exit(rep.finish());
    };
    let drv = if args.driver.is_empty() { None } else { Some(Driver::spawn(&args.driver)) };
    if drv.is_none() {
        rep.violation("K", "K:C19:model-driver-missing", json!({"note": "the Lean model driver did not build; correspondence cannot be checked"}));
    }
    let me = std::env::current_exe().expect("current_exe");
    let rc = Child::spawn(&me);
    let arc = Child::spawn(std::path::Path::new(&arc_path));
    let thorough = args.thorough();
    let mut cx = Cx { rep, drv, rc, arc, rng: Rng::new(args.seed), thorough, open, d_fail: 0, k_fail: 0, deadlocks: 0 };
    let (fa, fb) = cx.both(&["feature".to_string()], Duration::from_secs(20));
    if fa[0] != "rc" || fb[0] != "arc" {
        cx.rep.violation("K", "K:C19:builds", json!({"rc_runner_says": fa[0], "arc_runner_says": fb[0], "note": "the two runners are not an rc build and an arc build"}));
        std::process::exit(cx.rep.finish());
    }

    // ---- replay -------------------------------------------------------------------------------
    if let Some(p) = &args.replay {
        let v: Value = serde_json::from_str(&std::fs::read_to_string(p).expect("replay file")).expect("json");
        let d = &v["detail"];
        match d["kind"].as_str().unwrap_or("") {
            "prog" => {
                let item = ("replay".to_string(), d["program"].as_str().unwrap_or("").to_string(), d["script_path"].as_str().map(|s| s.to_string()));
                cx.programs(&[item.clone()]);
                let req = format!("prog {}", kvh::hex(item.1.as_bytes()));
                println!("rc : {}", cx.rc.ask(&req, T_PROG));
                println!("arc: {}", cx.arc.ask(&req, T_PROG));
            }
            "cell" => {
                let s: Vec<String> = d["script"].as_array().cloned().unwrap_or_default().iter().map(|x| x.as_str().unwrap_or("").to_string()).collect();
                cx.cells(&[s]);
            }
            other => {
                println!("replay of kind {:?}: stress histories are schedule dependent; re-running the stress phases with the recorded seed", other);
                run_stress_phases(&mut cx);
            }
        }
        std::process::exit(cx.rep.finish());
    }

    if let Some(i) = args.extra.iter().position(|a| a == "--forms") {
        // targeted run: many pair histories for the given forms only
        let tags: Vec<String> = args.extra.get(i + 1).cloned().unwrap_or_default().split(',').map(|x| x.to_string()).collect();
        let (exact, _) = all_forms();
        for tag in exact.iter().filter(|t| tags.iter().any(|x| x == *t)) {
            for k in 0..40usize {
                let mut r = cx.rng.fork();
                let s = gen_pair(&mut r, tag, k % 2 == 0, [2usize, 3, 4, 8][k % 4], if k % 2 == 0 { 300 } else { 600 });
                cx.rep.bump(&format!("pair_form={}", tag));
                cx.stress_small(&s);
            }
        }
        println!("forms {:?}: cases={} violations={} undecided={:?}", tags, cx.rep.evaluations, cx.rep.violations.len(), cx.rep.dist.get("small_linearization_search_budget_exhausted"));
        std::process::exit(cx.rep.finish());
    }
    if args.has_flag("--only-selftest") {
        for _ in 0..20 {
            let t = std::time::Instant::now();
            selftest(&mut cx);
            println!("selftest {:.1}s {}", t.elapsed().as_secs_f64(), cx.rep.extra["sensitivity_selftest"]);
        }
        return;
    }
    // ---- operation table vs source ---------------------------------------------------------------
    let (problems, listing) = check_op_table();
    cx.rep.extra.insert("operation_table".into(), listing);
    if !problems.is_empty() {
        cx.k_fail += 1;
        cx.rep.violation("K", "K:C19:op-table", json!({"problems": problems,
            "note": "the container operations registered in core_lib/list.rs / map.rs and the C19 coverage table differ: an operation without concurrent coverage (or a stale entry)"}));
    }
    if cx.open.iter().any(|x| x == "F-C19-10") {
        MAP_EQ_EXCLUDED.store(true, std::sync::atomic::Ordering::Relaxed);
        cx.rep.note("shape filter: map `==` (form m.eq) is not part of the generated mixes while F-C19-10 is open; it is replayed as a history witness");
    }
    if cx.open.iter().any(|x| x == "F-C19-11") {
        RETAIN_VALUE_EXCLUDED.store(true, std::sync::atomic::Ordering::Relaxed);
        cx.rep.note("shape filter: list.retain with a value (form l.retain.value) is not part of the generated mixes while F-C19-11 is open; it is replayed as a history witness");
    }
    // ---- 0. listed findings ---------------------------------------------------------------------
    let t_phase = std::time::Instant::now();
    let mut phase_s: Vec<(String, f64)> = vec![];
    replay_known(&mut cx);
    run_reentrant_family(&mut cx);
    phase_s.push(("known".into(), t_phase.elapsed().as_secs_f64()));

    // ---- 1. corpus --------------------------------------------------------------------------------
    let mut items: Vec<(String, String, Option<String>)> = vec![];
    if let Some(dir) = &args.corpus {
        for (name, src) in load_corpus(dir, "koto") {
            items.push((format!("corpus:{}", name), src, None));
        }
        let cells: Vec<Vec<String>> = load_corpus(dir, "cell")
            .iter()
            .flat_map(|(_, s)| s.lines().filter(|l| !l.trim().is_empty() && !l.starts_with('#')).map(|l| l.split(' ').map(|x| x.to_string()).collect()).collect::<Vec<_>>())
            .collect();
        cx.cells(&cells);
    }
    // ---- 2. (K1b) lock protocol ---------------------------------------------------------------
    let n_cells = if thorough { 200000 } else { 20000 };
    let mut scripts = vec![];
    for _ in 0..n_cells {
        let s: Vec<String> = cx.gen_cell_script().iter().map(|x| x.to_string()).collect();
        scripts.push(s);
    }
    for chunk in scripts.chunks(5000) {
        cx.cells(chunk);
    }
    phase_s.push(("cells".into(), t_phase.elapsed().as_secs_f64()));
    // ---- 3. (K1c) sequential container semantics ------------------------------------------------
    let n_seq = if thorough { 40000 } else { 3000 };
    let mut cases = vec![];
    for i in 0..n_seq {
        let mut r = cx.rng.fork();
        let s = gen_small(&mut r, i % 2 == 1, 1, 12, 1);
        cases.push((s.init, s.progs.into_iter().next().unwrap()));
    }
    cx.seq_ops(&cases);
    phase_s.push(("seq".into(), t_phase.elapsed().as_secs_f64()));
    // ---- 4. (K1a) programs -------------------------------------------------------------------------
    for (name, src) in object_programs() {
        items.push((format!("objects:{}", name), src, None));
    }
    for f in ["comments", "enums", "error_handling", "import", "load_and_run", "meta_maps", "primes"] {
        let p = format!("/repo/koto/tests/{}.koto", f);
        if let Ok(s) = std::fs::read_to_string(&p) {
            items.push((format!("repo-tests:{}", f), s, Some(p)));
        }
    }
    for f in ["fib_recursive", "enumerate", "string_formatting", "spectral_norm", "fannkuch", "n_body"] {
        let p = format!("/repo/koto/benches/{}.koto", f);
        if let Ok(s) = std::fs::read_to_string(&p) {
            items.push((format!("repo-benches:{}", f), s, Some(p)));
        }
    }
    let mut docs = vec!["/repo/docs/language_guide.md".to_string(), "/repo/docs/about.md".to_string(), "/repo/README.md".to_string()];
    for f in ["iterator", "koto", "list", "map", "number", "range", "string", "test", "tuple"] {
        docs.push(format!("/repo/docs/core_lib/{}.md", f));
    }
    for d in &docs {
        if let Ok(md) = std::fs::read_to_string(d) {
            for (i, b) in doc_blocks(&md).into_iter().enumerate() {
                let name = d.rsplit('/').next().unwrap_or("?");
                items.push((format!("docs:{}#{}", name, i), b, None));
            }
        }
    }
    let n_gen = if thorough { 40000 } else { 3000 };
    for i in 0..n_gen {
        let g = Gen::new(cx.rng.fork());
        let n = 4 + cx.rng.below(14);
        let (src, kinds) = g.program(n);
        for (k, c) in kinds {
            cx.rep.bump_by(&format!("gen_stmt={}", k), c);
        }
        items.push((format!("gen:{}", i), src, None));
    }
    for chunk in items.chunks(2000) {
        cx.programs(chunk);
    }
    phase_s.push(("programs".into(), t_phase.elapsed().as_secs_f64()));
    // ---- 5. (K2) stress -----------------------------------------------------------------------
    if !args.has_flag("--skip-stress") {
        run_stress_phases(&mut cx);
    }
    phase_s.push(("stress".into(), t_phase.elapsed().as_secs_f64()));
    cx.rep.extra.insert("phase_end_s".into(), json!(phase_s));

    let (k, d) = (cx.k_fail, cx.d_fail);
    cx.rep.extra.insert("k_disagreements".into(), json!(k));
    cx.rep.extra.insert("d_failures".into(), json!(d));
    cx.rep.extra.insert("runner_restarts".into(), json!({"rc": cx.rc.restarts, "arc": cx.arc.restarts}));
    if let Some(dr) = &cx.drv {
        cx.rep.extra.insert("driver_requests".into(), json!(dr.requests));
    }
    cx.rep.extra.insert("not_covered".into(), json!([
        "script-level operations that are several brackets (`l[i] = l[i] + 1`, map.update, list.retain/resize_with/sort(f)/transform with callbacks, iteration over a container) are not single container operations and are not required to be atomic: excluded from (K2)",
        "operations holding two guards at once (list.swap, list.extend(other list), map.extend(other map)) are two-container operations; `a.swap b` ∥ `b.swap a` can deadlock (two_locks_deadlock_witness) — outside the property",
        "real thread interleavings are sampled, not enumerated; parking_lot's writer preference is not modelled (the model allows a superset of the lock's schedules)"
    ]));
    std::process::exit(cx.rep.finish());
}

/// Sensitivity self-test: the same stress machinery on scripts in which one operation was replaced
/// by a script-level two-bracket imitation (what a "container op split into two lock
/// acquisitions" looks like from outside). The invariants must notice. Not a property case: the
/// outcome goes to the evidence (`sensitivity_selftest`), a miss is reported as a note.
fn selftest(cx: &mut Cx) {
    let k = if cx.thorough { 3000 } else { 1500 };
    let mut results = serde_json::Map::new();
    type Plant = (&'static str, fn(&mut Rng, usize, usize) -> Stress, fn(&str) -> String, fn(&Stress, &[Vec<String>], &str) -> Result<Value, String>);
    let plants: [Plant; 2] = [
        ("split-push (size + resize)", gen_big_list, plant_split_push, check_big_list),
        ("split-fill (two half fills)", gen_torn_fill, plant_split_fill, check_torn_fill),
    ];
    for (name, genf, plant, check) in plants {
        let mut detected = 0;
        let mut first: Option<String> = None;
        let tries = 2;
        for _ in 0..tries {
            let mut r = cx.rng.fork();
            let mut s = genf(&mut r, 8, k);
            s.rewrite = Some(plant);
            let req = stress_request(&s, false, 4);
            let ans = cx.arc.ask(&req, Duration::from_secs(90));
            let v: Value = serde_json::from_str(&ans).unwrap_or(json!({}));
            let mut bad = ans == "TIMEOUT" || ans.starts_with("DIED");
            for o in v["outcomes"].as_array().cloned().unwrap_or_default() {
                let threads: Vec<Vec<String>> = o["threads"].as_array().unwrap().iter().map(|t| split_tokens(t.as_str().unwrap_or(""))).collect();
                let fin = o["final"].as_str().unwrap_or("").to_string();
                let res = match threads.iter().flatten().find(|t| !ok_token(t)) {
                    Some(t) => Err(format!("operation failed: {}", t)),
                    None => check(&s, &threads, &fin),
                };
                if let Err(why) = res {
                    bad = true;
                    first.get_or_insert(why);
                }
            }
            if bad {
                detected += 1;
            }
        }
        if detected == 0 {
            cx.rep.note(format!("sensitivity self-test: planted mutant {:?} was NOT detected in {} runs — contention on this machine is too low for the stress phase to be meaningful", name, tries));
        }
        results.insert(name.to_string(), json!({"runs": tries, "detected_in": detected, "first_report": first.map(|s| s.chars().take(200).collect::<String>())}));
    }
    cx.rep.extra.insert("sensitivity_selftest".into(), Value::Object(results));
}

fn run_stress_phases(cx: &mut Cx) {
    let thorough = cx.thorough;
    let t0 = std::time::Instant::now();
    cx.stress_pairs();
    // host API alphabet (Rust threads next to script threads) and torn multi-entry reads: exact check
    let (n_host, n_torn, rounds_h) = if thorough { (400, 240, 1500) } else { (40, 24, 600) };
    for i in 0..n_host {
        if cx.deadlocks >= 2 {
            break;
        }
        let mut r = cx.rng.fork();
        let s = gen_host(&mut r, i % 2 == 0, [2usize, 3, 4, 6, 8][i % 5], rounds_h);
        cx.rep.bump(&format!("host_history={}", s.kind));
        cx.stress_small(&s);
    }
    for i in 0..n_torn {
        if cx.deadlocks >= 2 {
            break;
        }
        let mut r = cx.rng.fork();
        let s = gen_torn_eq(&mut r, i % 3 != 2, [6usize, 40, 12][i % 3], rounds_h);
        cx.rep.bump(&format!("torn_eq_history={}", s.kind));
        cx.stress_small(&s);
    }
    let t_pairs = t0.elapsed().as_secs_f64();
    let t0 = std::time::Instant::now();
    selftest(cx);
    let t_self = t0.elapsed().as_secs_f64();
    // small histories, exact linearizability check
    let n_small = if thorough { 2500 } else { 160 };
    let rounds = if thorough { 1500 } else { 400 };
    // wall-clock budgets (spin barriers are slow on an oversubscribed machine): specs are taken in
    // seed order, so a shorter run explores a prefix of a longer one
    let (budget_small, budget_big) = if thorough { (330.0, 420.0) } else { (25.0, 25.0) };
    let mut small_done = 0;
    for i in 0..n_small {
        if i >= 12 && t0.elapsed().as_secs_f64() - t_self > budget_small {
            break;
        }
        if cx.deadlocks >= 2 {
            cx.rep.note("stress stopped after the second deadlock (each one costs a 45 s watchdog)");
            return;
        }
        small_done += 1;
        let mut r = cx.rng.fork();
        let (n_threads, max_ops) = match i % 6 {
            0 | 1 => (2, 5),
            2 | 3 => (3, 4),
            4 => (4, 3),
            _ => (8, 2),
        };
        let s = gen_small(&mut r, i % 3 == 2, n_threads, max_ops, rounds);
        cx.stress_small(&s);
    }
    let t_small = t0.elapsed().as_secs_f64();
    // large histories, counting invariants
    let (k, reps) = if thorough { (3000, 30) } else { (2000, 4) };
    let mut big_done = 0;
    for rep_i in 0..reps {
        if rep_i >= 1 && t0.elapsed().as_secs_f64() - t_small > budget_big {
            break;
        }
        big_done += 1;
        if cx.deadlocks >= 2 {
            return;
        }
        for n in [2usize, 4, 8] {
            // under heavy machine load one set can take minutes: the budget is also checked per
            // thread count (the first set always runs n = 2 and n = 4)
            if (rep_i >= 1 || n == 8) && t0.elapsed().as_secs_f64() - t_small > budget_big {
                cx.rep.note("large-history stress: wall-clock budget reached (machine under load)");
                break;
            }
            let mut r = cx.rng.fork();
            let _ = rep_i;
            let s = gen_big_list(&mut r, n, k);
            cx.stress_big(&s, check_big_list);
            let s = gen_big_map(&mut r, n, k);
            cx.stress_big(&s, check_big_map);
            let s = gen_torn_fill(&mut r, n, k);
            cx.stress_big(&s, check_torn_fill);
            let s = gen_reverse(&mut r, n, k);
            cx.stress_big(&s, check_reverse);
            let s = gen_slots(&mut r, n, k);
            cx.stress_big(&s, check_slots);
            let s = gen_vm_reads(&mut r, n, k);
            cx.stress_big(&s, check_vm_reads);
        }
    }
    cx.rep.extra.insert("stress_phase_end_s".into(), json!({"pairs": t_pairs, "selftest": t_self, "small": t_small, "big": t0.elapsed().as_secs_f64(),
        "small_specs_run": small_done, "small_specs_planned": n_small, "big_sets_run": big_done, "big_sets_planned": reps}));
}

/// Replay the witnesses of the listed findings (known: still failing → KNOWN-FINDING line;
/// fixed: must pass).
fn replay_known(cx: &mut Cx) {
    let entries = cx.rep.known_entries();
    for e in entries {
        let id = e["id"].as_str().unwrap_or("").to_string();
        let known = cx.open.contains(&id);
        if let Some(ws) = e.get("witnesses").and_then(|w| w.as_array()) {
            // re-entrant witnesses: rc panics (RefCell), arc never answers (self-deadlock)
            let mut reproduced = 0;
            let mut total = 0;
            for w in ws {
                let Some(src) = w.as_str() else { continue };
                total += 1;
                let req = format!("prog {}", kvh::hex(src.as_bytes()));
                let a = cx.rc.ask(&req, Duration::from_secs(10));
                let b = match cx.arc.request(&req, Duration::from_millis(1500)) {
                    Reply::Ok(s) => s,
                    Reply::Timeout => "TIMEOUT".to_string(),
                    Reply::Died(s) => format!("DIED {}", s),
                };
                cx.rep.case(&req, true);
                let rc_panics = a.contains("| panic ") && unhex_str(a.rsplit(' ').next().unwrap_or("x")).contains("already");
                let arc_hangs = b == "TIMEOUT";
                if rc_panics && arc_hangs {
                    reproduced += 1;
                } else if a == b {
                    cx.rep.note(format!("{}: witness {:?} now gives the same answer in both builds ({})", id, src, a));
                    if !known {
                        continue;
                    }
                } else if !known || !(rc_panics || arc_hangs) {
                    cx.d_fail += 1;
                    cx.rep.violation("D", &format!("C19:rc-arc-differ:{}", id), json!({"kind": "prog", "program": src, "rc": a, "arc": b,
                        "note": "witness of a listed finding behaves differently from what the entry documents"}));
                }
            }
            if known && reproduced > 0 {
                cx.rep.known(&id, &format!("{} of {} re-entrant witnesses: rc panics (RefCell already borrowed), arc self-deadlocks (runner killed by the 1.5 s watchdog)", reproduced, total));
            } else if !known && reproduced > 0 {
                cx.d_fail += 1;
                cx.rep.violation("D", &format!("C19:regression:{}", id), json!({"kind": "prog", "note": "a finding recorded as fixed fails again", "witnesses": ws}));
            }
        }
    }
    // check-then-act defects: schedule dependent, replayed as races
    let loops = if cx.thorough { 60000 } else { 20000 };
    for tc in toctou_cases(loops) {
        let listed = cx.rep.known_entries().iter().any(|e| e["id"].as_str() == Some(tc.id));
        if !listed {
            continue;
        }
        let known = cx.open.iter().any(|x| x == tc.id);
        let req = raw_stress_request(tc.kind, tc.init.clone(), &tc.scripts, 3);
        let ans = cx.arc.ask(&req, Duration::from_secs(60));
        cx.rep.case(&req, true);
        let v: Value = serde_json::from_str(&ans).unwrap_or(json!({}));
        let mut hit: Option<String> = None;
        let mut other: Option<String> = None;
        for o in v["outcomes"].as_array().cloned().unwrap_or_default() {
            for (ti, t) in o["threads"].as_array().cloned().unwrap_or_default().into_iter().enumerate() {
                let t = t.as_str().unwrap_or("").to_string();
                if t.starts_with("PANIC:") && ti == 0 {
                    // the documented failure: the thread running the check-then-act operation panics
                    hit = Some(t);
                } else if !ok_token(&t) {
                    other = Some(t);
                }
            }
        }
        if ans == "TIMEOUT" || ans.starts_with("DIED") {
            other = Some(ans.clone());
        }
        match (hit, other) {
            (Some(h), _) if known => cx.rep.known(tc.id, &format!("race reproduced under arc: {} ({})", h.chars().take(120).collect::<String>(), tc.what)),
            (Some(h), _) => {
                cx.d_fail += 1;
                cx.rep.violation("D", &format!("C19:regression:{}", tc.id), json!({"kind": "stress", "scripts": tc.scripts, "panic": h, "note": "a finding recorded as fixed fails again"}));
            }
            (None, Some(o)) => {
                cx.d_fail += 1;
                cx.rep.violation("D", &format!("C19:atomicity:{}", tc.id), json!({"kind": "stress", "scripts": tc.scripts, "observed": o,
                    "note": "the race witness of a listed finding fails in a way the entry does not document"}));
            }
            (None, None) => {
                if known {
                    cx.rep.note(format!("{}: race not reproduced in this run (schedule dependent)", tc.id));
                }
            }
        }
    }
    // nested read guards on one cell: deadlock witnesses, each in its own arc runner, in parallel;
    // plus the same-operand family (both operands of a binary operation are the shared container),
    // which is not tied to a finding: a hang there is a VIOLATION
    let mut cases: Vec<DeadlockCase> = deadlock_cases(30000).into_iter().filter(|c| cx.rep.known_entries().iter().any(|e| e["id"].as_str() == Some(c.id))).collect();
    cases.extend(same_operand_cases(if cx.thorough { 30000 } else { 12000 }));
    let arc_exe = cx.arc.exe.clone();
    let open = cx.open.clone();
    let results: Vec<(String, bool)> = std::thread::scope(|sc| {
        let hs: Vec<_> = cases
            .iter()
            .map(|c| {
                let exe = arc_exe.clone();
                let known = open.iter().any(|x| x == c.id);
                sc.spawn(move || {
                    let mut ch = Child::spawn(&exe);
                    let req = raw_stress_request(c.kind, c.init.clone(), &c.scripts, 2);
                    // known: the hang is expected, a short watchdog keeps the run short;
                    // fixed: a regression is only claimed after the generous watchdog
                    let ans = ch.ask(&req, if known { Duration::from_secs(8) } else { WATCHDOG });
                    (ans, known)
                })
            })
            .collect();
        hs.into_iter().map(|h| h.join().unwrap()).collect()
    });
    for (c, (ans, known)) in cases.iter().zip(results) {
        cx.rep.case(&format!("deadlock witness {}", c.id), true);
        let hung = ans == "TIMEOUT";
        let panicked = ans.contains("PANIC:") || ans.starts_with("DIED");
        if hung && known {
            cx.rep.known(c.id, "nested read guards on one cell: reader and writers hang under arc (runner killed by the 8 s watchdog)");
        } else if hung && c.id.starts_with("same:") {
            cx.d_fail += 1;
            cx.rep.violation("D", &format!("C19:deadlock:{}", c.id), json!({"kind": "stress", "scripts": c.scripts,
                "note": "DEADLOCK: a binary operation whose two operands are the same shared container, against two writers: no progress for 45 s (nested guards of one cell with a writer queued in between)"}));
        } else if hung {
            cx.d_fail += 1;
            cx.rep.violation("D", &format!("C19:regression:{}", c.id), json!({"kind": "stress", "scripts": c.scripts, "note": "DEADLOCK: a finding recorded as fixed hangs again (45 s without progress)"}));
        } else if panicked {
            cx.d_fail += 1;
            cx.rep.violation("D", &format!("C19:atomicity:{}", c.id), json!({"kind": "stress", "scripts": c.scripts, "observed": ans.chars().take(500).collect::<String>()}));
        } else if known {
            cx.rep.note(format!("{}: deadlock not reproduced in this run", c.id));
        }
    }
    // history witnesses (exact check) of operations that are check-then-act / copy-then-write-back
    let hist: [(&str, fn(usize) -> Stress, &str); 2] = [
        ("F-C19-10", map_eq_history, "map == over two guards"),
        ("F-C19-11", retain_value_history, "list.retain(value) copies, compares unguarded, writes back"),
    ];
    for (id, mk, what) in hist {
        if !cx.rep.known_entries().iter().any(|e| e["id"].as_str() == Some(id)) {
            continue;
        }
        let known = cx.open.iter().any(|x| x == id);
        let s = mk(if cx.thorough { 6000 } else { 2500 });
        let ans = cx.arc.ask(&stress_request(&s, true, 200), WATCHDOG);
        cx.rep.case(&format!("history witness {}", id), true);
        let v: Value = serde_json::from_str(&ans).unwrap_or(json!({}));
        let mut bad: Option<String> = None;
        for o in v["outcomes"].as_array().cloned().unwrap_or_default() {
            let threads: Vec<Vec<String>> = o["threads"].as_array().unwrap().iter().map(|t| split_tokens(t.as_str().unwrap_or(""))).collect();
            let fin = o["final"].as_str().unwrap_or("").to_string();
            if threads.iter().flatten().any(|t| !ok_token(t)) || matches!(find_linearization(&s.init, &s.progs, &threads, &fin), Ok(None)) {
                bad = Some(format!("{:?} final {}", threads, fin));
                break;
            }
        }
        match (bad, known) {
            (Some(b), true) => cx.rep.known(id, &format!("{}: outcome without a linearization: {}", what, b.chars().take(160).collect::<String>())),
            (Some(b), false) => {
                cx.d_fail += 1;
                cx.rep.violation("D", &format!("C19:regression:{}", id), json!({"kind": "stress", "observed": b, "note": "a finding recorded as fixed fails again"}));
            }
            (None, true) => cx.rep.note(format!("{}: race not reproduced in this run (schedule dependent)", id)),
            (None, false) => {}
        }
        if ans == "TIMEOUT" {
            cx.d_fail += 1;
            cx.rep.violation("D", "C19:deadlock", json!({"kind": "stress", "mode": s.kind}));
        }
    }
}
