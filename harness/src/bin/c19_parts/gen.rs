// Seeded generator of terminating Koto programs over numbers, strings, lists, maps, functions,
// closures, generators, iterator pipelines, objects and errors (K1a).
//
// Shape filter (documented known-finding shapes are not generated, DESIGN §3):
//  * a callback / argument passed to a container method never refers to the receiver container
//    (`l.extend l`, `l.transform |x| size l`, … : rc panics, arc self-deadlocks — F-C19-1);
//    callbacks are inline lambdas over their parameters and numeric variables only, `extend`
//    arguments are fresh literals or copies; containers are never aliased (`a = l`);
//  * no io/os/random/time, no float→text of non-trivial floats is avoided by integer arithmetic
//    (division only by non-zero literals, results still printed: both builds share the printer).

struct Gen {
    rng: Rng,
    out: String,
    nums: Vec<String>,
    strs: Vec<String>,
    lists: Vec<String>,
    maps: Vec<String>,
    funs: Vec<(String, usize)>,
    gens: Vec<String>,
    counter: usize,
    in_lambda: bool,
    kinds: BTreeMap<&'static str, u64>,
}

impl Gen {
    fn new(rng: Rng) -> Gen {
        Gen { rng, out: String::new(), nums: vec![], strs: vec![], lists: vec![], maps: vec![], funs: vec![], gens: vec![],
              counter: 0, in_lambda: false, kinds: BTreeMap::new() }
    }
    fn fresh(&mut self, p: &str) -> String {
        self.counter += 1;
        format!("{}{}", p, self.counter)
    }
    fn kind(&mut self, k: &'static str) {
        *self.kinds.entry(k).or_insert(0) += 1;
    }
    fn line(&mut self, ind: usize, s: &str) {
        for _ in 0..ind {
            self.out.push_str("  ");
        }
        self.out.push_str(s);
        self.out.push('\n');
    }
    fn lit(&mut self) -> String {
        match self.rng.below(8) {
            0 => "0".into(),
            1 => "1".into(),
            2 => format!("{}", self.rng.range(-9, 99)),
            3 => format!("{}.5", self.rng.range(0, 9)),
            _ => format!("{}", self.rng.range(0, 12)),
        }
    }
    /// numeric expression over literals, numeric variables and the given extra names
    fn num(&mut self, extra: &[&str], depth: usize) -> String {
        let mut atoms: Vec<String> = self.nums.clone();
        atoms.extend(extra.iter().map(|s| s.to_string()));
        if depth == 0 || self.rng.chance(2, 5) {
            if !atoms.is_empty() && self.rng.chance(3, 5) {
                return self.rng.pick(&atoms).clone();
            }
            return self.lit();
        }
        let a = self.num(extra, depth - 1);
        let b = self.num(extra, depth - 1);
        match self.rng.below(9) {
            0 => format!("({} + {})", a, b),
            1 => format!("({} - {})", a, b),
            2 => format!("({} * {})", a, b),
            3 => format!("({} % {})", a, self.rng.range(2, 7)),
            4 => format!("({} / {})", a, self.rng.range(2, 5)),
            5 => format!("({}).min({})", a, b),
            6 => format!("(if {} < {} then {} else {})", a, b, b, a),
            7 if !self.lists.is_empty() && extra.is_empty() && !self.in_lambda => format!("size({})", self.rng.pick(&self.lists.clone())),
            _ => format!("({}).abs()", a),
        }
    }
    fn strlit(&mut self) -> String {
        const W: &[&str] = &["koto", "abc", "hello world", "a,b,c", "", "xyz", "Rc", "Arc", "lock", "ünï", "a b  c"];
        format!("'{}'", self.rng.pick(W))
    }
    fn str_expr(&mut self) -> String {
        let base = if !self.strs.is_empty() && self.rng.chance(1, 2) { self.rng.pick(&self.strs.clone()).clone() } else { self.strlit() };
        match self.rng.below(9) {
            0 => format!("{}.to_uppercase()", base),
            1 => format!("({} + {})", base, self.strlit()),
            2 => format!("{}.replace('a', 'o')", base),
            3 => format!("{}.trim()", base),
            4 => {
                let n = self.num(&[], 1);
                format!("'{{{}}}-{{{}:>6}}|'", base, n)
            }
            5 => format!("{}.chars().reversed().to_string()", base),
            6 => format!("string.from_bytes({}.bytes())", base),
            _ => base,
        }
    }
    fn lambda1(&mut self) -> String {
        self.in_lambda = true;
        let body = self.num(&["x"], 2);
        self.in_lambda = false;
        format!("|x| {}", body)
    }
    fn pred1(&mut self) -> String {
        self.in_lambda = true;
        let a = self.num(&["x"], 1);
        self.in_lambda = false;
        match self.rng.below(3) {
            0 => format!("|x| {} % 2 == 0", a),
            1 => format!("|x| {} > {}", a, self.rng.range(0, 8)),
            _ => format!("|x| {} != {}", a, self.rng.range(0, 5)),
        }
    }
    /// an iterable expression (never an alias of a container: ranges, literals, copies)
    fn iterable(&mut self) -> String {
        match self.rng.below(7) {
            0 => format!("(0..{})", self.rng.range(0, 9)),
            1 => format!("({}..={})", self.rng.range(0, 4), self.rng.range(2, 9)),
            2 if !self.lists.is_empty() => format!("copy({})", self.rng.pick(&self.lists.clone())),
            3 if !self.strs.is_empty() => format!("{}.chars().each(|c| size(c))", self.rng.pick(&self.strs.clone())),
            4 if !self.gens.is_empty() => format!("{}()", self.rng.pick(&self.gens.clone())),
            5 if !self.maps.is_empty() => format!("copy({}).values()", self.rng.pick(&self.maps.clone())),
            _ => {
                let n = 1 + self.rng.below(5);
                let xs: Vec<String> = (0..n).map(|_| self.lit()).collect();
                format!("({},)", xs.join(", "))
            }
        }
    }
    fn pipeline(&mut self) -> String {
        let mut s = self.iterable();
        let n = self.rng.below(4);
        for _ in 0..n {
            let a = match self.rng.below(12) {
                0 => format!(".each({})", self.lambda1()),
                1 => format!(".keep({})", self.pred1()),
                2 => format!(".take({})", self.rng.range(0, 6)),
                3 => format!(".skip({})", self.rng.range(0, 3)),
                4 => ".enumerate().each(|(i, x)| i * 10 + x)".to_string(),
                5 => ".reversed()".to_string(),
                6 => format!(".chain(({}, {}))", self.lit(), self.lit()),
                7 => format!(".zip(10..{}).each(|(a, b)| a + b)", self.rng.range(11, 18)),
                8 => format!(".step({})", self.rng.range(1, 3)),
                9 => ".windows(2).each(|w| w.sum())".to_string(),
                10 => format!(".intersperse({})", self.lit()),
                _ => ".chunks(2).each(|c| c.count())".to_string(),
            };
            // `reversed` needs a bidirectional source: only directly after the source
            if a == ".reversed()" && s.contains(").") {
                continue;
            }
            if a == ".reversed()" && (s.ends_with("()") || s.contains("values") || s.contains("chars")) {
                continue;
            }
            s.push_str(&a);
        }
        s
    }
    fn consume(&mut self, p: String) -> String {
        match self.rng.below(9) {
            0 => format!("{}.to_list()", p),
            1 => format!("{}.to_tuple()", p),
            2 => format!("{}.sum()", p),
            3 => format!("{}.count()", p),
            4 => format!("{}.fold(0, |a, b| a * 3 + b)", p),
            5 => format!("{}.min()", p),
            6 => format!("{}.max()", p),
            7 => format!("{}.to_string()", p),
            _ => format!("{}.last()", p),
        }
    }
    fn any_value(&mut self) -> String {
        match self.rng.below(8) {
            0 if !self.lists.is_empty() => self.rng.pick(&self.lists.clone()).clone(),
            1 if !self.maps.is_empty() => self.rng.pick(&self.maps.clone()).clone(),
            2 => self.str_expr(),
            3 => {
                let p = self.pipeline();
                self.consume(p)
            }
            4 if !self.funs.is_empty() => {
                let (f, ar) = self.rng.pick(&self.funs.clone()).clone();
                let args: Vec<String> = (0..ar).map(|_| self.num(&[], 1)).collect();
                format!("{}({})", f, args.join(", "))
            }
            5 if !self.lists.is_empty() => {
                let l = self.rng.pick(&self.lists.clone()).clone();
                match self.rng.below(5) {
                    0 => format!("{}.first()", l),
                    1 => format!("{}.get({})", l, self.rng.range(0, 6)),
                    2 => format!("{}.contains({})", l, self.lit()),
                    3 => format!("{}.to_tuple()", l),
                    _ => format!("({} == copy({}))", l, l),
                }
            }
            6 if !self.maps.is_empty() => {
                let m = self.rng.pick(&self.maps.clone()).clone();
                match self.rng.below(4) {
                    0 => format!("{}.get('a')", m),
                    1 => format!("{}.keys().to_tuple()", m),
                    2 => format!("{}.contains_key('b')", m),
                    _ => format!("size({})", m),
                }
            }
            _ => self.num(&[], 2),
        }
    }
    fn stmt(&mut self, ind: usize, depth: usize) {
        let k = self.rng.below(26);
        match k {
            0 | 1 => {
                self.kind("num_assign");
                let e = self.num(&[], 3);
                let v = if !self.nums.is_empty() && self.rng.chance(1, 3) { self.rng.pick(&self.nums.clone()).clone() } else { self.fresh("n") };
                self.line(ind, &format!("{} = {}", v, e));
                if !self.nums.contains(&v) && ind == 0 {
                    self.nums.push(v);
                }
            }
            2 => {
                self.kind("str_assign");
                let e = self.str_expr();
                let v = self.fresh("s");
                self.line(ind, &format!("{} = {}", v, e));
                if ind == 0 {
                    self.strs.push(v);
                }
            }
            3 => {
                self.kind("list_new");
                let v = self.fresh("l");
                let e = if self.rng.chance(1, 2) {
                    let n = self.rng.below(6);
                    let xs: Vec<String> = (0..n).map(|_| self.num(&[], 1)).collect();
                    format!("[{}]", xs.join(", "))
                } else {
                    let p = self.pipeline();
                    format!("{}.to_list()", p)
                };
                self.line(ind, &format!("{} = {}", v, e));
                if ind == 0 {
                    self.lists.push(v);
                }
            }
            4 => {
                self.kind("map_new");
                let v = self.fresh("m");
                let a = self.num(&[], 1);
                let b = self.str_expr();
                let c = self.num(&[], 2);
                self.line(ind, &format!("{} = {{a: {}, b: {}, c: {}}}", v, a, b, c));
                if ind == 0 {
                    self.maps.push(v);
                }
            }
            5 | 6 | 7 if !self.lists.is_empty() => {
                self.kind("list_mut");
                let l = self.rng.pick(&self.lists.clone()).clone();
                let e = self.num(&[], 2);
                let s = match self.rng.below(14) {
                    0 | 1 => format!("{}.push({})", l, e),
                    2 => format!("print({}.pop())", l),
                    3 => format!("{}.insert(0, {})", l, e),
                    4 => format!("{}.sort()", l),
                    5 => format!("{}.reverse()", l),
                    6 => format!("{}.extend([{}, {}])", l, e, self.lit()),
                    7 => format!("{}.transform({})", l, self.lambda1()),
                    8 => format!("{}.retain({})", l, self.pred1()),
                    9 => format!("{}[{}] = {}", l, self.rng.range(0, 4), e),
                    10 => format!("{}.resize({}, {})", l, self.rng.range(0, 6), self.lit()),
                    11 => format!("{}.extend({})", l, self.pipeline()),
                    12 => format!("{}.sort(|x| 0 - x)", l),
                    _ => format!("{}.fill({})", l, e),
                };
                self.line(ind, &s);
            }
            8 | 9 if !self.maps.is_empty() => {
                self.kind("map_mut");
                let m = self.rng.pick(&self.maps.clone()).clone();
                let e = self.num(&[], 2);
                let key = *self.rng.pick(&["a", "b", "c", "d", "e"]);
                let s = match self.rng.below(8) {
                    0 => format!("{}.insert('{}', {})", m, key, e),
                    1 => format!("print({}.remove('{}'))", m, key),
                    2 => format!("{}.{} = {}", m, key, e),
                    3 => format!("{}.update('{}', 0, |v| if type(v) == 'Number' then v + 1 else 0)", m, key),
                    4 => format!("{}.extend({{z: {}, a: 7}})", m, e),
                    5 => format!("{}.sort()", m),
                    6 => format!("{}.insert({}, '{}')", m, self.rng.range(0, 3), key),
                    _ => format!("{}.d = [{}, {}]", m, e, self.lit()),
                };
                self.line(ind, &s);
            }
            10 | 11 | 12 => {
                self.kind("print");
                let v = self.any_value();
                if self.rng.chance(1, 3) {
                    let n = self.num(&[], 1);
                    self.line(ind, &format!("print('{{{}}} / {{{}:>5}} / {{{}:.2}}', )", v, n, n).replace(", )", ")"));
                } else {
                    self.line(ind, &format!("print({})", v));
                }
            }
            13 | 14 if depth > 0 => {
                self.kind("for");
                let it = self.pipeline();
                self.line(ind, &format!("for x in {}", it));
                match self.rng.below(3) {
                    0 if !self.lists.is_empty() => {
                        let l = self.rng.pick(&self.lists.clone()).clone();
                        self.line(ind + 1, &format!("{}.push(x)", l));
                    }
                    1 => {
                        self.line(ind + 1, "if x == 3");
                        self.line(ind + 2, "continue");
                        self.line(ind + 1, "if x > 6");
                        self.line(ind + 2, "break");
                        self.line(ind + 1, "print('x={x}')");
                    }
                    _ => {
                        self.stmt(ind + 1, depth - 1);
                    }
                }
            }
            15 if depth > 0 => {
                self.kind("if");
                let a = self.num(&[], 2);
                let b = self.num(&[], 1);
                self.line(ind, &format!("if {} < {}", a, b));
                self.stmt(ind + 1, depth - 1);
                self.line(ind, "else");
                self.stmt(ind + 1, depth - 1);
            }
            16 => {
                self.kind("match");
                let a = self.any_value();
                let v = self.fresh("r");
                self.line(ind, &format!("{} = match {}", v, a));
                self.line(ind + 1, "0 or 1 then 'small'");
                self.line(ind + 1, "n: Number if n > 5 then 'big {n}'");
                self.line(ind + 1, "n: Number then 'num'");
                self.line(ind + 1, "s: String then 'str {size(s)}'");
                self.line(ind + 1, "m: Map then 'map {size(m)}'");
                self.line(ind + 1, "null then 'null'");
                self.line(ind + 1, "true or false then 'bool'");
                self.line(ind + 1, "x if size(x) == 0 then 'empty'");
                self.line(ind + 1, "(first, rest...) then 'seq {first} {size(rest)}'");
                self.line(ind + 1, "else 'other'");
                self.line(ind, &format!("print({})", v));
            }
            17 => {
                self.kind("fn_def");
                let f = self.fresh("f");
                let ar = 1 + self.rng.below(2);
                let params: Vec<&str> = ["p", "q"][..ar].to_vec();
                let body = self.num(&params, 3);
                if self.rng.chance(1, 3) && !self.lists.is_empty() {
                    // closure capturing and mutating a container
                    let l = self.rng.pick(&self.lists.clone()).clone();
                    self.line(ind, &format!("{} = |{}|", f, params.join(", ")));
                    self.line(ind + 1, &format!("{}.push({})", l, body));
                    self.line(ind + 1, &format!("size({})", l));
                } else if self.rng.chance(1, 3) {
                    // recursion
                    self.line(ind, &format!("{} = |{}|", f, params.join(", ")));
                    self.line(ind + 1, &format!("if p <= 0 then 1 else p + {}({}{})", f, "p - 1", if ar == 2 { ", q" } else { "" }));
                } else {
                    self.line(ind, &format!("{} = |{}| {}", f, params.join(", "), body));
                }
                if ind == 0 {
                    self.funs.push((f, ar));
                }
            }
            18 => {
                self.kind("generator");
                let g = self.fresh("g");
                let n = self.rng.range(0, 6);
                let e = self.num(&["i"], 2);
                self.line(ind, &format!("{} = ||", g));
                self.line(ind + 1, &format!("for i in 0..{}", n));
                self.line(ind + 2, &format!("yield {}", e));
                if ind == 0 {
                    self.gens.push(g);
                }
            }
            19 | 20 if depth > 0 => {
                self.kind("try");
                self.line(ind, "try");
                self.stmt(ind + 1, depth - 1);
                match self.rng.below(5) {
                    0 => self.line(ind + 1, "throw 'boom'"),
                    1 => self.line(ind + 1, "throw {code: 7, @display: || 'E7'}"),
                    2 => self.line(ind + 1, "print([1, 2][5])"),
                    3 => self.line(ind + 1, "print(1 + 'x')"),
                    _ => {}
                }
                self.line(ind, "catch e");
                self.line(ind + 1, "print('caught: {e}')");
                if self.rng.chance(1, 2) {
                    self.line(ind, "finally");
                    self.line(ind + 1, "print('finally')");
                }
            }
            21 => {
                self.kind("object");
                let o = self.fresh("o");
                let a = self.num(&[], 1);
                self.line(ind, &format!("{} =", o));
                self.line(ind + 1, &format!("x: {}", a));
                self.line(ind + 1, "@+: |other| self.x + other");
                self.line(ind + 1, "@display: || 'Obj({self.x})'");
                self.line(ind + 1, "@index: |i| self.x * i");
                self.line(ind + 1, "@call: |k| k - self.x");
                let b = self.num(&[], 1);
                self.line(ind, &format!("print({} + {}, '{{{}}}', {}[3], {}(2))", o, b, o, o, o));
            }
            22 => {
                self.kind("nested_container");
                if !self.lists.is_empty() && !self.maps.is_empty() {
                    let l = self.rng.pick(&self.lists.clone()).clone();
                    let m = self.rng.pick(&self.maps.clone()).clone();
                    // sharing (not aliasing a variable): a list stored inside a map, mutated via both
                    self.line(ind, &format!("{}.inner = {}", m, l));
                    self.line(ind, &format!("{}.inner.push(99)", m));
                    self.line(ind, &format!("print(size({}), {}.inner == {})", l, m, l));
                } else {
                    self.line(ind, "print(((1, 2), [3, [4]]))");
                }
            }
            23 => {
                self.kind("switch_while");
                let n = self.rng.range(0, 5);
                let v = self.fresh("w");
                self.line(ind, &format!("{} = {}", v, n));
                self.line(ind, &format!("while {} > 0", v));
                self.line(ind + 1, &format!("{} -= 1", v));
                self.line(ind + 1, "sw = switch");
                self.line(ind + 2, &format!("{} == 0 then 'zero'", v));
                self.line(ind + 2, &format!("{} % 2 == 0 then 'even'", v));
                self.line(ind + 2, "else 'odd'");
                self.line(ind + 1, "print(sw)");
            }
            24 => {
                self.kind("uncaught_error");
                if self.rng.chance(1, 4) {
                    let what = *self.rng.pick(&["throw 'fatal'", "[1][2]", "[].first().foo()", "1 + {}", "assert_eq(1, 2)"]);
                    self.line(ind, what);
                } else {
                    let v = self.any_value();
                    self.line(ind, &format!("print(type({}))", v));
                }
            }
            _ => {
                self.kind("print");
                let v = self.any_value();
                self.line(ind, &format!("print({})", v));
            }
        }
    }
    fn program(mut self, n_stmts: usize) -> (String, BTreeMap<&'static str, u64>) {
        // a few variables first so that later statements have something to work on
        self.line(0, "n0 = 3");
        self.nums.push("n0".into());
        self.line(0, "l0 = [3, 1, 2]");
        self.lists.push("l0".into());
        self.line(0, "m0 = {a: 1, b: 'two'}");
        self.maps.push("m0".into());
        for _ in 0..n_stmts {
            self.stmt(0, 2);
        }
        let mut all: Vec<String> = vec![];
        all.extend(self.nums.iter().cloned());
        all.extend(self.strs.iter().cloned());
        all.extend(self.lists.iter().cloned());
        all.extend(self.maps.iter().cloned());
        self.out.push_str(&format!("({},)\n", all.join(", ")));
        (self.out, self.kinds)
    }
}

/// Koto code blocks of a markdown file, prepared as `koto_test_utils` does (`print!` → `print`,
/// `check!` lines dropped); blocks tagged skip_run and blocks touching io/os/random are left out.
fn doc_blocks(md: &str) -> Vec<String> {
    let mut out = vec![];
    let mut cur: Option<(String, bool)> = None;
    for line in md.lines() {
        let t = line.trim_start();
        match &mut cur {
            None => {
                if let Some(tag) = t.strip_prefix("```") {
                    let mut parts = tag.trim().split(',');
                    if parts.next() == Some("koto") {
                        let modifier = parts.next().unwrap_or("");
                        cur = Some((String::new(), modifier == "skip_run"));
                    }
                }
            }
            Some((buf, skip)) => {
                if t.starts_with("```") {
                    if !*skip {
                        out.push(buf.clone());
                    }
                    cur = None;
                } else if let Some(rest) = line.strip_prefix("print! ") {
                    buf.push_str("print ");
                    buf.push_str(rest);
                    buf.push('\n');
                } else if line.starts_with("check!") {
                } else {
                    buf.push_str(line);
                    buf.push('\n');
                }
            }
        }
    }
    out.into_iter()
        .filter(|b| {
            !["os.", "io.", "random", "tempfile", "koto.script", "koto.args", "koto.hash", "from os", "from io", "import os", "import io"]
                .iter()
                .any(|w| b.contains(w))
        })
        .collect()
}
