//! C07 — a failed run leaves the runtime reusable and clean.
//!
//! One *history* = a sequence of operations on ONE `koto::Koto` instance `L` (compile_and_run of
//! succeeding/failing scripts, call_function / call_exported_function on Koto and native callees,
//! value_to_string, imports of failing modules). Beside it runs a reference instance `R` that
//! performs only the *completed effects* of every operation (the part of a failing script that ran
//! before the failure point — known to the generator because it wrote the script), and at the end a
//! truly fresh instance `F` that replays those effects from scratch.
//!
//! (K) after every operation the H1 snapshot of `L` (`verif_stack_sizes`) is compared with the Lean
//!     model's prediction (`Model/Unwind.lean`, driver `kv_c07`) for the abstract event summary of
//!     the history so far;
//! (D) after every operation: the outcome on `L` equals the outcome expected by the generator /
//!     obtained on `R`; exports of `L` and `R` are equal; probe scripts give the same values on `L`
//!     and `R` (and `F`); no panic; the `R` snapshot stays all-zero.
//! Residue that the model predicts (it mirrors the code's defects) is attributed to a listed known
//! finding by call-site class; any other residue or behavioural difference is a VIOLATION with the
//! (shrunk) history as replay.
use koto::prelude::*;
use koto::{CompileArgs, Koto, KotoSettings};
use kvh::worker::{self, Reply, Worker};
use kvh::{canon, Args, Driver, Report, Rng};
use serde::{Deserialize, Serialize};
use serde_json::{json, Value};
use std::path::{Path, PathBuf};
use std::time::Duration;

// ------------------------------------------------------------------------------------------------
// operations

#[derive(Clone, Debug, Serialize, Deserialize, PartialEq)]
enum ArgV {
    I(i64),
    S(String),
    Null,
}

impl ArgV {
    fn to_value(&self) -> KValue {
        match self {
            ArgV::I(i) => KValue::Number((*i).into()),
            ArgV::S(s) => KValue::Str(s.as_str().into()),
            ArgV::Null => KValue::Null,
        }
    }
}

#[derive(Clone, Debug, Serialize, Deserialize, PartialEq)]
enum OpKind {
    /// compile_and_run(script)
    Run,
    /// call_exported_function(name, args)
    CallExported,
    /// call_function(prelude.<module>.<name>, args)
    CallNative,
    /// call_function(<number>, args): not callable
    CallNonCallable,
    /// v = compile_and_run(script); value_to_string(v)
    ToString,
    /// call_exported_function(name, CallArgs::AsTuple(args))
    CallExportedTuple,
    /// call_exported_function(name, CallArgs::Single(args[0]))
    CallExportedSingle,
}

#[derive(Clone, Debug, Serialize, Deserialize, PartialEq)]
struct Op {
    kind: OpKind,
    /// script for Run/ToString; function name for CallExported; `module.name` for CallNative
    text: String,
    /// what the reference instance runs instead (None = the same operation)
    ref_text: Option<String>,
    args: Vec<ArgV>,
    /// abstract event summary for the model (tokens of Drivers/C07.lean), without run_tests
    events: String,
    /// events of the part executed when the operation is a compile_and_run that reaches run_tests
    runs_tests: bool,
    /// "ok" | "err" | "compile"
    expect: String,
    /// substring the error message must contain (when expect == "err")
    err_contains: Option<String>,
    /// exact outcome text when expect == "ok" and the generator knows the value
    #[serde(default)]
    ok_value: Option<String>,
    /// attribution class of predicted residue: "", "native-err", "call-setup", "builder"
    residue_class: String,
    /// number of exported @test functions this operation adds
    adds_tests: u32,
    tags: Vec<String>,
    /// hook H5: a generator created by this operation that is reachable from the exports and whose
    /// body has raised by the end of the operation: (key in `StepOut::gens`, model request)
    #[serde(default)]
    gen_check: Option<(String, String)>,
}

impl Op {
    fn failing(&self) -> bool {
        self.expect != "ok"
    }
}

#[derive(Clone, Debug, Serialize, Deserialize)]
struct History {
    ops: Vec<Op>,
    /// execution limit in ms (0 = none)
    limit_ms: u64,
    /// directory holding the module files (script_path = <dir>/main.koto)
    mod_dir: String,
}

#[derive(Clone, Debug, Serialize, Deserialize, PartialEq)]
struct StepOut {
    /// H1 snapshot of L after the operation
    snap: (usize, usize, usize, usize, usize),
    /// H1 snapshot of R after the operation
    ref_snap: (usize, usize, usize, usize, usize),
    /// outcome on L: "ok:<canon>" | "err:<message>" | "compile:<message>" | "panic:<message>"
    out: String,
    ref_out: String,
    exports: String,
    ref_exports: String,
    /// probe results L / R (empty when probes were not run after this op)
    probes: Vec<String>,
    ref_probes: Vec<String>,
    /// hook H5: stack sizes of every generator VM reachable from the exports of L
    /// (`export:<name>` / `reg:<key>`)
    #[serde(default)]
    gens: Vec<(String, (usize, usize, usize, usize, usize))>,
}

#[derive(Clone, Debug, Serialize, Deserialize)]
struct HistOut {
    steps: Vec<StepOut>,
    fresh_probes: Vec<String>,
    fresh_exports: String,
    final_probes: Vec<String>,
}

// ------------------------------------------------------------------------------------------------
// executing a history against the real runtime

const PROBES: &[(&str, &str)] = &[
    ("arith", "a = 3\nb = 4\nc = a * b + 2\nc - a"),
    ("call4", "f = |a, b, c, d| a + b * c - d\nf(1, 2, 3, 4) + f(5, 6, 7, 8)"),
    ("interp", "x = 7\n\"v={x} w={x + 1} {'s'}\""),
    ("list", "l = [1, 2, [3, 4], (5, 6)]\nl.push 7\nl"),
    ("loop", "t = 0\nfor i in 0..10\n  t += i\nt"),
    ("nested", "g = |n| if n == 0 then [0] else [n, \"{g(n - 1)}\"]\ng 3"),
    ("trycatch", "r = try\n  throw 'p'\ncatch e\n  \"c-{e}\"\nr"),
    ("iter", "(1..=5).each(|x| x * x).keep(|x| x % 2 == 1).to_tuple()"),
];

fn new_instance(limit_ms: u64) -> Koto {
    let mut s = KotoSettings::default();
    if limit_ms > 0 {
        s = s.with_execution_limit(Duration::from_millis(limit_ms));
    }
    let k = Koto::with_settings(s);
    // hook H1 from inside a running script: (registers.len - register_base, call_stack.len,
    // sequence_builders.len, string_builders.len) of the VM that executes the call
    k.prelude().add_fn("c07_sizes", |ctx| {
        let z = ctx.vm.verif_stack_sizes();
        let n = |x: usize| KValue::Number((x as i64).into());
        Ok(KValue::Tuple(vec![n(z.0 - z.4), n(z.1), n(z.2), n(z.3)].into()))
    });
    k
}

fn err_text(e: &koto::Error) -> String {
    let s = e.to_string();
    // first line only (the rest is a source excerpt)
    s.lines().next().unwrap_or("").to_string()
}

fn run_script(k: &mut Koto, script: &str, mod_dir: &str) -> String {
    let path = format!("{}/main.koto", mod_dir);
    let r = kvh::catch(|| {
        let chunk = match k.compile(CompileArgs::new(script).script_path(path.as_str())) {
            Ok(c) => c,
            Err(e) => return format!("compile:{}", err_text(&e)),
        };
        match k.run(chunk) {
            Ok(v) => format!("ok:{}", canon::value(&v)),
            Err(e) => format!("err:{}", err_text(&e)),
        }
    });
    r.unwrap_or_else(|p| format!("panic:{}", p))
}

fn lookup_native(k: &Koto, path: &str) -> Option<KValue> {
    let (m, f) = path.split_once('.')?;
    match k.prelude().get(m)? {
        KValue::Map(map) => map.get(f),
        _ => None,
    }
}

fn apply_op(k: &mut Koto, kind: &OpKind, text: &str, args: &[ArgV], mod_dir: &str) -> String {
    match kind {
        OpKind::Run => run_script(k, text, mod_dir),
        OpKind::CallExported => {
            let vals: Vec<KValue> = args.iter().map(|a| a.to_value()).collect();
            kvh::catch(|| match k.call_exported_function(text, &vals[..]) {
                Ok(v) => format!("ok:{}", canon::value(&v)),
                Err(e) => format!("err:{}", err_text(&e)),
            })
            .unwrap_or_else(|p| format!("panic:{}", p))
        }
        OpKind::CallExportedTuple | OpKind::CallExportedSingle => {
            let vals: Vec<KValue> = args.iter().map(|a| a.to_value()).collect();
            let Some(f) = k.exports().get(text) else {
                return "err:no-such-export".into();
            };
            kvh::catch(|| {
                let r = if *kind == OpKind::CallExportedTuple {
                    k.call_function(f, CallArgs::AsTuple(&vals[..]))
                } else {
                    k.call_function(f, CallArgs::Single(vals.first().cloned().unwrap_or(KValue::Null)))
                };
                match r {
                    Ok(v) => format!("ok:{}", canon::value(&v)),
                    Err(e) => format!("err:{}", err_text(&e)),
                }
            })
            .unwrap_or_else(|p| format!("panic:{}", p))
        }
        OpKind::CallNative => {
            let vals: Vec<KValue> = args.iter().map(|a| a.to_value()).collect();
            let Some(f) = lookup_native(k, text) else {
                return "err:no-such-native".into();
            };
            kvh::catch(|| match k.call_function(f, &vals[..]) {
                Ok(v) => format!("ok:{}", canon::value(&v)),
                Err(e) => format!("err:{}", err_text(&e)),
            })
            .unwrap_or_else(|p| format!("panic:{}", p))
        }
        OpKind::CallNonCallable => {
            let vals: Vec<KValue> = args.iter().map(|a| a.to_value()).collect();
            kvh::catch(|| match k.call_function(KValue::Number(7.into()), &vals[..]) {
                Ok(v) => format!("ok:{}", canon::value(&v)),
                Err(e) => format!("err:{}", err_text(&e)),
            })
            .unwrap_or_else(|p| format!("panic:{}", p))
        }
        OpKind::ToString => {
            let path = format!("{}/main.koto", mod_dir);
            kvh::catch(|| {
                let v = match k.compile_and_run(CompileArgs::new(text).script_path(path.as_str())) {
                    Ok(v) => v,
                    Err(e) => return format!("err:run:{}", err_text(&e)),
                };
                match k.value_to_string(v) {
                    Ok(s) => format!("ok:s{}", kvh::hex(s.as_bytes())),
                    Err(e) => format!("err:{}", err_text(&e)),
                }
            })
            .unwrap_or_else(|p| format!("panic:{}", p))
        }
    }
}

fn exports_canon(k: &Koto) -> String {
    kvh::catch(|| {
        let mut s = canon::value(&KValue::Map(k.exports().clone()));
        // meta entries (tests) by name
        if let Some(meta) = k.exports().meta_map() {
            let mut names: Vec<String> = meta.borrow().keys().map(|key| match key {
                MetaKey::Test(n) => format!("test:{}", n),
                MetaKey::Named(n) => format!("named:{}", n),
                MetaKey::Main => "main".to_string(),
                MetaKey::PreTest => "pre_test".to_string(),
                MetaKey::PostTest => "post_test".to_string(),
                _ => "other".to_string(),
            }).collect();
            names.sort();
            s.push_str(&format!(" meta[{}]", names.join(",")));
        }
        s
    })
    .unwrap_or_else(|p| format!("panic:{}", p))
}

fn run_probes(k: &mut Koto, mod_dir: &str) -> Vec<String> {
    let mut out = vec![];
    for (name, p) in PROBES {
        out.push(format!("{}={}", name, run_script(k, p, mod_dir)));
    }
    // host-initiated call of an exported function, if the setup op exported it
    if k.exports().get("pf").is_some() {
        let r = apply_op(k, &OpKind::CallExported, "pf", &[ArgV::I(4), ArgV::I(2)], mod_dir);
        out.push(format!("pf={}", r));
    }
    let v = KValue::Tuple(vec![KValue::Number(1.into()), KValue::Str("x".into())].into());
    out.push(format!(
        "display={}",
        kvh::catch(|| k.value_to_string(v).map_err(|e| err_text(&e))).unwrap_or_else(|p| Err(format!("panic:{}", p))).unwrap_or_else(|e| e)
    ));
    out
}

/// hook H5: the generator VMs reachable from the exports (directly, or as values of the exported
/// `reg` map)
fn reachable_generators(k: &Koto) -> Vec<(String, (usize, usize, usize, usize, usize))> {
    let name = |v: &KValue| match v {
        KValue::Str(s) => s.as_str().to_string(),
        _ => String::new(),
    };
    kvh::catch(|| {
        let mut out = vec![];
        for (key, v) in k.exports().data().iter() {
            match v {
                KValue::Iterator(i) => {
                    if let Some(sz) = i.verif_generator_stack_sizes() {
                        out.push((format!("export:{}", name(key.value())), sz));
                    }
                }
                KValue::Map(m) if name(key.value()) == "reg" => {
                    for (k2, v2) in m.data().iter() {
                        if let KValue::Iterator(i) = v2 {
                            if let Some(sz) = i.verif_generator_stack_sizes() {
                                out.push((format!("reg:{}", name(k2.value())), sz));
                            }
                        }
                    }
                }
                _ => {}
            }
        }
        out
    })
    .unwrap_or_default()
}

fn exec_history(h: &History, probe_every: bool) -> HistOut {
    let mut l = new_instance(h.limit_ms);
    let mut r = new_instance(h.limit_ms);
    let mut steps = vec![];
    for op in &h.ops {
        let out = apply_op(&mut l, &op.kind, &op.text, &op.args, &h.mod_dir);
        let ref_out = match &op.ref_text {
            Some(t) => {
                if t.is_empty() {
                    "ok:skipped".to_string()
                } else {
                    apply_op(&mut r, &OpKind::Run, t, &[], &h.mod_dir)
                }
            }
            None => apply_op(&mut r, &op.kind, &op.text, &op.args, &h.mod_dir),
        };
        let snap = l.verif_stack_sizes();
        let ref_snap = r.verif_stack_sizes();
        let (probes, ref_probes) = if probe_every || op.failing() {
            (run_probes(&mut l, &h.mod_dir), run_probes(&mut r, &h.mod_dir))
        } else {
            (vec![], vec![])
        };
        steps.push(StepOut {
            snap,
            ref_snap,
            out,
            ref_out,
            exports: exports_canon(&l),
            ref_exports: exports_canon(&r),
            probes,
            ref_probes,
            gens: reachable_generators(&l),
        });
    }
    // a truly fresh instance performing only the completed effects
    let mut f = new_instance(h.limit_ms);
    for op in &h.ops {
        match &op.ref_text {
            Some(t) if t.is_empty() => {}
            Some(t) => {
                apply_op(&mut f, &OpKind::Run, t, &[], &h.mod_dir);
            }
            None => {
                apply_op(&mut f, &op.kind, &op.text, &op.args, &h.mod_dir);
            }
        }
    }
    let fresh_probes = run_probes(&mut f, &h.mod_dir);
    let final_probes = run_probes(&mut l, &h.mod_dir);
    HistOut { steps, fresh_probes, fresh_exports: exports_canon(&f), final_probes }
}

// ------------------------------------------------------------------------------------------------
// generator

struct FailKind {
    name: &'static str,
    /// statement that fails when executed
    stmt: String,
    /// events of that statement inside an interpreter loop
    events: &'static str,
    msg: String,
    /// false: must not be wrapped in try/catch (F-C04-3: catching a wrong-arg-count error panics)
    catch_ok: bool,
}

fn fail_kind(i: usize, k: usize) -> FailKind {
    match i {
        0 => FailKind { name: "throw", stmt: format!("throw 'boom_{k}'"), events: "raise:1", msg: format!("boom_{k}"), catch_ok: true },
        1 => FailKind { name: "type", stmt: format!("ty_{k} = 1 + null"), events: "raise:1", msg: "unable to perform operation".into(), catch_ok: true },
        2 => FailKind { name: "index", stmt: format!("ix_{k} = 'abc'[10]"), events: "raise:1", msg: "index out of bounds".into(), catch_ok: true },
        3 => FailKind { name: "assert", stmt: "assert false".into(), events: "cn:3 nr:0", msg: "ssertion failed".into(), catch_ok: true },
        4 => FailKind { name: "hint", stmt: format!("let h_{k}: String = 42"), events: "raise:1", msg: "xpected String".into(), catch_ok: true },
        _ => FailKind {
            name: "argcount",
            stmt: format!("(|a_{k}, b_{k}| a_{k})(1)"),
            events: "raise:1",
            msg: "nsufficient arguments".into(),
            catch_ok: false,
        },
    }
}
const N_FAIL_KINDS: usize = 6;

struct Carrier {
    name: &'static str,
    defs: String,
    trigger: String,
    /// events of defs + trigger up to (and including) the failure events
    events: String,
    /// open builders at the failure point (seq, str)
    builders: (u32, u32),
}

fn indent(s: &str, n: usize) -> String {
    let pad = " ".repeat(n);
    s.lines().map(|l| format!("{pad}{l}")).collect::<Vec<_>>().join("\n")
}

fn carrier(i: usize, fk: &FailKind) -> Carrier {
    let f = &fk.stmt;
    let fe = fk.events;
    match i {
        0 => Carrier { name: "top", defs: String::new(), trigger: f.clone(), events: fe.into(), builders: (0, 0) },
        1 => Carrier {
            name: "nested-calls",
            defs: format!("f1 = ||\n{}\nf2 = |x|\n  f1()\nf3 = |a, b|\n  f2 a", indent(f, 2)),
            trigger: "f3 1, 2".into(),
            events: format!("call:3:2 nf:4 call:2:1 nf:3 call:2:0 nf:2 {fe}"),
            builders: (0, 0),
        },
        2 => Carrier {
            name: "fold",
            defs: format!("cb = |a, x|\n{}", indent(f, 2)),
            trigger: "[1, 2, 3].fold 0, cb".into(),
            events: format!("ss se cn:4 enter:1:2:k2 nf:4 {fe} nr:0"),
            builders: (0, 0),
        },
        3 => Carrier {
            name: "sort",
            defs: format!("cb = |x|\n{}", indent(f, 2)),
            trigger: "[3, 1, 2].sort cb".into(),
            events: format!("ss se cn:4 enter:1:1:k1 nf:3 {fe} nr:0"),
            builders: (0, 0),
        },
        4 => Carrier {
            name: "each",
            defs: format!("cb = |x|\n{}", indent(f, 2)),
            trigger: "[1, 2, 3].each(cb).to_list()".into(),
            events: "ss se cn:4 nr:1 cn:3 nr:0".into(),
            builders: (0, 0),
        },
        5 => Carrier {
            name: "keep",
            defs: format!("cb = |x|\n{}", indent(f, 2)),
            trigger: "(1, 2, 3).keep(cb).to_list()".into(),
            events: "cn:4 nr:1 cn:3 nr:0".into(),
            builders: (0, 0),
        },
        6 => Carrier {
            name: "generator",
            defs: format!("gen = ||\n  yield 1\n{}", indent(f, 2)),
            trigger: "for x in gen()\n  x".into(),
            events: "cn:3 nr:1 raise:1".into(),
            builders: (0, 0),
        },
        7 => Carrier {
            name: "list-literal",
            defs: format!("ff = ||\n{}", indent(f, 2)),
            trigger: "[1, 2, ff()]".into(),
            events: format!("ss call:4:0 nf:2 {fe}"),
            builders: (1, 0),
        },
        8 => Carrier {
            name: "tuple-literal",
            defs: format!("ff = ||\n{}", indent(f, 2)),
            trigger: "(1, ff())".into(),
            events: format!("ss call:4:0 nf:2 {fe}"),
            builders: (1, 0),
        },
        9 => Carrier {
            name: "map-literal",
            defs: format!("ff = ||\n{}", indent(f, 2)),
            trigger: "{a: 1, b: ff()}".into(),
            events: format!("call:4:0 nf:2 {fe}"),
            builders: (0, 0),
        },
        10 => Carrier {
            name: "interpolation",
            defs: format!("ff = ||\n{}", indent(f, 2)),
            trigger: "\"a {ff()} b\"".into(),
            events: format!("rs call:4:0 nf:2 {fe}"),
            builders: (0, 1),
        },
        11 => Carrier {
            name: "list+interpolation",
            defs: format!("ff = ||\n{}", indent(f, 2)),
            trigger: "[1, \"x{ff()}\", 3]".into(),
            events: format!("ss rs call:4:0 nf:2 {fe}"),
            builders: (1, 1),
        },
        12 => Carrier {
            name: "op-add",
            defs: format!("o =\n  @+: |other|\n{}", indent(f, 4)),
            trigger: "o + 1".into(),
            events: format!("nest:1:1 nf:3 {fe}"),
            builders: (0, 0),
        },
        13 => Carrier {
            name: "op-less",
            defs: format!("o =\n  @<: |other|\n{}", indent(f, 4)),
            trigger: "o < 1".into(),
            events: format!("nest:1:1 nf:3 {fe}"),
            builders: (0, 0),
        },
        14 => Carrier {
            name: "display-in-interpolation",
            defs: format!("o =\n  @display: ||\n{}", indent(f, 4)),
            trigger: "\"d={o}\"".into(),
            events: format!("rs eop:2:0:k0 nf:2 {fe}"),
            builders: (0, 1),
        },
        15 => Carrier {
            name: "interp-in-list-in-fold-callback",
            defs: format!("ff = ||\n{}\ncb = |a, x|\n  [a, \"v{{ff()}}\"]", indent(f, 2)),
            trigger: "[1, (2, \"z{[1, 2].fold 0, cb}\")]".into(),
            events: format!("ss ss rs ss se cn:5 enter:1:2:k2 nf:4 ss rs call:4:0 nf:2 {fe} nr:0"),
            builders: (3, 2),
        },
        16 => Carrier {
            name: "deep-literal-nesting",
            defs: format!("ff = ||\n{}\ng1 = |x|\n  (x, [x, \"{{x}}-{{ff()}}\"])\ng2 = |x|\n  \"<{{g1 x}}>\"\ng3 = ||\n  [[g2 1], 2]", indent(f, 2)),
            trigger: "\"top {g3()}\"".into(),
            events: format!("rs call:3:0 nf:3 ss ss call:4:1 nf:4 rs call:4:1 nf:5 ss ss rs re rs call:5:0 nf:2 {fe}"),
            builders: (4, 3),
        },
        17 => Carrier {
            name: "generator-inside-interpolation",
            defs: format!("gen = ||\n  yield 1\n{}", indent(f, 2)),
            trigger: "[0, \"g={gen().to_tuple()}\"]".into(),
            events: "ss rs cn:4 nr:1 cn:4 nr:0".into(),
            builders: (1, 1),
        },
        _ => Carrier {
            name: "list-in-nested-call",
            defs: format!("ff = ||\n{}\ng1 = |x|\n  [x, ff()]\ng2 = ||\n  (0, g1 5)", indent(f, 2)),
            trigger: "g2()".into(),
            events: format!("call:3:0 nf:3 ss call:4:1 nf:4 ss call:4:0 nf:2 {fe}"),
            builders: (2, 0),
        },
    }
}
const N_CARRIERS: usize = 19;

/// Effects performed before the failure point (also the whole of the reference script).
fn effects(rng: &mut Rng, k: usize) -> (String, String) {
    let mut s = String::new();
    let mut ev = String::new();
    if rng.chance(2, 3) {
        s.push_str(&format!("export e_{k} = {}\n", k * 7 + 1));
        ev.push_str(&format!("ex:{} ", k));
    }
    if rng.chance(1, 2) {
        s.push_str(&format!("acc.push {k}\n"));
        ev.push_str("cn:3 nr:1 ");
    }
    if rng.chance(1, 4) {
        s.push_str(&format!("reg.insert 'k{k}', {k}\n"));
        ev.push_str("cn:4 nr:1 ");
    }
    (s, ev)
}

const TEST_EVENTS: &str = "enter:1:0:k0 nf:3 cn:3 nr:1 ret";

fn setup_op() -> Op {
    Op {
        kind: OpKind::Run,
        text: "export acc = []\nexport reg = {}\nexport pf = |a, b| a * 10 + b\nexport pthrow = |x|\n  throw \"pf-boom-{x}\"\nexport plist = |x|\n  [1, x, pthrow x]\nexport pdeep = |x|\n  [1, 2, 3].fold 0, |a, y| pthrow y\nexport pgen = ||\n  yield 1\n  yield 2\nexport fp = |a, b| a\nexport fv = |a, b...| size b\nexport fu = |(a, b...)| a\nexport fo = |a, b = 2| (a, b)\nexport fs = |a| a\n".into(),
        ref_text: None,
        args: vec![],
        events: "enter:0:0:k0 nf:8 ss se ex:1000 ex:1001 ex:1002 ex:1003 ex:1004 ex:1005 ex:1006 ex:1007 ex:1008 ex:1009 ex:1010 ex:1011 ret".into(),
        runs_tests: true,
        expect: "ok".into(),
        err_contains: None,
        ok_value: None,
        residue_class: String::new(),
        adds_tests: 0,
        gen_check: None,
        tags: vec!["setup".into()],
    }
}

fn gen_run_op(rng: &mut Rng, k: usize, allow_import: bool) -> Op {
    let (eff, eff_ev) = effects(rng, k);
    let choice = rng.weighted(&[10, 45, 25, 4, 6, if allow_import { 10 } else { 0 }, 6]);
    match choice {
        0 => {
            // succeeding script
            let body = format!("{eff}x = {k}\ny = [x, x + 1, \"{{x}}\"]\nsize y\n");
            Op {
                kind: OpKind::Run,
                text: body,
                ref_text: None,
                args: vec![],
                events: format!("enter:0:0:k0 nf:8 {eff_ev}ss rs re se cn:3 nr:1 ret"),
                runs_tests: true,
                expect: "ok".into(),
                err_contains: None,
                ok_value: None,
                residue_class: String::new(),
                adds_tests: 0,
                gen_check: None,
                tags: vec!["run-ok".into()],
            }
        }
        1 => {
            // uncaught failure through a carrier
            let fk = fail_kind(rng.below(N_FAIL_KINDS), k);
            let ca = carrier(rng.below(N_CARRIERS), &fk);
            let text = format!("{eff}{}\n{}\n", ca.defs, ca.trigger);
            let builder = ca.builders != (0, 0);
            Op {
                kind: OpKind::Run,
                text,
                ref_text: Some(if eff.is_empty() { "null".into() } else { eff.clone() }),
                args: vec![],
                events: format!("enter:0:0:k0 nf:8 {eff_ev}{}", ca.events),
                runs_tests: false,
                expect: "err".into(),
                err_contains: if ca.name == "generator" || ca.name == "generator-inside-interpolation" || ca.name == "each" || ca.name == "keep" || fk.name != "throw" { None } else { Some(fk.msg.clone()) },
                ok_value: None,
                residue_class: if builder { "builder".into() } else { String::new() },
                adds_tests: 0,
                gen_check: None,
                tags: vec!["run-fail".into(), format!("kind={}", fk.name), format!("carrier={}", ca.name), "catch=no".into()],
            }
        }
        2 => {
            // failure caught by an enclosing try/catch that recovers; the run succeeds
            let mut fk = fail_kind(rng.below(N_FAIL_KINDS), k);
            if !fk.catch_ok {
                fk = fail_kind(0, k);
            }
            let ca = carrier(rng.below(N_CARRIERS), &fk);
            let text = format!("{eff}{}\nr_{k} = try\n{}\ncatch e\n  'caught'\nr_{k}\n", ca.defs, indent(&ca.trigger, 2));
            let builder = ca.builders != (0, 0);
            Op {
                kind: OpKind::Run,
                text,
                ref_text: None,
                args: vec![],
                events: format!("enter:0:0:k0 nf:8 {eff_ev}ts:1:90 {} te ret", ca.events),
                runs_tests: true,
                expect: "ok".into(),
                err_contains: None,
                ok_value: Some(format!("ok:s{}", kvh::hex(b"caught"))),
                residue_class: if builder { "builder".into() } else { String::new() },
                adds_tests: 0,
                gen_check: None,
                tags: vec!["run-caught".into(), format!("kind={}", fk.name), format!("carrier={}", ca.name), "catch=yes".into()],
            }
        }
        3 => Op {
            kind: OpKind::Run,
            text: format!("{eff}x = = {k}\n"),
            ref_text: Some(String::new()),
            args: vec![],
            events: String::new(),
            runs_tests: false,
            expect: "compile".into(),
            err_contains: None,
            ok_value: None,
            residue_class: String::new(),
            adds_tests: 0,
            gen_check: None,
            tags: vec!["compile-error".into()],
        },
        4 => {
            // a failing exported test: the script body completes, run_tests then fails once
            let text = format!(
                "{eff}export armed_{k} = [1]\n@test t_{k} = ||\n  if (size armed_{k}) > 0\n    armed_{k}.clear()\n    assert false\n"
            );
            let reft = format!("{eff}export armed_{k} = []\n@test t_{k} = ||\n  if (size armed_{k}) > 0\n    armed_{k}.clear()\n    assert false\n");
            Op {
                kind: OpKind::Run,
                text,
                ref_text: Some(reft),
                args: vec![],
                events: format!("enter:0:0:k0 nf:8 {eff_ev}ss se ex:{} ex:{} ret", 2000 + k, 3000 + k),
                runs_tests: true, // previously exported tests pass; the new one is appended below
                expect: "err".into(),
                err_contains: Some(format!("t_{k}")),
                ok_value: None,
                residue_class: String::new(),
                adds_tests: 1,
                gen_check: None,
                tags: vec!["failed-test".into()],
            }
        }
        5 => gen_import_op(rng, k, &eff, &eff_ev),
        _ => {
            // a `yield` at the top level of the chunk ends the run with the yielded value (fix 20565a0:
            // the chunk's frame is popped as on a Return); code after it never runs
            let (body, value, ev) = match rng.below(4) {
                0 => (format!("yield {k}\nexport never_{k} = 1\n"), format!("ok:i{k}"), "ret".to_string()),
                1 => (format!("x = [1, 2, (yield {k})]\nexport never_{k} = x\n"), format!("ok:i{k}"), "ss ret".to_string()),
                2 => (format!("y = \"a{{(yield {k})}}b\"\nexport never_{k} = y\n"), format!("ok:i{k}"), "rs ret".to_string()),
                _ => (format!("r = try\n  yield {k}\n  throw 'after'\ncatch e\n  'caught'\nr\n"), format!("ok:i{k}"), "ts:1:90 ret".to_string()),
            };
            Op {
                kind: OpKind::Run,
                text: format!("{eff}{body}"),
                ref_text: None,
                args: vec![],
                events: format!("enter:0:0:k0 nf:8 {eff_ev}{ev}"),
                runs_tests: true,
                expect: "ok".into(),
                err_contains: None,
                ok_value: Some(value),
                residue_class: String::new(),
                adds_tests: 0,
                gen_check: None,
                tags: vec!["top-level-yield".into()],
            }
        }
    }
}

const MODULES: &[(&str, &str, u32)] = &[
    ("c07_ok", "export value = 41\nexport twice = |x| x * 2\n", 1),
    ("c07_bad_throw", "export a = 1\nthrow 'modfail-throw'\n", 2),
    ("c07_bad_test", "export a = 1\n@test always = ||\n  assert false\n", 3),
    ("c07_bad_main", "export a = 1\n@main = ||\n  throw 'modfail-main'\n", 4),
    ("c07_bad_compile", "export a = = 1\n", 5),
    ("c07_bad_nested", "export b = 2\nimport c07_bad_throw\nexport c = 3\n", 6),
    ("c07_bad_list", "ff = ||\n  throw 'modfail-list'\nexport a = [1, ff()]\n", 7),
];

fn gen_import_op(rng: &mut Rng, k: usize, eff: &str, eff_ev: &str) -> Op {
    let (name, _, id) = MODULES[rng.below(MODULES.len())];
    let caught = rng.chance(1, 3) && name != "c07_ok";
    let (mod_events, ok, msg, class): (String, bool, Option<&str>, &str) = match name {
        "c07_ok" => (format!("ib:{id} enter:0:0:k0 nf:3 ex:500 ex:501 ret ie:1"), true, None, ""),
        "c07_bad_throw" => (format!("ib:{id} enter:0:0:k0 nf:3 ex:500 raise:1 ie:0"), false, Some("modfail-throw"), ""),
        "c07_bad_test" => (
            format!("ib:{id} enter:0:0:k0 nf:3 ex:500 ex:501 ret enter:1:0:k0 nf:2 cn:2 nr:0 ie:0"),
            false,
            Some("always"),
            "",
        ),
        "c07_bad_main" => (
            format!("ib:{id} enter:0:0:k0 nf:3 ex:500 ex:501 ret enter:1:0:k0 nf:2 raise:1 ie:0"),
            false,
            Some("modfail-main"),
            "",
        ),
        "c07_bad_compile" => ("raise:1".to_string(), false, None, ""),
        "c07_bad_nested" => (
            format!("ib:{id} enter:0:0:k0 nf:3 ex:500 ib:2 enter:0:0:k0 nf:3 ex:500 raise:1 ie:0 ie:0"),
            false,
            Some("modfail-throw"),
            "",
        ),
        _ => (
            format!("ib:{id} enter:0:0:k0 nf:3 ss call:3:0 nf:2 raise:1 ie:0"),
            false,
            Some("modfail-list"),
            "builder",
        ),
    };
    if ok {
        return Op {
            kind: OpKind::Run,
            text: format!("{eff}import {name}\n{name}.twice {name}.value\n"),
            ref_text: None,
            args: vec![],
            events: format!("enter:0:0:k0 nf:8 {eff_ev}{mod_events} call:3:1 nf:3 ret ret"),
            runs_tests: true,
            expect: "ok".into(),
            err_contains: None,
            ok_value: None,
            residue_class: String::new(),
            adds_tests: 0,
            gen_check: None,
            tags: vec!["import-ok".into()],
        };
    }
    if caught {
        Op {
            kind: OpKind::Run,
            text: format!("{eff}r_{k} = try\n  import {name}\n  'imported'\ncatch e\n  'caught'\nr_{k}\n"),
            ref_text: None,
            args: vec![],
            events: format!("enter:0:0:k0 nf:8 {eff_ev}ts:1:90 {mod_events} te ret"),
            runs_tests: true,
            expect: "ok".into(),
            err_contains: None,
            ok_value: None,
            residue_class: class.into(),
            adds_tests: 0,
            gen_check: None,
            tags: vec!["import-fail".into(), format!("module={name}"), "catch=yes".into()],
        }
    } else {
        Op {
            kind: OpKind::Run,
            text: format!("{eff}import {name}\nexport after_{k} = 1\n"),
            ref_text: Some(if eff.is_empty() { "null".into() } else { eff.to_string() }),
            args: vec![],
            events: format!("enter:0:0:k0 nf:8 {eff_ev}{mod_events}"),
            runs_tests: false,
            expect: "err".into(),
            err_contains: msg.map(|s| s.to_string()),
            ok_value: None,
            residue_class: class.into(),
            adds_tests: 0,
            gen_check: None,
            tags: vec!["import-fail".into(), format!("module={name}"), "catch=no".into()],
        }
    }
}

fn gen_call_op(rng: &mut Rng, _k: usize) -> Op {
    let mk = |kind: OpKind, text: &str, args: Vec<ArgV>, events: &str, expect: &str, msg: Option<&str>, class: &str, tag: &str| Op {
        kind,
        text: text.into(),
        ref_text: if expect == "ok" { None } else { Some(String::new()) },
        args,
        events: events.into(),
        runs_tests: false,
        expect: expect.into(),
        err_contains: msg.map(|s| s.to_string()),
        ok_value: None,
        residue_class: class.into(),
        adds_tests: 0,
        gen_check: None,
        tags: vec![tag.into()],
    };
    match rng.weighted(&[14, 10, 8, 6, 8, 8, 8, 4, 4, 6, 4]) {
        0 => mk(OpKind::CallExported, "pf", vec![ArgV::I(rng.range(0, 9)), ArgV::I(rng.range(0, 9))], "enter:1:2:k2 nf:4 ret", "ok", None, "", "call-koto-ok"),
        1 => mk(OpKind::CallExported, "pthrow", vec![ArgV::I(rng.range(0, 9))], "enter:1:1:k1 nf:3 rs re raise:1", "err", Some("pf-boom"), "", "call-koto-throws"),
        2 => mk(OpKind::CallExported, "plist", vec![ArgV::I(rng.range(0, 9))], "enter:1:1:k1 nf:5 ss call:4:1 nf:3 rs re raise:1", "err", Some("pf-boom"), "builder", "call-koto-throws-in-list"),
        3 => mk(OpKind::CallExported, "pdeep", vec![ArgV::I(1)], "enter:1:1:k1 nf:5 ss se cn:4 enter:1:2:k2 nf:4 call:3:1 nf:3 rs re raise:1 nr:0", "err", Some("pf-boom"), "", "call-koto-throws-in-callback"),
        4 => mk(OpKind::CallNative, "number.abs", vec![ArgV::I(-rng.range(0, 9))], "enter:1:1:n nr:1", "ok", None, "", "call-native-ok"),
        5 => mk(OpKind::CallNative, "number.abs", vec![ArgV::S("x".into())], "enter:1:1:n nr:0", "err", None, "native-err", "call-native-err"),
        6 => {
            // wrong argument count for a Koto function: call_callable fails during argument setup
            if rng.chance(1, 2) {
                mk(OpKind::CallExported, "pf", vec![ArgV::I(1)], "enter:1:1:f", "err", Some("nsufficient arguments"), "call-setup", "call-koto-too-few-args")
            } else {
                mk(OpKind::CallExported, "pf", vec![ArgV::I(1), ArgV::I(2), ArgV::I(3)], "enter:1:3:f", "err", Some("oo many arguments"), "call-setup", "call-koto-too-many-args")
            }
        }
        7 => mk(OpKind::CallNonCallable, "", vec![ArgV::I(1)], "", "err", None, "", "call-non-callable"),
        8 => mk(OpKind::CallExported, "no_such_function", vec![], "", "err", None, "", "call-missing"),
        9 => mk(OpKind::CallNative, "string.to_number", vec![ArgV::Null, ArgV::I(3), ArgV::I(4)], "enter:1:3:n nr:0", "err", None, "native-err", "call-native-err-3args"),
        _ => mk(OpKind::CallExported, "pgen", vec![], "", "err", Some("found Generator"), "", "call-generator-not-callable"),
    }
}

fn gen_tostring_op(rng: &mut Rng, k: usize) -> Op {
    let (script, expect, tag) = match rng.below(4) {
        0 => (format!("[{k}, 'a', (1, 2)]"), "ok", "display-plain"),
        1 => ("o =\n  @display: || 'shown'\no".to_string(), "ok", "display-koto-ok"),
        2 => ("o =\n  @display: ||\n    throw 'disp-boom'\no".to_string(), "err", "display-koto-throws"),
        _ => ("o =\n  @display: ||\n    throw 'disp-boom'\n[1, [o], 2]".to_string(), "err", "display-nested-throws"),
    };
    Op {
        kind: OpKind::ToString,
        text: script,
        ref_text: None, // value_to_string has no effect on the instance: R performs it too
        args: vec![],
        events: "enter:0:0:k0 nf:4 ret".into(),
        runs_tests: true,
        expect: expect.into(),
        err_contains: if expect == "err" { Some("disp-boom".into()) } else { None },
        ok_value: None,
        residue_class: String::new(),
        adds_tests: 0,
        gen_check: None,
        tags: vec![tag.into()],
    }
}


// ------------------------------------------------------------------------------------------------
// generators that outlive the run in which they failed
//
// A generator runs in its own VM (spawn_shared_vm) whose bottom frame has no execution barrier: an
// error that escapes the generator's body must pop *all* of its frames (Model: `genResume`,
// theorem C07.generator_escaped_error_finishes), so the generator is finished. When the generator
// value is still reachable afterwards (exported / stored in an exported container / captured by an
// exported function) a later script or host call that asks it for another value must see the end
// of the iteration (`null`, `()`), exactly as on an instance that performed only the completed
// effects — never a resumption past the failure point.

#[derive(Clone, Debug)]
struct LiveGen {
    /// expression that evaluates to the iterator in a later script (None: only reachable through `nx`)
    access: Option<String>,
    /// exported zero-argument function that calls `.next()` on the captured generator
    nx: Option<String>,
}

fn gen_body(k: usize, yields: usize, fail: Option<&str>) -> String {
    let mut s = format!("gen_{k} = ||\n");
    for i in 1..=yields {
        s.push_str(&format!("  yield {i}\n"));
    }
    match fail {
        Some(f) => {
            s.push_str(&indent(f, 2));
            s.push_str("\n  yield 100\n  yield 101\n");
        }
        None => {
            if yields == 0 {
                s.push_str("  return\n  yield 0\n");
            }
        }
    }
    s
}

/// storage: 0 exported, 1 stored in an exported container, 2 captured by an exported function
fn gen_model_request(yields: usize, fail_events: &str) -> String {
    // resumption 1 executes NewFrame and runs to the first yield, …, the last one raises
    let mut groups: Vec<String> = vec![];
    for i in 0..yields {
        groups.push(if i == 0 { "nf:3".to_string() } else { String::new() });
    }
    groups.push(if yields == 0 { format!("nf:3 {fail_events}") } else { fail_events.to_string() });
    format!("gen {}", groups.join(" / "))
}

fn gen_generator_op(k: usize, storage: usize, fail_stmt: &str, fail_name: &str, fail_events: &str, yields: usize, caught: bool, live: &mut Vec<LiveGen>) -> Op {
    let gen_check = match storage {
        0 => Some((format!("export:g_{k}"), gen_model_request(yields, fail_events))),
        1 => Some((format!("reg:g_{k}"), gen_model_request(yields, fail_events))),
        _ => None,
    };
    let (store, iter_expr, lg) = match storage {
        0 => (format!("export g_{k} = gen_{k}()\n"), format!("g_{k}"), LiveGen { access: Some(format!("g_{k}")), nx: None }),
        1 => (
            format!("reg.insert 'g_{k}', gen_{k}()\n"),
            format!("(reg.get 'g_{k}')"),
            LiveGen { access: Some(format!("(reg.get 'g_{k}')")), nx: None },
        ),
        _ => (
            format!("it_{k} = gen_{k}()\nexport nx_{k} = || it_{k}.next()\n"),
            format!("it_{k}"),
            LiveGen { access: None, nx: Some(format!("nx_{k}")) },
        ),
    };
    let drive = format!("for x_{k} in {iter_expr}\n  acc.push x_{k}\n");
    let store_ev = match storage {
        0 => format!("cn:3 nr:1 ex:{} ", 4000 + k),
        1 => "cn:3 nr:1 cn:4 nr:1 ".to_string(),
        _ => format!("cn:3 nr:1 ex:{} ", 5000 + k),
    };
    let pushes = "cn:3 nr:1 ".repeat(yields);
    live.push(lg);
    if caught {
        let text = format!("{}{store}r_{k} = try\n{}catch e\n  'caught'\nr_{k}\n", gen_body(k, yields, Some(fail_stmt)), indent(&drive, 2) + "\n  'finished'\n");
        Op {
            kind: OpKind::Run,
            text,
            ref_text: None,
            args: vec![],
            events: format!("enter:0:0:k0 nf:8 {store_ev}ts:1:90 {pushes}raise:1 te ret"),
            runs_tests: true,
            expect: "ok".into(),
            err_contains: None,
            ok_value: Some(format!("ok:s{}", kvh::hex(b"caught"))),
            residue_class: String::new(),
            adds_tests: 0,
            gen_check: gen_check.clone(),
            tags: vec!["generator-outlives".into(), format!("kind={fail_name}"), format!("gen-storage={storage}"), format!("gen-yields={yields}"), "catch=yes".into()],
        }
    } else {
        let text = format!("{}{store}{drive}", gen_body(k, yields, Some(fail_stmt)));
        // completed effects: the generator yielded `yields` values and is finished
        let reft = format!("{}{store}{drive}", gen_body(k, yields, None));
        Op {
            kind: OpKind::Run,
            text,
            ref_text: Some(reft),
            args: vec![],
            events: format!("enter:0:0:k0 nf:8 {store_ev}{pushes}raise:1"),
            runs_tests: false,
            expect: "err".into(),
            err_contains: None,
            ok_value: None,
            residue_class: String::new(),
            adds_tests: 0,
            gen_check: gen_check.clone(),
            tags: vec!["generator-outlives".into(), format!("kind={fail_name}"), format!("gen-storage={storage}"), format!("gen-yields={yields}"), "catch=no".into()],
        }
    }
}

/// a later request for another value from a generator whose body raised: must be finished
fn gen_next_op(rng: &mut Rng, lg: &LiveGen) -> Op {
    let mk_run = |text: String, value: &str, tag: &str| Op {
        kind: OpKind::Run,
        text,
        ref_text: None,
        args: vec![],
        events: "enter:0:0:k0 nf:4 cn:3 nr:1 ret".into(),
        runs_tests: true,
        expect: "ok".into(),
        err_contains: None,
        ok_value: Some(value.to_string()),
        residue_class: String::new(),
        adds_tests: 0,
        gen_check: None,
        tags: vec!["generator-next-after-failure".into(), tag.into()],
    };
    match (&lg.access, &lg.nx) {
        (Some(a), _) => match rng.below(3) {
            0 => mk_run(format!("{a}.next()\n"), "ok:null", "via=next"),
            1 => mk_run(format!("{a}.to_tuple()\n"), "ok:(t)", "via=to_tuple"),
            _ => mk_run(format!("n = 0\nfor x in {a}\n  n += 1\nn\n"), "ok:i0", "via=for"),
        },
        (None, Some(nx)) => {
            if rng.chance(1, 2) {
                Op {
                    kind: OpKind::CallExported,
                    text: nx.clone(),
                    ref_text: None,
                    args: vec![],
                    events: "enter:1:0:k0 nf:2 cn:2 nr:1 ret".into(),
                    runs_tests: false,
                    expect: "ok".into(),
                    err_contains: None,
                    ok_value: Some("ok:null".into()),
                    residue_class: String::new(),
                    adds_tests: 0,
                    gen_check: None,
                    tags: vec!["generator-next-after-failure".into(), "via=host-call".into()],
                }
            } else {
                mk_run(format!("{nx}()\n"), "ok:null", "via=captured-fn")
            }
        }
        _ => mk_run("null\n".into(), "ok:null", "via=none"),
    }
}


/// the callee recovers from an error raised inside its own list literal / interpolation while the
/// caller is itself building a string and a list (F-C04-4 shape; wrong before fix 97373d1)
fn gen_recover_op(rng: &mut Rng, k: usize) -> Op {
    let fk = {
        let mut fk = fail_kind(rng.below(N_FAIL_KINDS), k);
        if !fk.catch_ok {
            fk = fail_kind(0, k);
        }
        fk
    };
    let (body, expect) = match rng.below(3) {
        0 => ("\"prefix {g()} suffix\"".to_string(), format!("ok:s{}", kvh::hex(b"prefix recovered suffix"))),
        1 => (
            "[10, \"a{g()}b\", [g(), 20]]".to_string(),
            format!("ok:(l i10 s{} (l s{} i20))", kvh::hex(b"arecoveredb"), kvh::hex(b"recovered")),
        ),
        _ => (
            "x = \"<{size [1, \"{g()}\"]}|{g()}>\"\nx".to_string(),
            format!("ok:s{}", kvh::hex(b"<2|recovered>")),
        ),
    };
    let inner = if rng.chance(1, 2) { "return \"inner {ff()}\"" } else { "return [7, \"i{ff()}\", 8]" };
    Op {
        kind: OpKind::Run,
        text: format!("ff = ||\n{}\ng = ||\n  try\n    {inner}\n  catch e\n    return 'recovered'\n{body}\n", indent(&fk.stmt, 2)),
        ref_text: None,
        args: vec![],
        events: format!("enter:0:0:k0 nf:8 rs call:3:0 nf:4 ts:1:9 rs call:3:0 nf:2 {} te ret re ret", fk.events),
        runs_tests: true,
        expect: "ok".into(),
        err_contains: None,
        ok_value: Some(expect),
        residue_class: String::new(),
        adds_tests: 0,
        gen_check: None,
        tags: vec!["callee-recovers-inside-callers-builder".into(), format!("kind={}", fk.name)],
    }
}


// ------------------------------------------------------------------------------------------------
// operations whose outcome is taken from a fresh instance (the property's own reference): the
// generator runs the operation once on a new runtime (after the setup script) and records the
// outcome as the expectation for the long-lived instance.

fn outcome_on_fresh(op: &Op, mod_dir: &str) -> String {
    let mut k = new_instance(0);
    let setup = setup_op();
    let _ = apply_op(&mut k, &setup.kind, &setup.text, &setup.args, mod_dir);
    apply_op(&mut k, &op.kind, &op.text, &op.args, mod_dir)
}

fn finish_by_fresh(mut op: Op, mod_dir: &str, ok_events: &str, err_events: &str) -> Op {
    let out = outcome_on_fresh(&op, mod_dir);
    let class = out.split(':').next().unwrap_or("").to_string();
    if class == "ok" {
        op.expect = "ok".into();
        op.ok_value = Some(out);
        op.ref_text = None;
        op.events = ok_events.into();
    } else {
        // (a panic on a fresh instance is not a leftover-state defect; it is reported by C06 —
        // here the operation must then behave the same on the long-lived instance)
        op.expect = class;
        op.err_contains = None;
        op.ref_text = Some(if op.kind == OpKind::Run { "null".into() } else { String::new() });
        op.events = err_events.into();
        op.runs_tests = false;
        op.tags.push(format!("fresh-outcome-class={}", op.expect));
    }
    op
}

const ARG_COUNTS: &[usize] = &[0, 1, 2, 3, 8, 60, 200, 240, 245, 246, 247, 248, 250, 253, 254, 255, 256, 257, 300];

/// host calls with 0..300 arguments of each CallArgs kind on plain / optional / variadic /
/// unpacked-tuple functions (wave-2 report: a 250-value AsTuple call on `|(a, b...)|` left 251
/// registers and made the runtime unusable; repaired by ea3163c)
fn gen_bigcall_op(rng: &mut Rng, mod_dir: &str) -> Op {
    let f = *rng.pick(&["fp", "fv", "fu", "fo", "fs", "pf"]);
    let n = *rng.pick(ARG_COUNTS);
    let kind = match rng.below(3) {
        0 => OpKind::CallExported,
        1 => OpKind::CallExportedTuple,
        _ => OpKind::CallExportedSingle,
    };
    let args: Vec<ArgV> = match kind {
        OpKind::CallExportedSingle => vec![if rng.chance(1, 2) { ArgV::I(n as i64) } else { ArgV::S("s".into()) }],
        _ => (0..n).map(|i| ArgV::I(i as i64)).collect(),
    };
    let kname = match kind {
        OpKind::CallExported => "separate",
        OpKind::CallExportedTuple => "as-tuple",
        _ => "single",
    };
    let nargs = args.len();
    let pre = if kind == OpKind::CallExportedTuple && f == "fu" { 1 + nargs } else { 1 };
    let pushed = match kind {
        OpKind::CallExported => nargs,
        _ => 1,
    };
    let op = Op {
        kind,
        text: f.into(),
        ref_text: None,
        args,
        events: String::new(),
        runs_tests: false,
        expect: "ok".into(),
        err_contains: None,
        ok_value: None,
        residue_class: String::new(),
        adds_tests: 0,
        gen_check: None,
        tags: vec!["host-call-arg-sweep".into(), format!("callargs={kname}"), format!("callee={f}"), format!("nargs={}", if nargs > 240 { ">240".to_string() } else if nargs > 8 { "9..240".to_string() } else { nargs.to_string() })],
    };
    finish_by_fresh(op, mod_dir, &format!("enter:{pre}:{pushed}:k{} nf:4 ret", pushed.min(250)), &format!("enter:{pre}:{pushed}:f"))
}

const NATIVE_META: &[(&str, &str)] = &[
    ("derived-ge", "a = {@<: koto.type, @==: koto.type}\na >= a"),
    ("derived-le", "a = {@<: koto.type, @==: koto.type}\na <= a"),
    ("derived-ne", "a = {@==: koto.type}\na != a"),
    ("less", "a = {@<: koto.type}\na < a"),
    ("less-failing-native", "a = {@<: number.abs}\na < a"),
    ("greater-failing-native", "a = {@>: string.to_number}\na > 1"),
    ("equal", "a = {@==: koto.type}\na == a"),
    ("next-zero-arg", "a = {@next: koto.script_path}\nn = 0\nfor x in a\n  n += 1\n  if n > 3\n    break\nn"),
    ("next-failing-native", "a = {@next: number.abs}\nn = 0\nfor x in a\n  n += 1\n  if n > 3\n    break\nn"),
    ("next-to-tuple", "a = {@next: koto.script_path}\niterator.take(a, 2).to_tuple()"),
    ("add", "a = {@+: koto.type}\na + 1"),
    ("add-failing-native", "a = {@+: number.abs}\na + 1"),
    ("add-assign", "a = {@+=: koto.type}\na += 1\na"),
    ("negate", "a = {@negate: koto.type}\n-a"),
    ("negate-failing-native", "a = {@negate: number.abs}\n-a"),
    ("display", "a = {@display: koto.type}\n\"<{a}>\""),
    ("display-failing-native", "a = {@display: number.abs}\n\"<{a}>\""),
    ("size", "a = {@size: koto.type}\nsize a"),
    ("index", "a = {@index: koto.type}\na[0]"),
    ("call", "a = {@call: koto.type}\na()"),
    ("call-failing-native", "a = {@call: number.abs}\na()"),
    ("in-list", "a = {@<: number.abs, @==: koto.type}\n[1, \"x{a >= a}\"]"),
    ("sort", "a = {@<: koto.type}\n[a, a, a].sort()\n1"),
];

/// native functions under meta keys (wave-2 report: native @< with a derived comparison ended with
/// 'empty call stack' and leaked 6 registers per run; native zero-arg @next panicked; repaired by
/// a04388e)
fn gen_native_meta_op(rng: &mut Rng, k: usize, mod_dir: &str) -> Op {
    let (name, script) = NATIVE_META[rng.below(NATIVE_META.len())];
    let caught = rng.chance(1, 3);
    let text = if caught {
        let mut lines: Vec<&str> = script.lines().collect();
        let last = lines.pop().unwrap_or("null");
        format!("{}\nr_{k} = try\n  {last}\ncatch e\n  'caught'\nr_{k}\n", lines.join("\n"))
    } else {
        format!("{script}\n")
    };
    let op = Op {
        kind: OpKind::Run,
        text,
        ref_text: None,
        args: vec![],
        events: String::new(),
        runs_tests: true,
        expect: "ok".into(),
        err_contains: None,
        ok_value: None,
        residue_class: String::new(),
        adds_tests: 0,
        gen_check: None,
        tags: vec!["native-function-under-meta-key".into(), format!("meta={name}"), format!("catch={}", if caught { "yes" } else { "no" })],
    };
    finish_by_fresh(
        op,
        mod_dir,
        if caught { "enter:0:0:k0 nf:8 ts:1:90 eop:3:1:n nr:1 te ret" } else { "enter:0:0:k0 nf:8 eop:3:1:n nr:1 ret" },
        "enter:0:0:k0 nf:8 eop:3:1:n nr:0",
    )
}


// ------------------------------------------------------------------------------------------------
// completed operations inside a running script leave no bookkeeping behind (bc47dc2: a
// Koto-implemented arithmetic operator left two registers per call in the calling frame — invisible
// after the run, because `run` truncates, but visible from inside through `c07_sizes()` and fatal
// after ~120 iterations). The script measures the VM's stacks before and after N repetitions of an
// operation in the same frame and returns the differences; expected: all zero, every time.

const STEADY_OPS: &[(&str, &str, &str)] = &[
    ("koto-arith-overload", "o = {@+: |other| 7, @-: |other| 1, @*: |other| 2}", "x = o + 1 - 2 * 3"),
    ("koto-arith-assign-overload", "o = {@+=: |other| self}", "o += 1"),
    ("koto-compare-overload", "o = {@<: |other| true, @==: |other| false}", "x = (o < 1, o >= 1, o == 1, o != 1)"),
    ("koto-unary-overloads", "o = {@negate: || 1, @size: || 2, @display: || 'd', @index: |i| i, @call: || 3}", "x = (-o, (size o), \"{o}\", o[1], o())"),
    ("native-meta-keys", "o = {@+: koto.type, @<: koto.type, @display: koto.type}", "x = try\n  (o + 1, \"{o}\")\ncatch e\n  0"),
    ("function-calls", "f = |a, b = 2, c...| a + b + (size c)", "x = f(1) + f(1, 2) + f(1, 2, 3, 4)"),
    ("native-callbacks", "l = [3, 1, 2]", "x = (l.fold(0, |a, b| a + b), l.keep(|v| v > 1).to_tuple(), (koto.copy l).sort().first())"),
    ("generator-iteration", "g = ||\n  yield 1\n  yield 2", "x = g().to_tuple()"),
    ("literals-and-interpolation", "v = 5", "x = [v, (v, \"{v}-{[v, v]}\"), {a: v}]"),
    ("caught-throw", "f = || throw 'e'", "x = try\n  f()\ncatch e\n  0"),
    ("caught-error-in-literal", "f = || throw 'e'", "x = try\n  [1, \"a{f()}\"]\ncatch e\n  0"),
    ("caught-error-in-native-callback", "f = |a, b| throw 'e'", "x = try\n  [1, 2].fold 0, f\ncatch e\n  0"),
    ("caught-error-in-overload", "o = {@+: |other| throw 'e', @<: |other| throw 'e', @display: || throw 'e'}", "x = try\n  o + 1\ncatch e\n  try\n    o < 1\n  catch e2\n    try\n      \"{o}\"\n    catch e3\n      0"),
    ("caught-failed-type-hint", "f = || 1", "x = try\n  let y: String = f()\ncatch e\n  0"),
    ("caught-failing-native", "f = || 1", "x = try\n  number.abs 'x'\ncatch e\n  0"),
    ("cached-import", "import c07_ok", "x = c07_ok.twice c07_ok.value"),
    ("caught-failing-import", "f = || 1", "x = try\n  import c07_bad_throw\ncatch e\n  0"),
];

fn gen_steady_op(rng: &mut Rng, k: usize) -> Op {
    let (name, defs, body) = STEADY_OPS[rng.below(STEADY_OPS.len())];
    let n = *rng.pick(&[1usize, 3, 10, 50, 150, 300]);
    let nested = rng.chance(1, 3);
    let body_i = indent(body, 2);
    let text = if nested {
        // the same inside a function called from a native callback
        format!("{defs}\nrunit = |d|\n  a = c07_sizes()\n  for i in 0..{n}\n{}\n  b = c07_sizes()\n  (b[0] - a[0], b[1] - a[1], b[2] - a[2], b[3] - a[3])\n[0].fold (0, 0, 0, 0), |acc, d| runit d\n", indent(&body_i, 2))
    } else {
        format!("{defs}\na_{k} = c07_sizes()\nfor i in 0..{n}\n{body_i}\nb_{k} = c07_sizes()\n(b_{k}[0] - a_{k}[0], b_{k}[1] - a_{k}[1], b_{k}[2] - a_{k}[2], b_{k}[3] - a_{k}[3])\n")
    };
    Op {
        kind: OpKind::Run,
        text,
        ref_text: None,
        args: vec![],
        events: "enter:0:0:k0 nf:8 cn:3 nr:1 call:3:1 nf:3 ret cn:3 nr:1 ret".into(),
        runs_tests: true,
        expect: "ok".into(),
        err_contains: None,
        ok_value: Some("ok:(t i0 i0 i0 i0)".into()),
        residue_class: String::new(),
        adds_tests: 0,
        gen_check: None,
        tags: vec!["steady-state-inside-run".into(), format!("steady={name}"), format!("iterations={n}"), format!("nested={nested}")],
    }
}


// ------------------------------------------------------------------------------------------------
// F-C07-7 shapes: an overloaded operator / protocol entry whose call fails before its frame is
// pushed, caught N times in the same frame (no successful call in between). The H1 difference must be
// (0, 0, 0, 0) and the caught message the same at every iteration (one distinct message).

/// (name, meta key, statement(s) using `m`, arity of a *wrong* Koto function for that key)
const OVERLOADS: &[(&str, &str, &str, usize)] = &[
    ("add", "@+", "x = m + 1", 2),
    ("subtract", "@-", "x = m - 1", 2),
    ("multiply", "@*", "x = m * 1", 2),
    ("divide", "@/", "x = m / 1", 2),
    ("remainder", "@%", "x = m % 1", 2),
    ("power", "@^", "x = m ^ 1", 2),
    ("less", "@<", "x = m < 1", 2),
    ("less-or-equal", "@<=", "x = m <= 1", 2),
    ("greater", "@>", "x = m > 1", 2),
    ("greater-or-equal", "@>=", "x = m >= 1", 2),
    ("equal", "@==", "x = m == 1", 2),
    ("not-equal", "@!=", "x = m != 1", 2),
    ("add-assign", "@+=", "mm = m\nmm += 1", 2),
    ("subtract-assign", "@-=", "mm = m\nmm -= 1", 2),
    ("multiply-assign", "@*=", "mm = m\nmm *= 1", 2),
    ("divide-assign", "@/=", "mm = m\nmm /= 1", 2),
    ("remainder-assign", "@%=", "mm = m\nmm %= 1", 2),
    ("power-assign", "@^=", "mm = m\nmm ^= 1", 2),
    ("negate", "@negate", "x = -m", 1),
    ("size", "@size", "x = size m", 1),
    ("display", "@display", "x = \"<{m}>\"", 1),
    ("index", "@index", "x = m[0]", 2),
    ("index-assign", "@index_assign", "m[0] = 1", 3),
    ("access", "@access", "x = m.foo", 2),
    ("access-assign", "@access_assign", "m.foo = 1", 3),
    ("call", "@call", "x = m()", 1),
    ("iterator", "@iterator", "for x in m\n  break", 1),
    ("next", "@next", "for x in m\n  break", 1),
    ("next-through-adaptor", "@next", "x = iterator.take(m, 1).to_tuple()", 1),
];

fn setup_failure_value(kind: usize, arity: usize) -> (&'static str, String) {
    match kind {
        0 => {
            let params: Vec<String> = (0..arity).map(|i| format!("p{i}")).collect();
            ("wrong-arity", format!("|{}| 1", params.join(", ")))
        }
        1 => ("not-callable", "1".to_string()),
        _ => ("failing-native", "number.abs".to_string()),
    }
}

/// placement: 0 plain, 1 under a native callback, 2 inside a generator that outlives the run
fn gen_setup_failure_op(rng: &mut Rng, k: usize, oi: usize, kind: usize, n: usize, placement: usize, live: &mut Vec<String>) -> Op {
    let (name, key, stmt, arity) = OVERLOADS[oi % OVERLOADS.len()];
    let (kname, value) = setup_failure_value(kind, arity);
    let _ = rng;
    // no call (and nothing else that truncates the value stack) between two failures: the distinct
    // messages are counted with comparisons only
    let body = format!(
        "last = null\nchanges = 0\nfor i in 0..{n}\n  e_i = try\n{}\n    'no-error'\n  catch e\n    e\n  if e_i != last\n    changes += 1\n    last = e_i",
        indent(stmt, 4)
    );
    let expected = "ok:(t i0 i0 i0 i0 i1)";
    let (text, ok_value) = match placement {
        0 => (
            format!("m = {{{key}: {value}}}\na_{k} = c07_sizes()\n{body}\nb_{k} = c07_sizes()\n(b_{k}[0] - a_{k}[0], b_{k}[1] - a_{k}[1], b_{k}[2] - a_{k}[2], b_{k}[3] - a_{k}[3], changes)\n"),
            expected.to_string(),
        ),
        1 => (
            format!("m = {{{key}: {value}}}\nrunit = |d|\n  a = c07_sizes()\n{}\n  b = c07_sizes()\n  (b[0] - a[0], b[1] - a[1], b[2] - a[2], b[3] - a[3], changes)\n[0].fold null, |acc, d| runit d\n", indent(&body, 2)),
            expected.to_string(),
        ),
        _ => {
            live.push(format!("sg_{k}"));
            (
                format!("gen_{k} = ||\n  m = {{{key}: {value}}}\n  first = null\n  loop\n    a = c07_sizes()\n    if first == null\n      first = a[0]\n{}\n    b = c07_sizes()\n    yield (b[0] - a[0], b[1] - a[1], b[2] - a[2], b[3] - a[3], changes, a[0] - first)\nexport sg_{k} = gen_{k}()\nsg_{k}.next().get()\n", indent(&body, 4)),
                "ok:(t i0 i0 i0 i0 i1 i0)".to_string(),
            )
        }
    };
    let op = Op {
        kind: OpKind::Run,
        text,
        ref_text: None,
        args: vec![],
        events: "enter:0:0:k0 nf:8 cn:3 nr:1 ts:1:90 osf:2 te ts:1:90 osf:2 te cn:3 nr:1 ret".into(),
        runs_tests: true,
        expect: "ok".into(),
        err_contains: None,
        ok_value: Some(ok_value),
        residue_class: String::new(),
        adds_tests: 0,
        gen_check: None,
        tags: vec!["steady-state-inside-run".into(), "operator-setup-failure".into(), format!("overload={name}"), format!("setup-failure={kname}"), format!("iterations={n}"), format!("placement={placement}")],
    };
    op
}

/// a later resumption of a generator created by `gen_setup_failure_op` (placement 2)
fn gen_setup_failure_next_op(name: &str) -> Op {
    Op {
        kind: OpKind::Run,
        text: format!("{name}.next().get()\n"),
        ref_text: None,
        args: vec![],
        events: "enter:0:0:k0 nf:4 cn:3 nr:1 cn:3 nr:1 ret".into(),
        runs_tests: true,
        expect: "ok".into(),
        err_contains: None,
        ok_value: Some("ok:(t i0 i0 i0 i0 i1 i0)".into()),
        residue_class: String::new(),
        adds_tests: 0,
        gen_check: None,
        tags: vec!["steady-state-inside-run".into(), "operator-setup-failure".into(), "placement=generator-resumed-in-a-later-run".into()],
    }
}

fn gen_history(rng: &mut Rng, mod_dir: &str, max_native_err: usize) -> History {
    let n = 5 + rng.below(36);
    let mut ops = vec![setup_op()];
    let mut native_err = 0;
    let mut live: Vec<LiveGen> = vec![];
    let mut steady_gens: Vec<String> = vec![];
    for k in 1..=n {
        let op = match rng.weighted(&[34, 16, 7, 7, if live.is_empty() { 0 } else { 7 }, 5, 7, 7, 8, 8, if steady_gens.is_empty() { 0 } else { 4 }]) {
            0 => gen_run_op(rng, k, true),
            1 => gen_call_op(rng, k),
            2 => gen_tostring_op(rng, k),
            3 => {
                let mut fk = fail_kind(rng.below(N_FAIL_KINDS), k);
                let caught = rng.chance(1, 3);
                if caught && !fk.catch_ok {
                    fk = fail_kind(0, k);
                }
                gen_generator_op(k, rng.below(3), &fk.stmt, fk.name, fk.events, rng.below(4), caught, &mut live)
            }
            4 => {
                let lg = live[rng.below(live.len())].clone();
                gen_next_op(rng, &lg)
            }
            5 => gen_recover_op(rng, k),
            6 => gen_bigcall_op(rng, mod_dir),
            7 => gen_native_meta_op(rng, k, mod_dir),
            8 => gen_steady_op(rng, k),
            9 => {
                let oi = rng.below(OVERLOADS.len());
                let kind = rng.below(3);
                let n = *rng.pick(&[1usize, 3, 10, 50, 150, 300]);
                let placement = rng.below(3);
                gen_setup_failure_op(rng, k, oi, kind, n, placement, &mut steady_gens)
            }
            _ => {
                let g = steady_gens[rng.below(steady_gens.len())].clone();
                gen_setup_failure_next_op(&g)
            }
        };
        // generation filter (F-C07-1): keep the accumulated register residue far from the u8 wrap
        // (only relevant while F-C07-1 is open; `max_native_err` is usize::MAX once it is fixed)
        if op.residue_class == "native-err" || op.residue_class == "call-setup" {
            native_err += 1;
            if native_err > max_native_err {
                continue;
            }
        }
        ops.push(op);
    }
    History { ops, limit_ms: 0, mod_dir: mod_dir.to_string() }
}

/// dedicated sub-history under a small execution limit
fn gen_timeout_history(rng: &mut Rng, mod_dir: &str) -> History {
    let mut ops = vec![setup_op()];
    let n = 3 + rng.below(4);
    for k in 1..=n {
        if rng.chance(1, 3) {
            ops.push(gen_call_op(rng, k));
            continue;
        }
        let (eff, eff_ev) = effects(rng, k);
        let (name, body, ev): (&str, String, String) = match rng.below(5) {
            0 => ("top", "loop\n  x = 1\n".into(), "raise:0".into()),
            1 => ("nested-call", "f = ||\n  n = 0\n  while true\n    n += 1\nf()\n".into(), "call:3:0 nf:3 raise:0".into()),
            2 => ("try-same-entry", "r = try\n  loop\n    x = 1\ncatch e\n  'swallowed'\nr\n".into(), "ts:1:90 raise:0".into()),
            3 => ("fold-callback", "cb = |a, x|\n  loop\n    y = 1\n[1, 2].fold 0, cb\n".into(), "ss se cn:4 enter:1:2:k2 nf:3 raise:0 nr:0".into()),
            _ => ("in-list", "ff = ||\n  loop\n    y = 1\n[1, ff()]\n".into(), "ss call:4:0 nf:2 raise:0".into()),
        };
        ops.push(Op {
            kind: OpKind::Run,
            text: format!("{eff}{body}"),
            ref_text: Some(if eff.is_empty() { "null".into() } else { eff.clone() }),
            args: vec![],
            events: format!("enter:0:0:k0 nf:8 {eff_ev}{ev}"),
            runs_tests: false,
            expect: "err".into(),
            err_contains: Some("xecution".into()),
            ok_value: None,
            residue_class: if name == "in-list" { "builder".into() } else { String::new() },
            adds_tests: 0,
            gen_check: None,
            tags: vec!["timeout".into(), format!("timeout-shape={name}")],
        });
    }
    // a generator that hits the execution limit on a resumption and outlives the failed run
    let k = 900 + rng.below(50);
    let mut live = vec![];
    let storage = rng.below(3);
    let yields = rng.below(3);
    let mut op = gen_generator_op(k, storage, "loop\n  z = 1", "timeout", "raise:0", yields, false, &mut live);
    op.err_contains = Some("xecution".into());
    op.tags.push("timeout".into());
    ops.push(op);
    for _ in 0..2 {
        ops.push(gen_next_op(rng, &live[0]));
    }
    History { ops, limit_ms: 40, mod_dir: mod_dir.to_string() }
}

// ------------------------------------------------------------------------------------------------
// checking a history: model prediction (K) and behaviour (D)

#[derive(Clone, Debug)]
struct Failure {
    kind: &'static str, // "D" or "K"
    name: String,
    index: usize,
    detail: Value,
}

struct Known {
    f1: bool, // F-C07-1 open
    f2: bool, // F-C07-2 open
}

fn model_requests(h: &History) -> Vec<String> {
    let mut reqs = vec!["reset".to_string()];
    let mut ntests = 0u32;
    for op in &h.ops {
        let mut ev = op.events.clone();
        if op.runs_tests && !op.events.is_empty() {
            // Koto::run → run_tests over all exported tests (the new failing one, if any, last)
            for _ in 0..ntests {
                ev.push(' ');
                ev.push_str(TEST_EVENTS);
            }
            if op.adds_tests > 0 {
                ev.push_str(" enter:1:0:k0 nf:3 cn:3 nr:1 cn:3 nr:1 cn:3 nr:0");
            }
        }
        ntests += op.adds_tests;
        reqs.push(format!("ev {}", ev));
    }
    // hook H5: one request per failed generator that stays reachable (answers follow the per-op ones)
    for op in &h.ops {
        if let Some((_, req)) = &op.gen_check {
            reqs.push(req.clone());
        }
    }
    reqs
}

fn parse_model(resp: &str) -> Option<((usize, usize, usize, usize, usize), usize, String)> {
    // `regs stackLen seq str base | minRegs contsLen | p.. | c.. | e..`
    let parts: Vec<&str> = resp.split('|').map(|s| s.trim()).collect();
    if parts.len() < 3 {
        return None;
    }
    let a: Vec<usize> = parts[0].split(' ').filter_map(|x| x.parse().ok()).collect();
    let b: Vec<usize> = parts[1].split(' ').filter_map(|x| x.parse().ok()).collect();
    if a.len() != 5 || b.len() != 2 {
        return None;
    }
    Some(((a[0], a[1], a[2], a[3], a[4]), b[1], parts[2].to_string()))
}

/// Returns the failures of this history (empty = fine) and the number of residue events attributed
/// to known findings.
fn check_history(
    h: &History,
    out: &HistOut,
    model: &[String],
    known: &Known,
    attributed: &mut std::collections::BTreeMap<String, u64>,
) -> Vec<Failure> {
    let mut fails = vec![];
    let mut prev_pred = (0usize, 0usize, 0usize, 0usize, 0usize);
    for (i, op) in h.ops.iter().enumerate() {
        let st = &out.steps[i];
        let ctx = |extra: Value| {
            json!({"op_index": i, "op": op, "impl_snapshot": st.snap, "impl_outcome": st.out, "reference_outcome": st.ref_out, "more": extra})
        };
        // ---- (D) no panic
        if st.out.starts_with("panic:") || st.ref_out.starts_with("panic:") {
            fails.push(Failure { kind: "D", name: "C07:no-panic".into(), index: i, detail: ctx(json!({})) });
            continue;
        }
        // ---- (D) outcome as the generator expects / as on the reference instance
        let cls = st.out.split(':').next().unwrap_or("");
        if cls != op.expect {
            fails.push(Failure { kind: "D", name: "C07:outcome-differs-from-expected".into(), index: i, detail: ctx(json!({"expected": op.expect})) });
        } else if let Some(m) = &op.err_contains {
            if cls == "err" && !st.out.contains(m.as_str()) {
                fails.push(Failure { kind: "D", name: "C07:error-differs-from-fresh-instance".into(), index: i, detail: ctx(json!({"expected_substring": m})) });
            }
        } else if let Some(v) = &op.ok_value {
            if &st.out != v {
                fails.push(Failure { kind: "D", name: "C07:value-differs-from-expected".into(), index: i, detail: ctx(json!({"expected": v})) });
            }
        }
        if op.ref_text.is_none() && st.out != st.ref_out {
            fails.push(Failure { kind: "D", name: "C07:outcome-differs-from-reference-instance".into(), index: i, detail: ctx(json!({})) });
        }
        if op.ref_text.is_some() && !st.ref_out.starts_with("ok:") {
            // the effects-only script must succeed (harness self-check)
            fails.push(Failure { kind: "D", name: "C07:reference-effects-failed".into(), index: i, detail: ctx(json!({})) });
        }
        // ---- (D) exports and probes
        if st.exports != st.ref_exports {
            fails.push(Failure { kind: "D", name: "C07:exports-differ-from-completed-effects".into(), index: i, detail: ctx(json!({"exports": st.exports, "reference_exports": st.ref_exports})) });
        }
        if st.probes != st.ref_probes {
            fails.push(Failure { kind: "D", name: "C07:probe-differs-from-reference-instance".into(), index: i, detail: ctx(json!({"probes": st.probes, "reference_probes": st.ref_probes})) });
        }
        // R performs only successful operations: no register/frame residue ever; builder residue only
        // from the (successful) operations that recover from an error inside an open builder
        // (F-C07-2), which L performs as well
        if (st.ref_snap.0, st.ref_snap.1, st.ref_snap.4) != (0, 0, 0) || st.ref_snap.2 > st.snap.2 || st.ref_snap.3 > st.snap.3 {
            fails.push(Failure { kind: "D", name: "C07:residue-after-successful-operations".into(), index: i, detail: ctx(json!({"reference_snapshot": st.ref_snap})) });
        }
        // ---- hook H5: every generator whose body has raised so far must be finished, as the model says
        {
            let mut j = 0usize;
            for (oi, o) in h.ops.iter().enumerate() {
                let Some((key, req)) = &o.gen_check else { continue };
                let resp = model.get(1 + h.ops.len() + j).cloned().unwrap_or_default();
                j += 1;
                if oi > i {
                    continue;
                }
                let m: Vec<usize> = resp.split(' ').filter_map(|x| x.parse().ok()).collect();
                let Some((_, real)) = st.gens.iter().find(|(k, _)| k == key) else { continue };
                if m.len() != 4 {
                    fails.push(Failure { kind: "K", name: "K:C07:Model.Unwind.genResume".into(), index: i, detail: ctx(json!({"generator": key, "model_request": req, "model_response": resp})) });
                } else if (real.1, real.2, real.3) != (m[0], m[1], m[2]) {
                    let leftover = real.1 != 0 || real.2 != 0 || real.3 != 0;
                    fails.push(Failure {
                        kind: if leftover { "D" } else { "K" },
                        name: if leftover { "C07:generator-vm-keeps-frames-after-escaped-error".into() } else { "K:C07:Model.Unwind.genResume".into() },
                        index: i,
                        detail: ctx(json!({"generator": key, "created_by_op": oi, "impl_generator_vm_sizes": real, "model_request": req,
                            "model_response_frames_seq_str_finished": resp,
                            "note": "hook H5: (registers.len, call_stack.len, sequence_builders.len, string_builders.len, register_base) of the generator's VM; theorem C07.generator_escaped_error_finishes says frame count 0 after an escaped error"})),
                    });
                }
            }
        }
        // ---- (K) snapshot vs model
        let Some((pred, conts, placeholders)) = parse_model(&model[i + 1]) else {
            fails.push(Failure { kind: "K", name: "K:C07:Model.Unwind.run".into(), index: i, detail: ctx(json!({"model_response": model[i + 1]})) });
            continue;
        };
        if conts != 0 || placeholders != "p" {
            fails.push(Failure { kind: "K", name: "K:C07:event-summary-does-not-return-to-host".into(), index: i, detail: ctx(json!({"model_response": model[i + 1]})) });
        }
        if pred != st.snap {
            // residue that the model does not predict, or predicted residue that is absent
            let residue = st.snap != prev_pred;
            fails.push(Failure {
                kind: if residue && st.snap != (0, 0, 0, 0, 0) { "D" } else { "K" },
                name: if residue && st.snap != (0, 0, 0, 0, 0) { "C07:unexplained-residue".into() } else { "K:C07:Model.Unwind.run".into() },
                index: i,
                detail: ctx(json!({"model_snapshot": pred, "note": "H1 snapshot differs from the model's prediction for this history"})),
            });
        } else {
            // predicted residue: must belong to the class of a listed open finding
            let d_regs = pred.0 as i64 - prev_pred.0 as i64;
            let d_seq = pred.2 as i64 - prev_pred.2 as i64;
            let d_str = pred.3 as i64 - prev_pred.3 as i64;
            if d_regs != 0 {
                // F-C07-1 (fixed by 5247d9c) explains register residue only while it is listed as open
                let class_ok = (op.residue_class == "native-err" || op.residue_class == "call-setup") && known.f1 && d_regs == 2 + op.args.len() as i64;
                if class_ok {
                    *attributed.entry("F-C07-1".into()).or_insert(0) += 1;
                } else {
                    fails.push(Failure { kind: "D", name: "C07:register-residue".into(), index: i, detail: ctx(json!({"delta": d_regs})) });
                }
            }
            if d_seq != 0 || d_str != 0 {
                // F-C07-2 (fixed by 97373d1) explains builder residue only while it is listed as open
                let class_ok = op.residue_class == "builder" && known.f2 && d_seq >= 0 && d_str >= 0;
                if class_ok {
                    *attributed.entry("F-C07-2".into()).or_insert(0) += 1;
                } else {
                    fails.push(Failure { kind: "D", name: "C07:builder-residue".into(), index: i, detail: ctx(json!({"delta_seq": d_seq, "delta_str": d_str})) });
                }
            }
        }
        prev_pred = pred;
    }
    // fresh instance with only the completed effects
    if let Some(last) = out.steps.last() {
        if out.fresh_exports != last.exports {
            fails.push(Failure { kind: "D", name: "C07:exports-differ-from-fresh-instance".into(), index: h.ops.len(), detail: json!({"exports": last.exports, "fresh_exports": out.fresh_exports}) });
        }
    }
    if out.fresh_probes != out.final_probes {
        fails.push(Failure { kind: "D", name: "C07:probe-differs-from-fresh-instance".into(), index: h.ops.len(), detail: json!({"probes": out.final_probes, "fresh_probes": out.fresh_probes}) });
    }
    fails
}

// ------------------------------------------------------------------------------------------------

struct Ctx {
    rep: Report,
    drv: Driver,
    known: Known,
    worker: Option<Worker>,
    attributed: std::collections::BTreeMap<String, u64>,
    d_fail: u64,
    k_fail: u64,
}

impl Ctx {
    fn exec(&mut self, h: &History, in_worker: bool) -> Result<HistOut, String> {
        if in_worker {
            let w = self.worker.get_or_insert_with(|| Worker::spawn(&["--worker".to_string()]));
            let line = serde_json::to_string(h).unwrap();
            match w.request(&line, Duration::from_secs(30)) {
                Reply::Ok(s) => serde_json::from_str::<HistOut>(&s).map_err(|e| format!("bad worker reply: {e}: {s}")),
                Reply::Timeout => Err("hang: history did not finish within 30 s".into()),
                Reply::Died(st) => Err(format!("worker process died: {st}")),
            }
        } else {
            kvh::catch(|| exec_history(h, false))
        }
    }

    fn evaluate(&mut self, h: &History, in_worker: bool) -> Vec<Failure> {
        let out = match self.exec(h, in_worker) {
            Ok(o) => o,
            Err(e) => {
                return vec![Failure { kind: "D", name: "C07:history-aborted".into(), index: 0, detail: json!({"error": e}) }];
            }
        };
        let model = self.drv.batch(&model_requests(h));
        // shrinking re-evaluations do not count towards the attribution statistics
        let mut scratch = Default::default();
        check_history(h, &out, &model, &self.known, &mut scratch)
    }

    /// evaluate, record evidence, shrink + report on failure
    fn run_history(&mut self, h: &History, in_worker: bool, label: &str) {
        let out = match self.exec(h, in_worker) {
            Ok(o) => o,
            Err(e) => {
                self.d_fail += 1;
                self.rep.violation("D", "C07:history-aborted", json!({"history": h, "error": e, "label": label}));
                return;
            }
        };
        let reqs = model_requests(h);
        let model = self.drv.batch(&reqs);
        let mut attributed = std::mem::take(&mut self.attributed);
        let fails = check_history(h, &out, &model, &self.known, &mut attributed);
        self.attributed = attributed;
        // evidence
        let mut seen_fail = false;
        let mut prefix_hash = 0u64;
        for (i, op) in h.ops.iter().enumerate() {
            prefix_hash = kvh::fnv1a(format!("{prefix_hash}|{}|{:?}|{:?}", op.text, op.kind, op.args).as_bytes());
            let nontrivial = seen_fail || op.failing() || op.residue_class == "builder";
            self.rep.case(&format!("{label}:{prefix_hash}:{i}"), nontrivial);
            for t in &op.tags {
                self.rep.bump(&format!("op:{t}"));
            }
            self.rep.bump(&format!("outcome={}", out.steps[i].out.split(':').next().unwrap_or("")));
            if op.failing() {
                seen_fail = true;
            }
        }
        // hook H5 coverage: generator-VM snapshots compared with the model
        let mut h5 = 0u64;
        for (i, st) in out.steps.iter().enumerate() {
            for o in h.ops.iter().take(i + 1) {
                if let Some((key, _)) = &o.gen_check {
                    if st.gens.iter().any(|(k, _)| k == key) {
                        h5 += 1;
                    }
                }
            }
        }
        if h5 > 0 {
            self.rep.bump_by("h5:generator-vm-snapshots-compared", h5);
        }
        self.rep.bump(&format!("history_len={}", (h.ops.len() / 5) * 5));
        if self.rep.samples.len() < 6 && h.ops.len() > 3 {
            let i = h.ops.iter().position(|o| o.failing()).unwrap_or(1);
            self.rep.sample(json!({"history_label": label, "op_index": i, "op_text": h.ops[i].text, "model_request": reqs[i + 1],
                "impl_snapshot": out.steps[i].snap, "model_response": model[i + 1], "impl_outcome": out.steps[i].out,
                "reference_outcome": out.steps[i].ref_out}));
        }
        if fails.is_empty() {
            return;
        }
        // shrink: drop operations while the same failure class persists
        let first = fails[0].clone();
        let mut cur = h.clone();
        let mut cur_fail = first.clone();
        let mut progress = true;
        let mut budget = 200;
        while progress && budget > 0 {
            progress = false;
            let mut i = 0;
            while i < cur.ops.len() && budget > 0 {
                budget -= 1;
                if cur.ops[i].tags.iter().any(|t| t == "setup") || i == cur_fail.index {
                    i += 1;
                    continue;
                }
                let mut cand = cur.clone();
                cand.ops.remove(i);
                let fs = self.evaluate(&cand, in_worker);
                let same_op = |f: &Failure| f.index >= cand.ops.len() && cur_fail.index >= cur.ops.len()
                    || (f.index < cand.ops.len() && cur_fail.index < cur.ops.len() && cand.ops[f.index] == cur.ops[cur_fail.index]);
                if let Some(f) = fs.iter().find(|f| f.name == first.name && same_op(f)) {
                    cur = cand;
                    cur_fail = f.clone();
                    progress = true;
                } else {
                    i += 1;
                }
            }
        }
        if first.kind == "D" {
            self.d_fail += 1;
        } else {
            self.k_fail += 1;
        }
        self.rep.violation(
            first.kind,
            &first.name,
            json!({"label": label, "history": cur, "failing_op_index": cur_fail.index, "failure": cur_fail.detail,
                   "all_failures_before_shrinking": fails.iter().take(6).map(|f| json!({"name": f.name, "op_index": f.index})).collect::<Vec<_>>(),
                   "note": if first.kind == "K" { "model and implementation disagree; entry_clean_* of Props/C07.lean no longer speak about this code" } else { "the instance differs from one that performed only the completed effects" }}),
        );
    }
}


// ------------------------------------------------------------------------------------------------
// VM-level sub-histories: the host entry points `run_unary_op` / `run_binary_op` called directly on
// a `KotoVm` (they are not reachable through `koto::Koto`, but they are public API of the runtime
// and named in the property's anchors).

const VM_SETUP: &str = "thrower = ||\n  throw 'list-boom'\nexport o_ok =\n  @negate: || 5\n  @+: |other| 7\n  @<: |other| true\n  @display: || 'shown'\n  @size: || 3\nexport o_bad =\n  @negate: ||\n    throw 'neg-boom'\n  @+: |other|\n    throw 'add-boom'\n  @<: |other|\n    throw 'lt-boom'\n  @display: ||\n    throw 'disp-boom'\n  @size: ||\n    throw 'size-boom'\nexport o_deep =\n  @<: |other|\n    [1, 2, 3].fold 0, |a, x| thrower()\n  @negate: ||\n    [1, thrower()]\n";

#[derive(Clone, Debug, Serialize, Deserialize)]
struct VmOp {
    /// "neg" | "display" | "size" | "add" | "less"
    op: String,
    /// operand(s): "num" | "str" | "list" | "o_ok" | "o_bad" | "o_deep"
    lhs: String,
    rhs: String,
    events: String,
    expect_ok: bool,
    /// "", "op-early-return", "builder"
    residue_class: String,
    residue: usize,
}

fn vm_value(vm: &koto_runtime::KotoVm, name: &str) -> KValue {
    match name {
        "num" => KValue::Number(3.into()),
        "str" => KValue::Str("s".into()),
        "list" => KValue::List(koto_runtime::KList::from_slice(&[KValue::Number(1.into()), KValue::Number(2.into())])),
        other => vm.exports().get(other).unwrap_or(KValue::Null),
    }
}

fn gen_vm_op(rng: &mut Rng) -> VmOp {
    let mk = |op: &str, lhs: &str, rhs: &str, events: &str, ok: bool, class: &str, residue: usize| VmOp {
        op: op.into(),
        lhs: lhs.into(),
        rhs: rhs.into(),
        events: events.into(),
        expect_ok: ok,
        residue_class: class.into(),
        residue,
    };
    match rng.below(19) {
        0 => mk("neg", "num", "", "ed:2:1", true, "", 0),
        1 => mk("neg", "str", "", "ed:2:0", false, "op-early-return", 2),
        2 => mk("neg", "o_ok", "", "eop:2:0:k0 nf:2 ret", true, "", 0),
        3 => mk("neg", "o_bad", "", "eop:2:0:k0 nf:2 raise:1", false, "", 0),
        4 => mk("neg", "o_deep", "", "eop:2:0:k0 nf:3 ss call:3:0 nf:1 raise:1", false, "builder", 0),
        5 => mk("display", "num", "", "ed:2:1", true, "", 0),
        6 => mk("display", "o_ok", "", "eop:2:0:k0 nf:2 ret", true, "", 0),
        7 => mk("display", "o_bad", "", "eop:2:0:k0 nf:2 raise:1", false, "", 0),
        8 => mk("size", "list", "", "ed:2:1", true, "", 0),
        9 => mk("size", "num", "", "ed:2:0", false, "op-early-return", 2),
        10 => mk("size", "o_ok", "", "eop:2:0:k0 nf:2 ret", true, "", 0),
        11 => mk("size", "o_bad", "", "eop:2:0:k0 nf:2 raise:1", false, "", 0),
        12 => mk("add", "num", "num", "ed:3:1", true, "", 0),
        13 => mk("add", "num", "str", "ed:3:0", false, "op-early-return", 3),
        // arithmetic overloads run in a nested loop inside run_add (call_metamap_arithmetic_op):
        // the body of run_binary_op is native code holding 3 registers (`eop:2:0:n` = 2 + frame-base
        // slot = 3 pushed registers, result register first) that starts a nested loop (`nest`); the
        // failed overload's frame registers (NewFrame 4) are still live when the `?` returns (pop_frame
        // of a barrier frame does not resize); the run_binary_op wrapper (fix d4834c0) truncates them
        14 => mk("add", "o_ok", "num", "eop:2:0:n nest:1:1 nf:3 ret nr:1", true, "", 0),
        15 => mk("add", "o_bad", "num", "eop:2:0:n nest:1:1 nf:4 raise:1 nr:0", false, "op-early-return", 7),
        16 => mk("less", "num", "str", "ed:3:0", false, "op-early-return", 3),
        17 => mk("less", "o_ok", "num", "eop:3:1:k1 nf:3 ret", true, "", 0),
        _ => {
            if rng.chance(1, 2) {
                mk("less", "o_bad", "num", "eop:3:1:k1 nf:3 raise:1", false, "", 0)
            } else {
                mk("less", "o_deep", "num", "eop:3:1:k1 nf:4 ss se cn:4 enter:1:2:k2 nf:3 call:3:0 nf:1 raise:1 nr:0", false, "", 0)
            }
        }
    }
}

fn apply_vm_op(vm: &mut koto_runtime::KotoVm, op: &VmOp) -> String {
    use koto_runtime::{BinaryOp, UnaryOp};
    let lhs = vm_value(vm, &op.lhs);
    let rhs = vm_value(vm, &op.rhs);
    kvh::catch(|| {
        let r = match op.op.as_str() {
            "neg" => vm.run_unary_op(UnaryOp::Negate, lhs),
            "display" => vm.run_unary_op(UnaryOp::Display, lhs),
            "size" => vm.run_unary_op(UnaryOp::Size, lhs),
            "add" => vm.run_binary_op(BinaryOp::Add, lhs, rhs),
            _ => vm.run_binary_op(BinaryOp::Less, lhs, rhs),
        };
        match r {
            Ok(v) => format!("ok:{}", canon::value(&v)),
            Err(e) => format!("err:{}", e.to_string().lines().next().unwrap_or("")),
        }
    })
    .unwrap_or_else(|p| format!("panic:{}", p))
}

fn new_vm() -> koto_runtime::KotoVm {
    let mut vm = koto_runtime::KotoVm::default();
    let chunk = vm.loader().borrow_mut().compile_script(VM_SETUP, None, Default::default()).expect("VM_SETUP compiles");
    vm.run(chunk).expect("VM_SETUP runs");
    vm
}

/// Returns (op index, failure name, detail) of the first failure.
fn check_vm_history(ops: &[VmOp], drv: &mut Driver, f3_open: bool, f2_open: bool, attributed: &mut std::collections::BTreeMap<String, u64>) -> Option<(usize, &'static str, &'static str, Value)> {
    let mut vm = new_vm();
    let mut reqs = vec!["reset".to_string(), "ev enter:0:0:k0 nf:8 ex:1 ex:2 ex:3 ret".to_string()];
    for op in ops {
        reqs.push(format!("ev {}", op.events));
    }
    let model = drv.batch(&reqs);
    let mut prev = (0usize, 0usize, 0usize, 0usize, 0usize);
    for (i, op) in ops.iter().enumerate() {
        let out = apply_vm_op(&mut vm, op);
        let snap = vm.verif_stack_sizes();
        // (D) same outcome as on a fresh VM
        let fresh_out = apply_vm_op(&mut new_vm(), op);
        let detail = |m: &str| json!({"op_index": i, "op": op, "impl_outcome": out, "fresh_outcome": fresh_out, "impl_snapshot": snap, "model_response": m});
        if out.starts_with("panic:") {
            return Some((i, "D", "C07:vm:no-panic", detail(&model[i + 2])));
        }
        if out != fresh_out {
            return Some((i, "D", "C07:vm:outcome-differs-from-fresh-vm", detail(&model[i + 2])));
        }
        if out.starts_with("ok:") != op.expect_ok {
            return Some((i, "D", "C07:vm:outcome-differs-from-expected", detail(&model[i + 2])));
        }
        let Some((pred, conts, _)) = parse_model(&model[i + 2]) else {
            return Some((i, "K", "K:C07:Model.Unwind.run", detail(&model[i + 2])));
        };
        if conts != 0 {
            return Some((i, "K", "K:C07:event-summary-does-not-return-to-host", detail(&model[i + 2])));
        }
        if pred != snap {
            let residue = snap != prev;
            return Some((i, if residue { "D" } else { "K" }, if residue { "C07:vm:unexplained-residue" } else { "K:C07:Model.Unwind.run" }, detail(&model[i + 2])));
        }
        let d_regs = pred.0 as i64 - prev.0 as i64;
        let d_b = (pred.2 + pred.3) as i64 - (prev.2 + prev.3) as i64;
        if d_regs != 0 {
            if op.residue_class == "op-early-return" && f3_open && d_regs == op.residue as i64 {
                *attributed.entry("F-C07-3".into()).or_insert(0) += 1;
            } else {
                return Some((i, "D", "C07:vm:register-residue", detail(&model[i + 2])));
            }
        }
        if d_b != 0 {
            if op.residue_class == "builder" && f2_open && d_b > 0 {
                *attributed.entry("F-C07-2".into()).or_insert(0) += 1;
            } else {
                return Some((i, "D", "C07:vm:builder-residue", detail(&model[i + 2])));
            }
        }
        prev = pred;
    }
    None
}

fn run_vm_history(cx: &mut Ctx, ops: Vec<VmOp>, label: &str, f3_open: bool) {
    let f2 = cx.known.f2;
    let mut attributed = std::mem::take(&mut cx.attributed);
    let r = check_vm_history(&ops, &mut cx.drv, f3_open, f2, &mut attributed);
    cx.attributed = attributed;
    let mut seen_fail = false;
    let mut h = 0u64;
    for (i, op) in ops.iter().enumerate() {
        h = kvh::fnv1a(format!("{h}|{}|{}|{}", op.op, op.lhs, op.rhs).as_bytes());
        cx.rep.case(&format!("{label}:{h}:{i}"), seen_fail || !op.expect_ok);
        cx.rep.bump(&format!("vmop:{}:{}{}{}", op.op, op.lhs, if op.rhs.is_empty() { "" } else { ":" }, op.rhs));
        if !op.expect_ok {
            seen_fail = true;
        }
    }
    let Some((idx, kind, name, _)) = r else { return };
    // shrink: drop operations other than the failing one while the same failure persists
    let mut cur = ops.clone();
    let mut cur_idx = idx;
    let mut progress = true;
    while progress {
        progress = false;
        let mut i = 0;
        while i < cur.len() {
            if i == cur_idx {
                i += 1;
                continue;
            }
            let mut cand = cur.clone();
            cand.remove(i);
            let mut scratch = Default::default();
            match check_vm_history(&cand, &mut cx.drv, f3_open, f2, &mut scratch) {
                Some((j, _, n, _)) if n == name && j == (if i < cur_idx { cur_idx - 1 } else { cur_idx }) => {
                    cur = cand;
                    cur_idx = j;
                    progress = true;
                }
                _ => i += 1,
            }
        }
    }
    let mut scratch = Default::default();
    let fin = check_vm_history(&cur, &mut cx.drv, f3_open, f2, &mut scratch);
    if kind == "D" {
        cx.d_fail += 1;
    } else {
        cx.k_fail += 1;
    }
    cx.rep.violation(kind, name, json!({"label": label, "vm_history": cur, "vm_setup": VM_SETUP, "failing_op_index": cur_idx, "failure": fin.map(|f| f.3)}));
}

/// F-C07-3 witness: a failing natively-performed operation leaves its operand registers.
fn witness_f3() -> (bool, String) {
    use koto_runtime::BinaryOp;
    let mut vm = new_vm();
    let _ = vm.run_binary_op(BinaryOp::Add, KValue::Number(1.into()), KValue::Str("x".into()));
    let a = vm.verif_stack_sizes();
    let o_bad = vm.exports().get("o_bad").unwrap();
    let _ = vm.run_binary_op(BinaryOp::Add, o_bad, KValue::Number(1.into()));
    let b = vm.verif_stack_sizes();
    (a.0 != 0 || b.0 != 0, format!("registers.len after run_binary_op(Add, 1, 'x') = {}, after a second failing run_binary_op(Add, o, 1) with a throwing @+ = {}", a.0, b.0))
}


// ------------------------------------------------------------------------------------------------
// the REPL (crates/cli/src/repl.rs): one runtime kept alive across failing evaluations, plus the
// REPL's own per-entry state (continued lines, indent). Driven through a pty (the REPL only starts
// on a terminal). Oracle: a second REPL session that is given only the completed effects of the
// failing entries; every other entry must produce the same output and leave the same prompt.

const REPL_DRIVER_PY: &str = r#"
import fcntl, json, os, pty, re, select, struct, sys, termios, time
ANSI = re.compile(r"\x1b\[[0-9;?]*[A-Za-z]|\x1b[=>]")
PROMPTS = ("» ", "… ")
binary, home, session = sys.argv[1], sys.argv[2], json.load(open(sys.argv[3]))
pid, fd = pty.fork()
if pid == 0:
    os.environ["HOME"] = home
    os.environ["TERM"] = "xterm"
    os.execv(binary, [binary])
fcntl.ioctl(fd, termios.TIOCSWINSZ, struct.pack("HHHH", 50, 200, 0, 0))
buf = ""
def read_until_prompt(timeout=20.0):
    global buf
    start = len(buf); deadline = time.time() + timeout; quiet = None
    while time.time() < deadline:
        r, _, _ = select.select([fd], [], [], 0.03)
        if r:
            try: data = os.read(fd, 65536)
            except OSError: break
            if not data: break
            buf += data.decode("utf-8", "replace"); quiet = None; continue
        text = ANSI.sub("", buf[start:]).replace("\r", "")
        last = text.rsplit("\n", 1)[-1]
        if last.startswith(PROMPTS):
            quiet = quiet or time.time()
            if time.time() - quiet > 0.12: break
    text = ANSI.sub("", buf[start:]).replace("\r", "")
    last = text.rsplit("\n", 1)[-1]
    return text, ("main" if last.startswith(PROMPTS[0]) else "continued" if last.startswith(PROMPTS[1]) else "none")
read_until_prompt()
out = []
for entry in session:
    texts = []; prompt = "none"; prompts = []
    for line in entry["lines"]:
        os.write(fd, line.encode() + b"\r")
        t, prompt = read_until_prompt()
        texts.append(t); prompts.append(prompt)
    # keep what the REPL printed (results and errors), drop the echoed input and the prompts
    printed = []
    for t in texts:
        for l in t.split("\n"):
            l = l.strip()
            if l and not l.startswith(PROMPTS) :
                printed.append(l)
    out.append({"id": entry["id"], "printed": printed, "prompt": prompt, "prompts": prompts})
try:
    os.write(fd, b"\x04"); time.sleep(0.1); os.close(fd)
except OSError: pass
try: os.waitpid(pid, 0)
except OSError: pass
print(json.dumps(out))
"#;

#[derive(Clone, Debug, Serialize, Deserialize)]
struct ReplEntry {
    id: usize,
    /// lines typed into the live session (continuation lines without indentation: the REPL indents)
    lines: Vec<String>,
    /// lines typed into the reference session (None: the entry is left out — it failed without effects)
    ref_lines: Option<Vec<String>>,
    /// the entry's output is compared between the two sessions
    compare: bool,
    tag: String,
    /// per typed line: the token for the model (`Model/Repl.lean`, driver request `repl`)
    #[serde(default)]
    model: Vec<String>,
}

fn gen_repl_session(rng: &mut Rng) -> Vec<ReplEntry> {
    let mut es: Vec<ReplEntry> = vec![];
    let mut vars: Vec<String> = vec![];
    let n = 6 + rng.below(7);
    for id in 0..n {
        let k = id + 1;
        let same = |lines: Vec<String>, tag: &str| ReplEntry { id, ref_lines: Some(lines.clone()), lines, compare: true, tag: tag.into(), model: vec![] };
        let e = match rng.weighted(&[3, 3, 2, 5, 2, 1, if vars.is_empty() { 0 } else { 5 }]) {
            0 => {
                vars.push(format!("x{k}"));
                same(vec![format!("x{k} = {k}")], "single-ok")
            }
            1 => ReplEntry {
                id,
                lines: vec![rng.pick(&["throw 'boom'", "1 + null", "[1, 2][9]", "assert false", "let z: String = 1"]).to_string()],
                ref_lines: None,
                compare: false,
                tag: "single-runtime-error".into(),
                model: vec![],
            },
            2 => {
                vars.push(format!("y{k}"));
                same(vec!["if true".into(), format!("y{k} = {k}0"), format!("y{k} + 1"), String::new()], "multi-ok")
            }
            3 => {
                // a multi-line entry that fails at runtime after a completed effect
                vars.push(format!("e{k}"));
                let fail = rng.pick(&["throw 'boom'", "1 + null", "[1, 2][9]", "assert false", "let z: String = 1", "[1, \"{[][3]}\"]", "import no_such_module_c07"]).to_string();
                ReplEntry {
                    id,
                    lines: vec!["if true".into(), format!("e{k} = {k}00"), fail, String::new()],
                    ref_lines: Some(vec![format!("e{k} = {k}00")]),
                    compare: false,
                    tag: "multi-runtime-error".into(),
                    model: vec![],
                }
            }
            4 => ReplEntry {
                id,
                lines: vec!["f = ||".into(), "x = = 1".into(), String::new()],
                ref_lines: None,
                compare: false,
                tag: "multi-compile-error".into(),
                model: vec![],
            },
            5 => ReplEntry { id, lines: vec!["x = )".into(), String::new()], ref_lines: None, compare: false, tag: "compile-error-after-continuation".into(), model: vec![] },
            _ => {
                let v = rng.pick(&vars).clone();
                same(vec![format!("{v} + 41")], "probe")
            }
        };
        es.push(e);
    }
    // always end with probes of everything defined
    let mut id = es.len();
    for v in vars.iter().take(3) {
        es.push(ReplEntry { id, lines: vec![format!("{v} + 41")], ref_lines: Some(vec![format!("{v} + 41")]), compare: true, tag: "probe".into(), model: vec![] });
        id += 1;
    }
    es.push(ReplEntry { id, lines: vec!["1 + 1".into()], ref_lines: Some(vec!["1 + 1".into()]), compare: true, tag: "probe".into(), model: vec![] });
    for e in es.iter_mut() {
        let toks: &[&str] = match e.tag.as_str() {
            "single-ok" | "probe" => &["l0:ok:0"],
            "single-runtime-error" => &["l0:err:0"],
            "multi-ok" => &["l0:ind:0", "l2:ok:0", "l2:ok:0", "b2:ok:0"],
            "multi-runtime-error" => &["l0:ind:0", "l2:ok:0", "l2:ok:0", "b2:err:0"],
            "multi-compile-error" => &["l0:ind:0", "l2:ind:1", "b2:ind:0"],
            "compile-error-after-continuation" => &["l0:ind:0", "b2:ind:0"],
            _ => &[],
        };
        e.model = toks.iter().map(|t| t.to_string()).collect();
    }
    es
}

fn repl_binary(rep: &mut Report) -> Option<PathBuf> {
    let repo = std::env::var("KOTO_REPO").unwrap_or_else(|_| "/repo".into());
    let tdir = match std::env::var("CARGO_TARGET_DIR_OVERRIDE") {
        Ok(t) => PathBuf::from(format!("{t}-cli")),
        Err(_) => std::env::current_dir().unwrap_or_default().join("target-cli"),
    };
    let out = std::process::Command::new("cargo")
        .args(["build", "--offline", "--locked", "-q", "--manifest-path"])
        .arg(format!("{repo}/Cargo.toml"))
        .args(["-p", "koto_cli", "--target-dir"])
        .arg(&tdir)
        .output();
    match out {
        Ok(o) if o.status.success() => Some(tdir.join("debug").join("koto")),
        Ok(o) => {
            rep.note(format!("REPL sessions skipped: koto_cli did not build: {}", String::from_utf8_lossy(&o.stderr).chars().rev().take(300).collect::<String>().chars().rev().collect::<String>()));
            None
        }
        Err(e) => {
            rep.note(format!("REPL sessions skipped: cargo not runnable: {e}"));
            None
        }
    }
}

fn run_repl_session(bin: &Path, scratch: &Path, entries: &[(usize, Vec<String>)]) -> Result<Vec<Value>, String> {
    let home = scratch.join("repl-home");
    let _ = std::fs::create_dir_all(&home);
    let driver = scratch.join("repl_driver.py");
    std::fs::write(&driver, REPL_DRIVER_PY).map_err(|e| e.to_string())?;
    let session = scratch.join("repl_session.json");
    let js: Vec<Value> = entries.iter().map(|(id, lines)| json!({"id": id, "lines": lines})).collect();
    std::fs::write(&session, serde_json::to_string(&js).unwrap()).map_err(|e| e.to_string())?;
    let out = std::process::Command::new("python3").arg(&driver).arg(bin).arg(&home).arg(&session).output().map_err(|e| e.to_string())?;
    if !out.status.success() {
        return Err(format!("driver failed: {}", String::from_utf8_lossy(&out.stderr)));
    }
    let txt = String::from_utf8_lossy(&out.stdout);
    let line = txt.lines().last().unwrap_or("");
    serde_json::from_str::<Vec<Value>>(line).map_err(|e| format!("{e}: {txt}"))
}

/// returns the first difference (entry id, live, reference)
fn check_repl_session(bin: &Path, scratch: &Path, es: &[ReplEntry], drv: &mut Driver) -> Result<Option<(usize, Value, Value)>, String> {
    let live: Vec<(usize, Vec<String>)> = es.iter().map(|e| (e.id, e.lines.clone())).collect();
    let refs: Vec<(usize, Vec<String>)> = es.iter().filter_map(|e| e.ref_lines.clone().map(|l| (e.id, l))).collect();
    let lo = run_repl_session(bin, scratch, &live)?;
    let ro = run_repl_session(bin, scratch, &refs)?;
    for e in es.iter().filter(|e| e.compare) {
        let l = lo.iter().find(|v| v["id"] == json!(e.id)).cloned().unwrap_or(Value::Null);
        let r = ro.iter().find(|v| v["id"] == json!(e.id)).cloned().unwrap_or(Value::Null);
        if l != r {
            return Ok(Some((e.id, l, r)));
        }
    }
    // (K) the prompt after every typed line as the model of `Repl::on_line` predicts it
    if es.iter().all(|e| e.model.len() == e.lines.len()) {
        let toks: Vec<String> = es.iter().flat_map(|e| e.model.iter().cloned()).collect();
        let resp = drv.ask(&format!("repl {}", toks.join(" ")));
        let pred: Vec<&str> = resp.split(' ').collect();
        let mut i = 0;
        for e in es {
            let l = lo.iter().find(|v| v["id"] == json!(e.id)).cloned().unwrap_or(Value::Null);
            for j in 0..e.lines.len() {
                let seen = l["prompts"][j].as_str().unwrap_or("none");
                let want = match pred.get(i) {
                    Some(&"m") => "main",
                    Some(&"c") => "continued",
                    _ => "?",
                };
                i += 1;
                if seen != want {
                    return Ok(Some((e.id, l.clone(), json!({"model_prompt_after_line": j, "model": want, "model_request": toks.join(" "), "model_response": resp, "name": "K:C07:Model.Repl.onLine"}))));
                }
            }
        }
    }
    // the live session must be back at the main prompt after every complete entry
    for e in es {
        let l = lo.iter().find(|v| v["id"] == json!(e.id)).cloned().unwrap_or(Value::Null);
        if l["prompt"] != json!("main") {
            return Ok(Some((e.id, l, json!({"expected_prompt": "main"}))));
        }
    }
    Ok(None)
}

fn repl_checks(cx: &mut Ctx, rng: &mut Rng, scratch: &Path, n_sessions: usize) {
    let Some(bin) = repl_binary(&mut cx.rep) else { return };
    for si in 0..n_sessions {
        let mut r = rng.fork();
        let es = gen_repl_session(&mut r);
        for e in &es {
            cx.rep.case(&format!("repl:{si}:{}:{:?}", e.id, e.lines), true);
            cx.rep.bump(&format!("repl-entry:{}", e.tag));
        }
        match check_repl_session(&bin, scratch, &es, &mut cx.drv) {
            Err(e) => {
                cx.rep.note(format!("REPL session {si} could not be driven: {e}"));
                return;
            }
            Ok(None) => {}
            Ok(Some(_)) => {
                // shrink: drop entries while a difference persists
                let mut cur = es.clone();
                let mut progress = true;
                while progress {
                    progress = false;
                    let mut i = 0;
                    while i < cur.len() {
                        let mut cand = cur.clone();
                        cand.remove(i);
                        if matches!(check_repl_session(&bin, scratch, &cand, &mut cx.drv), Ok(Some(_))) {
                            cur = cand;
                            progress = true;
                        } else {
                            i += 1;
                        }
                    }
                }
                let fin = check_repl_session(&bin, scratch, &cur, &mut cx.drv).ok().flatten();
                cx.d_fail += 1;
                cx.rep.violation(
                    "D",
                    "C07:repl-entry-differs-from-session-with-completed-effects-only",
                    json!({"repl_session": cur, "first_difference": fin.map(|(id, l, r)| json!({"entry": id, "live": l, "reference": r})),
                           "note": "crates/cli/src/repl.rs: after a failed entry the REPL (runtime + its own continued-lines/indent state) must behave like a session that only performed the completed effects"}),
                );
            }
        }
    }
}

fn write_modules(dir: &Path) {
    std::fs::create_dir_all(dir).expect("create module dir");
    for (name, src, _) in MODULES {
        std::fs::write(dir.join(format!("{name}.koto")), src).expect("write module");
    }
    std::fs::write(dir.join("main.koto"), "# scripts of the C07 histories are compiled with this path\n").expect("write main");
}

fn scratch_dir() -> PathBuf {
    let base = std::env::var("VERIF_SCRATCH").map(PathBuf::from).unwrap_or_else(|_| std::env::temp_dir());
    base.join(format!("c07-mods-{}", std::process::id()))
}

/// F-C07-1 witness: 85 failing host-initiated native calls, then a host-initiated call of `f`.
fn witness_f1() -> (bool, String) {
    let mut k = Koto::default();
    let _ = k.compile_and_run("export f = |x| x + 1");
    let abs = lookup_native(&k, "number.abs").unwrap();
    let mut residues = vec![];
    for _ in 0..85 {
        let _ = k.call_function(abs.clone(), &[KValue::Str("x".into())]);
        residues.push(k.verif_stack_sizes().0);
    }
    let r = kvh::catch(|| match k.call_exported_function("f", &[KValue::Number(1.into())]) {
        Ok(v) => format!("ok:{}", canon::value(&v)),
        Err(e) => format!("err:{}", err_text(&e)),
    })
    .unwrap_or_else(|p| format!("panic:{}", p));
    let linear = residues.iter().enumerate().all(|(i, r)| *r == 3 * (i + 1));
    (r != "ok:i2" && linear, format!("after 85 failing calls registers.len = {}, then f(1) = {}", residues.last().unwrap(), r))
}

/// F-C07-2 witnesses: an error unwinds through an open sequence / string builder.
/// F-C07-4 witness: a top-level `yield` leaves the chunk's frame on the call stack.
fn witness_f4() -> (bool, String) {
    let mut k = Koto::default();
    let a = run_script(&mut k, "yield 1\n", "/nonexistent");
    let s1 = k.verif_stack_sizes();
    let b = run_script(&mut k, "throw 0\n", "/nonexistent");
    let s2 = k.verif_stack_sizes();
    let c = run_script(&mut k, "1 + 1\n", "/nonexistent");
    (s1.1 != 0 || s2.1 != 0, format!("compile_and_run(\"yield 1\") = {a}, sizes {:?}; then a failing run ({b}): sizes {:?}; then 1 + 1 = {c}", s1, s2))
}


/// F-C07-5 witness / check: a module whose import failed, then rewritten on disk, must be read
/// again by the next import on the same instance (as on a fresh instance); the loader's chunk cache
/// must not keep the chunk of the failed import. Returns (fails, description).
fn stale_chunk_check(dir: &Path) -> (bool, String) {
    let variants: &[(&str, &str)] = &[
        ("throw", "export x = 1\nthrow 'old-error'\n"),
        ("failing-test", "export x = 1\n@test t = ||\n  assert false\n"),
        ("failing-main", "export x = 1\n@main = ||\n  throw 'old-error'\n"),
    ];
    let good = "export x = 2\n";
    let mut fails = false;
    let mut desc = vec![];
    let d = dir.display().to_string();
    for (name, bad) in variants {
        let m = format!("c07_rewritten_{}", name.replace('-', "_"));
        let file = dir.join(format!("{m}.koto"));
        let script = format!("import {m}\n{m}.x\n");
        let _ = std::fs::write(&file, bad);
        let mut l = new_instance(0);
        let first = run_script(&mut l, &script, &d);
        let _ = std::fs::write(&file, good);
        let second = run_script(&mut l, &script, &d);
        let fresh = run_script(&mut new_instance(0), &script, &d);
        l.clear_module_cache();
        let third = run_script(&mut l, &script, &d);
        let _ = std::fs::remove_file(&file);
        if second != fresh || third != fresh || !first.starts_with("err:") {
            fails = true;
        }
        desc.push(format!("{name}: first import {first}; after rewriting the file: same instance {second}, fresh instance {fresh}, same instance after clear_module_cache {third}"));
    }
    (fails, desc.join(" | "))
}

fn is_subsequence(xs: &[i64], of: &[i64]) -> bool {
    let mut it = of.iter();
    xs.iter().all(|x| it.any(|y| y == x))
}

/// F-C07-6 witness / check: a list after a failed `list.retain` (predicate throws, or returns a
/// non-Bool) must be explainable by completed effects: a subsequence of the original list that
/// still contains every element the predicate has not judged yet.
fn retain_check() -> (bool, String) {
    let mut fails = false;
    let mut desc = vec![];
    for (name, pred_fail) in [("throws", "throw 'pred'"), ("returns-non-bool", "return 7")] {
        for at in [1i64, 3, 4, 6] {
            let script = format!("l = [1, 2, 3, 4, 5, 6]\ntry\n  l.retain |x|\n    if x == {at}\n      {pred_fail}\n    x % 2 == 0\ncatch e\n  null\nl\n");
            let mut k = new_instance(0);
            let out = run_script(&mut k, &script, "/nonexistent");
            let vals: Vec<i64> = out
                .trim_start_matches("ok:(l")
                .trim_end_matches(')')
                .split(' ')
                .filter_map(|t| t.strip_prefix('i').and_then(|n| n.parse().ok()))
                .collect();
            let orig = [1i64, 2, 3, 4, 5, 6];
            let ok = out.starts_with("ok:(l") && is_subsequence(&vals, &orig) && (at..=6).all(|v| vals.contains(&v));
            if !ok {
                fails = true;
                desc.push(format!("predicate {name} at element {at}: list afterwards {out}"));
            }
        }
    }
    if desc.is_empty() {
        desc.push("every list after a failed retain is a subsequence of the original that keeps the unjudged elements".into());
    }
    (fails, desc.join(" | "))
}

fn witness_f2() -> (bool, String) {
    let mut k = Koto::default();
    let _ = k.compile_and_run("f = ||\n  throw 'x'\n[1, f()]");
    let a = k.verif_stack_sizes();
    let _ = k.compile_and_run("f = ||\n  throw 'x'\nr = try\n  \"a{f()}\"\ncatch e\n  0\nr");
    let b = k.verif_stack_sizes();
    // behavioural consequence (F-C04-4): the callee recovers; the caller's string must be its own
    let c = run_script(&mut k, "ff = ||\n  throw 'y'\ng = ||\n  try\n    return \"inner {ff()}\"\n  catch e\n    return 'recovered'\n\"prefix {g()} suffix\"", "/nonexistent");
    (a != (0, 0, 0, 0, 0) || b != (0, 0, 0, 0, 0) || c != format!("ok:s{}", kvh::hex(b"prefix recovered suffix")), format!("after uncaught error in [1, f()]: {:?}; after caught error in an interpolation: {:?}; \"prefix {{g()}} suffix\" with g recovering from an error inside its own interpolation = {}", a, b, c))
}

fn main() {
    kvh::quiet_panics();
    let args = Args::parse();
    if args.has_flag("--worker") {
        worker::serve(|line| {
            let h: History = match serde_json::from_str(line) {
                Ok(h) => h,
                Err(e) => return format!("{{\"error\":\"{}\"}}", e),
            };
            let out = kvh::catch(|| exec_history(&h, false));
            match out {
                Ok(o) => serde_json::to_string(&o).unwrap(),
                Err(p) => format!("{{\"error\":\"panic {}\"}}", p.replace('"', "'")),
            }
        });
        return;
    }
    let mut rep = Report::new("C07", &args);
    rep.rule = "case = one operation executed in its history (one long-lived Koto instance), with the H1 snapshot compared against the model and outcome/exports/probes compared against a reference instance that performed only the completed effects; distinct = distinct (history prefix, operation); non-trivial = the operation fails, unwinds through an open builder, or follows at least one failed operation of the same history".into();
    let open: Vec<String> = rep.known_open().iter().filter_map(|e| e.get("id").and_then(|x| x.as_str()).map(|s| s.to_string())).collect();
    let known = Known { f1: open.iter().any(|x| x == "F-C07-1"), f2: open.iter().any(|x| x == "F-C07-2") };
    let drv = Driver::spawn(&args.driver);
    let mod_dir = scratch_dir();
    write_modules(&mod_dir);
    let mod_dir_s = mod_dir.display().to_string();
    let mut cx = Ctx { rep, drv, known, worker: None, attributed: Default::default(), d_fail: 0, k_fail: 0 };

    if let Some(p) = &args.replay {
        let v: Value = serde_json::from_str(&std::fs::read_to_string(p).expect("replay file")).unwrap();
        if !v["detail"]["vm_history"].is_null() {
            let ops: Vec<VmOp> = serde_json::from_value(v["detail"]["vm_history"].clone()).expect("detail.vm_history");
            let f3_open = open.iter().any(|x| x == "F-C07-3");
            let mut vm = new_vm();
            for (i, op) in ops.iter().enumerate() {
                let out = apply_vm_op(&mut vm, op);
                println!("--- vm op {i} {} {} {}: impl {:?} {} | events {}", op.op, op.lhs, op.rhs, vm.verif_stack_sizes(), out, op.events);
            }
            run_vm_history(&mut cx, ops, "replay", f3_open);
            let _ = std::fs::remove_dir_all(&mod_dir);
            std::process::exit(cx.rep.finish());
        }
        let mut h: History = serde_json::from_value(v["detail"]["history"].clone()).expect("detail.history");
        h.mod_dir = mod_dir_s.clone();
        let out = cx.exec(&h, h.limit_ms > 0);
        let model = cx.drv.batch(&model_requests(&h));
        for (i, op) in h.ops.iter().enumerate() {
            println!("--- op {i} {:?} {:?} args={:?}\n{}", op.kind, op.tags, op.args, op.text);
            if let Ok(o) = &out {
                println!("impl : {:?} {}", o.steps[i].snap, o.steps[i].out);
                println!("ref  : {:?} {}", o.steps[i].ref_snap, o.steps[i].ref_out);
            }
            println!("model: {}", model[i + 1]);
        }
        cx.run_history(&h, h.limit_ms > 0, "replay");
        let _ = std::fs::remove_dir_all(&mod_dir);
        std::process::exit(cx.rep.finish());
    }

    // 0. corpus: hand-written / minimised histories (JSON, same format as a replay's detail.history)
    if let Some(dir) = &args.corpus {
        if let Ok(rd) = std::fs::read_dir(dir) {
            let mut ps: Vec<_> = rd.filter_map(|e| e.ok()).map(|e| e.path()).filter(|p| p.extension().is_some_and(|e| e == "json")).collect();
            ps.sort();
            for p in ps {
                let Ok(txt) = std::fs::read_to_string(&p) else { continue };
                let Ok(mut h) = serde_json::from_str::<History>(&txt) else {
                    cx.rep.note(format!("corpus file {} is not a history", p.display()));
                    continue;
                };
                h.mod_dir = mod_dir_s.clone();
                let label = format!("corpus:{}", p.file_name().unwrap().to_string_lossy());
                cx.run_history(&h, h.limit_ms > 0, &label);
                cx.rep.bump("corpus_histories");
            }
        }
    }

    // 1. systematic sweep: every carrier × failure kind × {uncaught, caught}, each followed by probes
    let mut rng = Rng::new(args.seed);
    {
        let mut k = 0usize;
        for ci in 0..N_CARRIERS {
            let mut ops = vec![setup_op()];
            for fi in 0..N_FAIL_KINDS {
                for caught in [false, true] {
                    k += 1;
                    let fk = fail_kind(fi, k);
                    if caught && !fk.catch_ok {
                        continue;
                    }
                    let ca = carrier(ci, &fk);
                    let builder = ca.builders != (0, 0);
                    let (eff, eff_ev) = effects(&mut rng, k);
                    let op = if caught {
                        Op {
                            kind: OpKind::Run,
                            text: format!("{eff}{}\nr_{k} = try\n{}\ncatch e\n  'caught'\nr_{k}\n", ca.defs, indent(&ca.trigger, 2)),
                            ref_text: None,
                            args: vec![],
                            events: format!("enter:0:0:k0 nf:8 {eff_ev}ts:1:90 {} te ret", ca.events),
                            runs_tests: true,
                            expect: "ok".into(),
                            err_contains: None,
                            ok_value: Some(format!("ok:s{}", kvh::hex(b"caught"))),
                            residue_class: if builder { "builder".into() } else { String::new() },
                            adds_tests: 0,
                            gen_check: None,
                            tags: vec!["run-caught".into(), format!("kind={}", fk.name), format!("carrier={}", ca.name), "catch=yes".into()],
                        }
                    } else {
                        Op {
                            kind: OpKind::Run,
                            text: format!("{eff}{}\n{}\n", ca.defs, ca.trigger),
                            ref_text: Some(if eff.is_empty() { "null".into() } else { eff.clone() }),
                            args: vec![],
                            events: format!("enter:0:0:k0 nf:8 {eff_ev}{}", ca.events),
                            runs_tests: false,
                            expect: "err".into(),
                            err_contains: None,
                            ok_value: None,
                            residue_class: if builder { "builder".into() } else { String::new() },
                            adds_tests: 0,
                            gen_check: None,
                            tags: vec!["run-fail".into(), format!("kind={}", fk.name), format!("carrier={}", ca.name), "catch=no".into()],
                        }
                    };
                    ops.push(op);
                }
            }
            let h = History { ops, limit_ms: 0, mod_dir: mod_dir_s.clone() };
            cx.run_history(&h, false, &format!("sweep:carrier{ci}"));
        }
        // every module, uncaught then again (re-import must fail the same way), then the good one
        let mut ops = vec![setup_op()];
        let mut r2 = Rng::new(7);
        for round in 0..2 {
            for mi in 0..MODULES.len() {
                k += 1;
                // gen_import_op picks randomly; force the module by retrying with a local rng
                let mut op = gen_import_op(&mut r2, k, "", "");
                let mut guard = 0;
                while !(op.text.contains(&format!("import {}\n", MODULES[mi].0))) && guard < 500 {
                    op = gen_import_op(&mut r2, k, "", "");
                    guard += 1;
                }
                op.tags.push(format!("round={round}"));
                ops.push(op);
            }
        }
        let h = History { ops, limit_ms: 0, mod_dir: mod_dir_s.clone() };
        cx.run_history(&h, false, "sweep:imports");
    }

    // 1v. steady state inside a run: every operation shape x iteration counts, plain and nested
    {
        let mut r = Rng::new(19);
        let mut ops = vec![setup_op()];
        for i in 0..(6 * STEADY_OPS.len()) {
            ops.push(gen_steady_op(&mut r, 1100 + i));
        }
        let h = History { ops, limit_ms: 0, mod_dir: mod_dir_s.clone() };
        cx.run_history(&h, false, "sweep:steady-state-inside-run");
    }

    // 1u. operator set-up failures (F-C07-7): every overload x failure kind, 150 caught iterations in
    //     the same frame; every third one also under a native callback / in a generator that is
    //     resumed again in later runs
    {
        let mut r = Rng::new(23);
        let mut k = 1300;
        for kind in 0..3 {
            let mut ops = vec![setup_op()];
            let mut gens: Vec<String> = vec![];
            for oi in 0..OVERLOADS.len() {
                k += 1;
                ops.push(gen_setup_failure_op(&mut r, k, oi, kind, 150, 0, &mut gens));
                if oi % 3 == kind {
                    k += 1;
                    ops.push(gen_setup_failure_op(&mut r, k, oi, kind, 300, 1, &mut gens));
                    k += 1;
                    ops.push(gen_setup_failure_op(&mut r, k, oi, kind, 60, 2, &mut gens));
                }
            }
            for _round in 0..2 {
                for g in gens.clone() {
                    ops.push(gen_setup_failure_next_op(&g));
                }
            }
            let h = History { ops, limit_ms: 0, mod_dir: mod_dir_s.clone() };
            cx.run_history(&h, false, &format!("sweep:operator-setup-failure-kind{kind}"));
        }
    }

    // 1w. top-level `yield` interleaved with failing runs (F-C07-4 regression shape)
    {
        let mut r = Rng::new(17);
        let mut ops = vec![setup_op()];
        let mut k = 1000;
        while ops.len() < 60 {
            k += 1;
            let op = gen_run_op(&mut r, k, false);
            if op.tags.iter().any(|t| t == "top-level-yield" || t == "run-fail" || t == "run-caught") {
                ops.push(op);
            }
        }
        let h = History { ops, limit_ms: 0, mod_dir: mod_dir_s.clone() };
        cx.run_history(&h, false, "sweep:top-level-yield-and-failing-runs");
    }

    // 1x. native functions under meta keys: every shape, uncaught and caught, repeated (the leak
    //     reported by wave 2 accumulated per run), each followed by probes when it fails
    {
        let mut ops = vec![setup_op()];
        let mut r = Rng::new(11);
        for round in 0..3 {
            for _ in 0..(2 * NATIVE_META.len()) {
                let mut op = gen_native_meta_op(&mut r, 800 + ops.len(), &mod_dir_s);
                op.tags.push(format!("round={round}"));
                ops.push(op);
            }
        }
        let h = History { ops, limit_ms: 0, mod_dir: mod_dir_s.clone() };
        cx.run_history(&h, false, "sweep:native-function-under-meta-key");
    }

    // 1y. host calls with 0..300 arguments x CallArgs kind x callee shape, interleaved with normal use
    {
        let mut r = Rng::new(13);
        for part in 0..3 {
            let mut ops = vec![setup_op()];
            for i in 0..70 {
                ops.push(gen_bigcall_op(&mut r, &mod_dir_s));
                if i % 5 == 4 {
                    ops.push(gen_call_op(&mut r, i));
                    ops.push(gen_run_op(&mut r, 900 + i, false));
                }
            }
            let h = History { ops, limit_ms: 0, mod_dir: mod_dir_s.clone() };
            cx.run_history(&h, false, &format!("sweep:host-call-arg-sweep{part}"));
        }
    }

    // 1z. callee recovers inside the caller's builders: 40 instances
    {
        let mut ops = vec![setup_op()];
        for k in 0..40 {
            ops.push(gen_recover_op(&mut rng, 700 + k));
        }
        let h = History { ops, limit_ms: 0, mod_dir: mod_dir_s.clone() };
        cx.run_history(&h, false, "sweep:callee-recovers-inside-callers-builder");
    }

    // 1a. generators that outlive their failure: storage x failure kind x resumption x caught
    {
        let mut k = 300usize;
        for storage in 0..3 {
            let mut ops = vec![setup_op()];
            let mut live: Vec<LiveGen> = vec![];
            for fi in 0..N_FAIL_KINDS {
                for (yields, caught) in [(0usize, false), (1, false), (2, true), (3, false)] {
                    k += 1;
                    let fk = fail_kind(fi, k);
                    if caught && !fk.catch_ok {
                        continue;
                    }
                    ops.push(gen_generator_op(k, storage, &fk.stmt, fk.name, fk.events, yields, caught, &mut live));
                    let lg = live.last().unwrap().clone();
                    ops.push(gen_next_op(&mut rng, &lg));
                    ops.push(gen_next_op(&mut rng, &lg));
                }
            }
            // and once more for every generator, after everything else
            let all = live.clone();
            for lg in &all {
                ops.push(gen_next_op(&mut rng, lg));
            }
            let h = History { ops, limit_ms: 0, mod_dir: mod_dir_s.clone() };
            cx.run_history(&h, false, &format!("sweep:generator-outlives-storage{storage}"));
        }
    }

    // 1b. F-C07-1 regression shape: 120 failing host-initiated calls, then good calls and probes
    if !cx.known.f1 {
        let mut r = rng.fork();
        let mut ops = vec![setup_op()];
        let mut k = 0;
        while ops.len() < 121 {
            k += 1;
            let op = gen_call_op(&mut r, k);
            if op.residue_class == "native-err" || op.residue_class == "call-setup" {
                ops.push(op);
            }
        }
        for k in 0..4 {
            ops.push(gen_call_op(&mut r, 1000 + k));
        }
        let h = History { ops, limit_ms: 0, mod_dir: mod_dir_s.clone() };
        cx.run_history(&h, false, "sweep:120-failing-host-calls");
    }

    // 2. random histories
    let n_hist = if args.thorough() { 12000 } else { 400 };
    for hi in 0..n_hist {
        let mut r = rng.fork();
        let h = gen_history(&mut r, &mod_dir_s, if cx.known.f1 { 20 } else { usize::MAX });
        cx.run_history(&h, false, &format!("random:{hi}"));
    }

    // 3. timeout sub-histories (small execution limit), in a worker process
    let n_to = if args.thorough() { 40 } else { 4 };
    for hi in 0..n_to {
        let mut r = rng.fork();
        let h = gen_timeout_history(&mut r, &mod_dir_s);
        cx.run_history(&h, true, &format!("timeout:{hi}"));
    }

    // 3b. VM-level histories (run_unary_op / run_binary_op directly on a KotoVm)
    let f3_open = open.iter().any(|x| x == "F-C07-3");
    let n_vm = if args.thorough() { 3000 } else { 150 };
    for hi in 0..n_vm {
        let mut r = rng.fork();
        let n = 3 + r.below(28);
        let mut ops: Vec<VmOp> = vec![];
        let mut leaks = 0;
        for _ in 0..n {
            let op = gen_vm_op(&mut r);
            // generation filter (F-C07-3): keep the accumulated residue far from the u8 wrap
            // (only relevant while F-C07-3 is open)
            if op.residue_class == "op-early-return" && f3_open {
                leaks += 1;
                if leaks > 20 {
                    continue;
                }
            }
            ops.push(op);
        }
        run_vm_history(&mut cx, ops, &format!("vm:{hi}"), f3_open);
    }

    // 3c. F-C07-3 regression shape: 120 failing operator calls, then random operations
    if !f3_open {
        let mut r = rng.fork();
        let mut ops: Vec<VmOp> = vec![];
        while ops.len() < 120 {
            let op = gen_vm_op(&mut r);
            if op.residue_class == "op-early-return" {
                ops.push(op);
            }
        }
        for _ in 0..10 {
            ops.push(gen_vm_op(&mut r));
        }
        run_vm_history(&mut cx, ops, "vm:120-failing-operator-calls", f3_open);
    }

    // 3d. REPL sessions (pty)
    {
        let n = if args.thorough() { 12 } else { 3 };
        let mut r = rng.fork();
        let scratch = mod_dir.clone();
        repl_checks(&mut cx, &mut r, &scratch, n);
    }

    // 3e. state outside the VM's stacks: loader chunk cache after a failed import, container state
    //     after a failed native compound operation. A failure is reported as KNOWN-FINDING while the
    //     finding is listed as open (below, witness replay), else as a violation.
    for (id, (fails, what)) in [("F-C07-5", stale_chunk_check(&mod_dir)), ("F-C07-6", retain_check())] {
        cx.rep.case(&format!("state-check:{id}"), true);
        cx.rep.bump(&format!("state-check:{id}"));
        if fails && !open.iter().any(|x| x == id) {
            cx.d_fail += 1;
            cx.rep.violation("D", &format!("C07:leftover-state:{id}"), json!({"check": id, "observed": what,
                "note": "F-C07-5: module rewritten after its import failed must be read again / F-C07-6: list after a failed retain must be a subsequence of the original keeping the unjudged elements"}));
        }
    }

    // 4. listed findings: replay the witnesses
    for e in cx.rep.known_entries() {
        let id = e.get("id").and_then(|x| x.as_str()).unwrap_or("").to_string();
        let status_known = e.get("status").and_then(|x| x.as_str()) == Some("known");
        let (still_fails, what) = match id.as_str() {
            "F-C07-1" => witness_f1(),
            "F-C07-2" => witness_f2(),
            "F-C07-3" => witness_f3(),
            "F-C07-4" => witness_f4(),
            "F-C07-5" => stale_chunk_check(&mod_dir),
            "F-C07-6" => retain_check(),
            _ => continue,
        };
        let n = cx.attributed.get(&id).copied().unwrap_or(0);
        if still_fails && status_known {
            cx.rep.known(&id, &format!("witness still fails: {} ({} operations of this run attributed to it)", what, n));
        } else if still_fails && !status_known {
            cx.d_fail += 1;
            cx.rep.violation("D", &format!("C07:regression:{}", id), json!({"witness": e.get("witness"), "observed": what, "note": "a finding recorded as fixed fails again"}));
        } else if !still_fails && status_known {
            cx.rep.note(format!("{} is listed as known but its witness no longer fails: {}", id, what));
        }
    }
    let at = cx.attributed.clone();
    for (id, n) in at {
        cx.rep.bump_by(&format!("attributed_to_{}", id), n);
    }
    let (k, d) = (cx.k_fail, cx.d_fail);
    cx.rep.extra.insert("k_disagreements".into(), json!(k));
    cx.rep.extra.insert("d_failures".into(), json!(d));
    cx.rep.extra.insert("driver_requests".into(), json!(cx.drv.requests));
    cx.rep.extra.insert("probes".into(), json!(PROBES.iter().map(|p| p.0).collect::<Vec<_>>()));
    drop(cx.worker.take());
    let _ = std::fs::remove_dir_all(&mod_dir);
    std::process::exit(cx.rep.finish());
}
