//! C16 — type hints check exactly as documented; disabling them changes nothing else.
//!
//! The same abstract program (the mini language of `lean/KotoVerif/Model/HintEval.lean`) is
//!   * serialised as an S-expression and evaluated by the Lean model driver `kv_c16`
//!     (with `checks := true` and `checks := false`), and
//!   * rendered as a Koto script and run on the real runtime in-process (`koto::Koto`, stdout
//!     captured through `KotoSettings::with_stdout`) with `enable_type_checks(true)` and `(false)`.
//! (K) result class (ok / the type error with its exact message / thrown value), result value and
//!     emitted output agree with the model in both modes;
//! (D) erasure observed on the implementation: whenever no assertion failed in the "on" run, the
//!     "off" run gives the identical result and output (so match/catch selection is identical too).
use koto::prelude::*;
use kvh::{Args, Driver, Report, Rng};
use serde_json::json;
use std::cell::RefCell;
use std::rc::Rc;

// ------------------------------------------------------------------------------------------------
// mini language (mirror of Model/HintEval.lean)
// ------------------------------------------------------------------------------------------------

#[derive(Clone, Debug, PartialEq)]
enum MetaTy {
    Absent,
    NonString,
    Str(String),
}

#[derive(Clone, Debug, PartialEq)]
enum V {
    Null,
    Bool(bool),
    Int(i64),
    Float(i64), // n + 0.5
    Str(String),
    Range(i64, i64),
    List(Vec<V>),
    Tuple(Vec<V>),
    Map(Vec<(u32, V)>),
    Obj { ty: MetaTy, call: bool, iter: bool, next: bool, es: Vec<(u32, V)>, base: Option<Box<V>> },
    Fn(usize),
    GenFn(usize),
    Native(usize),
    Iter(Vec<V>),
    /// harness-only spellings of an iterator over pairs (the model sees `Iter` of tuples):
    /// `(x0, x1, …).enumerate()` and `(x0, …).zip((y0, …))` — adaptors that hand out their pairs
    /// as temporary tuples inside the runtime
    Enumerate(Vec<V>),
    Zip(Vec<V>, Vec<V>),
    GenInst(usize), // a fresh (not yet started) instance of the zero-argument generator function i
    Host { ty: String, c: bool, i: bool, t: bool },
}

#[derive(Clone, Debug, PartialEq)]
struct Hint {
    name: String,
    opt: bool,
}

/// target forms: a named id `v3`, the wildcard `_`, a named wildcard `_w3`
/// (the model knows only "binds x" / "binds nothing"; both wildcards are `_` in the request)
#[derive(Clone, Debug, PartialEq)]
enum T {
    Id(u32),
    Wild,
    WildNamed(u32),
}

impl From<Option<u32>> for T {
    fn from(x: Option<u32>) -> T {
        match x {
            Some(x) => T::Id(x),
            None => T::Wild,
        }
    }
}

/// patterns of function arguments and match arms
#[derive(Clone, Debug, PartialEq)]
enum P {
    B(T, Option<Hint>),
    Lit(i64),
    Tup(Vec<P>),
}

/// template convenience: the single-pattern arms of the first grid
#[derive(Clone, Debug, PartialEq)]
enum Pat {
    Wild(Option<Hint>),
    Bind(u32, Option<Hint>),
    Lit(i64),
}

type Binder = (T, Option<Hint>);

#[derive(Clone, Debug, PartialEq)]
struct Arm {
    alts: Vec<Vec<P>>, // `or` alternatives, each with one pattern per subject; empty = `else`
    guard: Option<E>,
    body: E,
}

#[derive(Clone, Debug, PartialEq)]
enum E {
    Lit(V),
    Var(u32),
    Add(Box<E>, Box<E>),
    Lt(Box<E>, Box<E>),
    TypeOf(Box<E>),
    Let(T, Option<Hint>, Box<E>),
    LetTemps(Vec<Binder>, Vec<E>),
    LetUnpack(Vec<Binder>, Box<E>),
    Seq(Box<E>, Box<E>),
    Emit(Box<E>),
    If(Box<E>, Box<E>, Box<E>),
    For(Vec<Binder>, Box<E>, Box<E>),
    Call(Box<E>, Vec<E>),
    Ret(Box<E>),
    Throw(Box<E>),
    Try(Box<E>, Vec<(T, Hint, E)>, T, Box<E>),
    Match(Vec<E>, Vec<Arm>),
}

#[derive(Clone, Debug, PartialEq)]
enum GStmt {
    Yld(E),
    Exec(E),
}

#[derive(Clone, Debug, PartialEq)]
enum Body {
    Plain(E),
    Gen(Vec<GStmt>),
}

#[derive(Clone, Debug, PartialEq)]
struct FunDef {
    params: Vec<P>,
    out: Option<Hint>,
    body: Body,
}

#[derive(Clone, Debug, PartialEq)]
struct Prog {
    funs: Vec<FunDef>,
    main: E,
}

// constructors used by the first grid's templates (named ids and `_` only)
fn elet(x: Option<u32>, h: Option<Hint>, e: Box<E>) -> E {
    E::Let(x.into(), h, e)
}
fn efor(bs: Vec<(Option<u32>, Option<Hint>)>, it: Box<E>, body: Box<E>) -> E {
    E::For(bs.into_iter().map(|(x, h)| (x.into(), h)).collect(), it, body)
}
fn etry(body: Box<E>, typed: Vec<(Option<u32>, Hint, E)>, x: Option<u32>, fin: Box<E>) -> E {
    E::Try(body, typed.into_iter().map(|(y, h, b)| (y.into(), h, b)).collect(), x.into(), fin)
}
fn ematch(scrut: Box<E>, arms: Vec<(Pat, E)>) -> E {
    E::Match(
        vec![*scrut],
        arms.into_iter()
            .map(|(p, body)| Arm {
                alts: vec![vec![match p {
                    Pat::Wild(h) => P::B(T::Wild, h),
                    Pat::Bind(x, h) => P::B(T::Id(x), h),
                    Pat::Lit(n) => P::Lit(n),
                }]],
                guard: None,
                body,
            })
            .collect(),
    )
}
fn ps(v: Vec<(u32, Option<Hint>)>) -> Vec<P> {
    v.into_iter().map(|(x, h)| P::B(T::Id(x), h)).collect()
}

fn bx(e: E) -> Box<E> {
    Box::new(e)
}
fn seq(items: Vec<E>) -> E {
    let mut it = items.into_iter().rev();
    let mut acc = it.next().expect("non-empty block");
    for e in it {
        acc = E::Seq(bx(e), bx(acc));
    }
    acc
}
fn lit_i(n: i64) -> E {
    E::Lit(V::Int(n))
}
fn lit_s(s: &str) -> E {
    E::Lit(V::Str(s.to_string()))
}
fn hint(name: &str, opt: bool) -> Hint {
    Hint { name: name.to_string(), opt }
}

// ---- S-expressions (request syntax of Drivers/C16.lean) ---------------------------------------

fn sx_name(s: &str) -> String {
    kvh::hex(s.as_bytes())
}
fn b01(b: bool) -> char {
    if b { '1' } else { '0' }
}

fn sx_entries(es: &[(u32, V)]) -> String {
    es.iter().map(|(k, v)| format!("({} {})", k, sx_v(v))).collect::<Vec<_>>().join(" ")
}

fn sx_v(v: &V) -> String {
    match v {
        V::Null => "null".into(),
        V::Bool(b) => format!("b{}", b01(*b)),
        V::Int(n) => format!("i{}", n),
        V::Float(n) => format!("fl{}", n),
        V::Str(s) => format!("s{}", sx_name(s)),
        V::Range(a, b) => format!("(r {} {})", a, b),
        V::List(xs) => format!("(l{})", xs.iter().map(|x| format!(" {}", sx_v(x))).collect::<String>()),
        V::Tuple(xs) => format!("(t{})", xs.iter().map(|x| format!(" {}", sx_v(x))).collect::<String>()),
        V::Iter(xs) => format!("(it{})", xs.iter().map(|x| format!(" {}", sx_v(x))).collect::<String>()),
        V::Enumerate(xs) => sx_v(&V::Iter(xs.iter().enumerate().map(|(i, x)| V::Tuple(vec![V::Int(i as i64), x.clone()])).collect())),
        V::Zip(xs, ys) => sx_v(&V::Iter(xs.iter().zip(ys.iter()).map(|(x, y)| V::Tuple(vec![x.clone(), y.clone()])).collect())),
        V::Map(es) => format!("(m{}{})", if es.is_empty() { "" } else { " " }, sx_entries(es)),
        V::Obj { ty, call, iter, next, es, base } => {
            let t = match ty {
                MetaTy::Absent => "-".to_string(),
                MetaTy::NonString => "!".to_string(),
                MetaTy::Str(s) => sx_name(s),
            };
            let b = match base {
                None => "-".to_string(),
                Some(b) => sx_v(b),
            };
            format!("(o {} {}{}{} ({}) {})", t, b01(*call), b01(*iter), b01(*next), sx_entries(es), b)
        }
        V::Fn(i) => format!("(fn {})", i),
        V::GenFn(i) => format!("(gf {})", i),
        V::Native(i) => format!("(nat {})", i),
        V::GenInst(i) => format!("(gi {})", i),
        V::Host { ty, c, i, t } => format!("(host {} {}{}{})", sx_name(ty), b01(*c), b01(*i), b01(*t)),
    }
}

fn sx_hint(h: &Hint) -> String {
    format!("(h {} {})", sx_name(&h.name), b01(h.opt))
}
fn sx_hint_opt(h: &Option<Hint>) -> String {
    match h {
        None => "-".into(),
        Some(h) => sx_hint(h),
    }
}
fn sx_t(x: &T) -> String {
    match x {
        T::Id(x) => x.to_string(),
        T::Wild | T::WildNamed(_) => "_".into(),
    }
}
fn sx_p(p: &P) -> String {
    match p {
        P::B(x, h) => format!("(pb {} {})", sx_t(x), sx_hint_opt(h)),
        P::Lit(n) => format!("(pl {})", n),
        P::Tup(ps) => format!("(pt{})", ps.iter().map(|p| format!(" {}", sx_p(p))).collect::<String>()),
    }
}
fn sx_binders(bs: &[Binder]) -> String {
    bs.iter().map(|(x, h)| format!("(b {} {})", sx_t(x), sx_hint_opt(h))).collect::<Vec<_>>().join(" ")
}

fn sx_e(e: &E) -> String {
    match e {
        E::Lit(v) => format!("(lit {})", sx_v(v)),
        E::Var(x) => format!("(var {})", x),
        E::Add(a, b) => format!("(add {} {})", sx_e(a), sx_e(b)),
        E::Lt(a, b) => format!("(lt {} {})", sx_e(a), sx_e(b)),
        E::TypeOf(a) => format!("(ty {})", sx_e(a)),
        E::Let(x, h, a) => format!("(let {} {} {})", sx_t(x), sx_hint_opt(h), sx_e(a)),
        E::LetTemps(bs, es) => format!("(lett ({}){})", sx_binders(bs), es.iter().map(|a| format!(" {}", sx_e(a))).collect::<String>()),
        E::LetUnpack(bs, a) => format!("(letu ({}) {})", sx_binders(bs), sx_e(a)),
        E::Seq(a, b) => format!("(seq {} {})", sx_e(a), sx_e(b)),
        E::Emit(a) => format!("(emit {})", sx_e(a)),
        E::If(c, t, f) => format!("(if {} {} {})", sx_e(c), sx_e(t), sx_e(f)),
        E::For(bs, it, body) => format!("(for ({}) {} {})", sx_binders(bs), sx_e(it), sx_e(body)),
        E::Call(f, args) => format!("(call {}{})", sx_e(f), args.iter().map(|a| format!(" {}", sx_e(a))).collect::<String>()),
        E::Ret(a) => format!("(ret {})", sx_e(a)),
        E::Throw(a) => format!("(throw {})", sx_e(a)),
        E::Try(body, typed, x, fin) => format!(
            "(try {} ({}) {} {})",
            sx_e(body),
            typed.iter().map(|(y, h, b)| format!("(c {} {} {})", sx_t(y), sx_hint(h), sx_e(b))).collect::<Vec<_>>().join(" "),
            sx_t(x),
            sx_e(fin)
        ),
        E::Match(ss, arms) => format!(
            "(match ({}){})",
            ss.iter().map(sx_e).collect::<Vec<_>>().join(" "),
            arms.iter()
                .map(|a| format!(
                    " (arm ({}) {} {})",
                    a.alts.iter().map(|alt| format!("({})", alt.iter().map(sx_p).collect::<Vec<_>>().join(" "))).collect::<Vec<_>>().join(" "),
                    a.guard.as_ref().map_or("-".to_string(), sx_e),
                    sx_e(&a.body)
                ))
                .collect::<String>()
        ),
    }
}

fn sx_fun(f: &FunDef) -> String {
    let ps = f.params.iter().map(sx_p).collect::<Vec<_>>().join(" ");
    let body = match &f.body {
        Body::Plain(e) => format!("(plain {})", sx_e(e)),
        Body::Gen(ss) => format!(
            "(gen{})",
            ss.iter()
                .map(|s| match s {
                    GStmt::Yld(e) => format!(" (y {})", sx_e(e)),
                    GStmt::Exec(e) => format!(" (x {})", sx_e(e)),
                })
                .collect::<String>()
        ),
    };
    format!("(fun ({}) {} {})", ps, sx_hint_opt(&f.out), body)
}

const FUEL: u32 = 100000;

fn request(p: &Prog) -> String {
    format!(
        "run {} (funs{}) {}",
        FUEL,
        p.funs.iter().map(|f| format!(" {}", sx_fun(f))).collect::<String>(),
        sx_e(&p.main)
    )
}

// ---- rendering as Koto source -------------------------------------------------------------------

const NATIVES: &[&str] = &["koto.type", "string.to_uppercase", "list.first"];

fn r_str(s: &str) -> String {
    // generator strings are ASCII without quotes/backslashes/braces
    debug_assert!(s.chars().all(|c| c.is_ascii() && c != '\'' && c != '\\' && c != '{' && c != '\n'));
    format!("'{}'", s)
}

fn r_entries(es: &[(u32, V)]) -> Vec<String> {
    es.iter().map(|(k, v)| format!("k{}: {}", k, r_v(v))).collect()
}

fn r_v(v: &V) -> String {
    match v {
        V::Null => "null".into(),
        V::Bool(b) => b.to_string(),
        V::Int(n) => {
            if *n < 0 {
                format!("({})", n)
            } else {
                n.to_string()
            }
        }
        V::Float(n) => {
            let f = *n as f64 + 0.5;
            if f < 0.0 {
                format!("({:?})", f)
            } else {
                format!("{:?}", f)
            }
        }
        V::Str(s) => r_str(s),
        V::Range(a, b) => format!("({}..{})", r_v(&V::Int(*a)), r_v(&V::Int(*b))),
        V::List(xs) => format!("[{}]", xs.iter().map(r_v).collect::<Vec<_>>().join(", ")),
        V::Tuple(xs) => match xs.len() {
            0 => "()".into(),
            1 => format!("({},)", r_v(&xs[0])),
            _ => format!("({})", xs.iter().map(r_v).collect::<Vec<_>>().join(", ")),
        },
        V::Iter(xs) => format!("{}.iter()", r_v(&V::Tuple(xs.clone()))),
        V::Enumerate(xs) => format!("{}.enumerate()", r_v(&V::Tuple(xs.clone()))),
        V::Zip(xs, ys) => format!("{}.zip({})", r_v(&V::Tuple(xs.clone())), r_v(&V::Tuple(ys.clone()))),
        V::Map(es) => format!("{{{}}}", r_entries(es).join(", ")),
        V::Obj { ty, call, iter, next, es, base } => {
            // `@meta z` forces a metamap even when no other meta entry is present
            let mut parts = vec!["@meta z: 0".to_string()];
            match ty {
                MetaTy::Absent => {}
                MetaTy::NonString => parts.push("@type: 42".into()),
                MetaTy::Str(s) => parts.push(format!("@type: {}", r_str(s))),
            }
            if let Some(b) = base {
                parts.push(format!("@base: {}", r_v(b)));
            }
            if *call {
                parts.push("@call: || 1".into());
            }
            if *iter {
                parts.push("@iterator: || (1, 2).iter()".into());
            }
            if *next {
                parts.push("@next: || null".into());
            }
            parts.extend(r_entries(es));
            format!("{{{}}}", parts.join(", "))
        }
        V::Fn(i) | V::GenFn(i) => format!("f{}", i),
        V::GenInst(i) => format!("f{}()", i),
        V::Native(i) => NATIVES[*i % NATIVES.len()].to_string(),
        V::Host { ty, c, i, t } => format!("mkhost({}, {}, {}, {})", r_str(ty), c, i, t),
    }
}

fn r_hint(h: &Hint) -> String {
    format!("{}{}", h.name, if h.opt { "?" } else { "" })
}
fn r_binder(x: &T, h: &Option<Hint>) -> String {
    let id = match x {
        T::Id(x) => format!("v{}", x),
        T::Wild => "_".to_string(),
        T::WildNamed(x) => format!("_w{}", x),
    };
    match h {
        Some(h) => format!("{}: {}", id, r_hint(h)),
        None => id,
    }
}
fn r_p(p: &P) -> String {
    match p {
        P::B(x, h) => r_binder(x, h),
        P::Lit(n) => n.to_string(),
        P::Tup(ps) => match ps.len() {
            1 => format!("({},)", r_p(&ps[0])),
            _ => format!("({})", ps.iter().map(r_p).collect::<Vec<_>>().join(", ")),
        },
    }
}

/// single-line form, if the expression has one
fn inline(e: &E) -> Option<String> {
    Some(match e {
        E::Lit(v) => r_v(v),
        E::Var(x) => format!("v{}", x),
        E::Add(a, b) => format!("({} + {})", inline(a)?, inline(b)?),
        E::Lt(a, b) => format!("({} < {})", inline(a)?, inline(b)?),
        E::TypeOf(a) => format!("koto.type({})", inline(a)?),
        E::Emit(a) => format!("print(repr({}))", inline(a)?),
        E::Call(f, args) => {
            let fs = match &**f {
                E::Lit(V::Fn(i)) | E::Lit(V::GenFn(i)) => format!("f{}", i),
                E::Var(x) => format!("v{}", x),
                other => format!("({})", inline(other)?),
            };
            let mut a = vec![];
            for x in args {
                a.push(inline(x)?);
            }
            format!("{}({})", fs, a.join(", "))
        }
        E::If(c, t, f) => format!("(if {} then {} else {})", inline(c)?, inline(t)?, inline(f)?),
        _ => return None,
    })
}

thread_local! {
    /// render `return null` as a bare `return` (set per case by the generators)
    static BARE_RETURN: std::cell::Cell<bool> = const { std::cell::Cell::new(true) };
}

fn pad(n: usize) -> String {
    " ".repeat(n)
}

/// lines of an expression used as a statement (or as the right-hand side of a `let`): the first line
/// carries no indentation (the caller prefixes it), the others are indented absolutely.
fn expr_lines(e: &E, ind: usize) -> Option<Vec<String>> {
    // statement forms first (some of them also have an inline form that is only used in operands)
    match e {
        E::If(c, t, f) if inline(e).is_none() => {
            let mut v = vec![format!("if {}", inline(c)?)];
            v.extend(block(t, ind + 2)?);
            v.push(format!("{}else", pad(ind)));
            v.extend(block(f, ind + 2)?);
            Some(v)
        }
        E::For(bs, it, body) => {
            if bs.is_empty() {
                return None;
            }
            let b = bs.iter().map(|(x, h)| r_binder(x, h)).collect::<Vec<_>>().join(", ");
            let mut v = vec![format!("for {} in {}", b, inline(it)?)];
            v.extend(block(body, ind + 2)?);
            Some(v)
        }
        E::Match(ss, arms) => {
            if arms.is_empty() || ss.is_empty() {
                return None;
            }
            let mut subj = vec![];
            for x in ss {
                subj.push(inline(x)?);
            }
            let mut v = vec![format!("match {}", subj.join(", "))];
            for arm in arms {
                let mut head = if arm.alts.is_empty() {
                    if arm.guard.is_some() {
                        return None;
                    }
                    "else".to_string()
                } else {
                    let alts: Vec<String> = arm
                        .alts
                        .iter()
                        .map(|alt| alt.iter().map(r_p).collect::<Vec<_>>().join(", "))
                        .collect();
                    alts.join(" or ")
                };
                if let Some(g) = &arm.guard {
                    head.push_str(&format!(" if {}", inline(g)?));
                }
                if !arm.alts.is_empty() {
                    head.push_str(" then");
                }
                v.push(format!("{}{}", pad(ind + 2), head));
                v.extend(block(&arm.body, ind + 4)?);
            }
            Some(v)
        }
        E::LetTemps(bs, es) => {
            if bs.is_empty() || bs.len() != es.len() {
                return None;
            }
            let hinted = bs.iter().any(|(_, h)| h.is_some());
            let lhs = bs.iter().map(|(x, h)| r_binder(x, h)).collect::<Vec<_>>().join(", ");
            let mut rhs = vec![];
            for x in es {
                rhs.push(inline(x)?);
            }
            Some(vec![format!("{}{} = {}", if hinted { "let " } else { "" }, lhs, rhs.join(", "))])
        }
        E::LetUnpack(bs, e) => {
            if bs.len() < 2 {
                return None;
            }
            let hinted = bs.iter().any(|(_, h)| h.is_some());
            let lhs = bs.iter().map(|(x, h)| r_binder(x, h)).collect::<Vec<_>>().join(", ");
            Some(vec![format!("{}{} = {}", if hinted { "let " } else { "" }, lhs, inline(e)?)])
        }
        E::Try(body, typed, x, fin) => {
            let mut v = vec!["try".to_string()];
            v.extend(block(body, ind + 2)?);
            for (y, h, b) in typed {
                v.push(format!("{}catch {}", pad(ind), r_binder(y, &Some(h.clone()))));
                v.extend(block(b, ind + 2)?);
            }
            v.push(format!("{}catch {}", pad(ind), r_binder(x, &None)));
            v.extend(block(fin, ind + 2)?);
            Some(v)
        }
        E::Let(x, h, rhs) => {
            let head = match (x, h) {
                (T::Id(x), None) => format!("v{} = ", x),
                (_, None) => return None,
                (_, _) => format!("let {} = ", r_binder(x, h)),
            };
            let mut r = match inline(rhs) {
                Some(s) => vec![s],
                None => match &**rhs {
                    E::If(..) | E::Match(..) | E::Try(..) | E::For(..) => expr_lines(rhs, ind)?,
                    _ => return None,
                },
            };
            r[0] = format!("{}{}", head, r[0]);
            Some(r)
        }
        // `return null` is also written as a bare `return` (same meaning: null is asserted against `-> T`)
        E::Ret(a) if matches!(**a, E::Lit(V::Null)) && BARE_RETURN.with(|b| b.get()) => Some(vec!["return".to_string()]),
        E::Ret(a) => Some(vec![format!("return {}", inline(a)?)]),
        E::Throw(a) => Some(vec![format!("throw {}", inline(a)?)]),
        E::Seq(..) => None,
        other => Some(vec![inline(other)?]),
    }
}

/// a block: the statements of a (right-nested) `Seq`, one after the other at indentation `ind`
fn block(e: &E, ind: usize) -> Option<Vec<String>> {
    let mut out = vec![];
    let mut cur = e;
    loop {
        match cur {
            E::Seq(a, b) => {
                if matches!(**a, E::Seq(..)) {
                    // left-nested sequences: flatten recursively
                    out.extend(block(a, ind)?);
                } else {
                    let mut ls = expr_lines(a, ind)?;
                    ls[0] = format!("{}{}", pad(ind), ls[0]);
                    out.extend(ls);
                }
                cur = b;
            }
            last => {
                let mut ls = expr_lines(last, ind)?;
                ls[0] = format!("{}{}", pad(ind), ls[0]);
                out.extend(ls);
                return Some(out);
            }
        }
    }
}

fn render(p: &Prog) -> Option<String> {
    let mut lines = vec![];
    for (i, f) in p.funs.iter().enumerate() {
        let ps = f.params.iter().map(r_p).collect::<Vec<_>>().join(", ");
        let out = match &f.out {
            Some(h) => format!(" -> {}", r_hint(h)),
            None => String::new(),
        };
        lines.push(format!("f{} = |{}|{}", i, ps, out));
        match &f.body {
            Body::Plain(e) => lines.extend(block(e, 2)?),
            Body::Gen(ss) => {
                if !ss.iter().any(|s| matches!(s, GStmt::Yld(_))) {
                    return None; // without a `yield` Koto would not make it a generator
                }
                for s in ss {
                    match s {
                        GStmt::Yld(e) => lines.push(format!("  yield {}", inline(e)?)),
                        GStmt::Exec(e) => lines.extend(block(e, 2)?),
                    }
                }
            }
        }
    }
    lines.extend(block(&p.main, 0)?);
    Some(lines.join("\n") + "\n")
}

// ------------------------------------------------------------------------------------------------
// the real runtime
// ------------------------------------------------------------------------------------------------

#[derive(Clone)]
struct Host {
    ty: KString,
    callable: bool,
    indexable: bool,
    iterable: bool,
}

impl KotoType for Host {
    fn type_static() -> &'static str {
        "Host"
    }
    fn type_string(&self) -> KString {
        self.ty.clone()
    }
}
impl KotoCopy for Host {
    fn copy(&self) -> KObject {
        KObject::from(self.clone())
    }
}
impl KotoAccess for Host {}
impl KotoObject for Host {
    fn is_callable(&self) -> bool {
        self.callable
    }
    fn call(&mut self, _ctx: &mut CallContext) -> koto::runtime::Result<KValue> {
        Ok(KValue::Null)
    }
    fn size(&self) -> Option<usize> {
        if self.indexable { Some(0) } else { None }
    }
    fn is_iterable(&self) -> IsIterable {
        if self.iterable { IsIterable::ForwardIterator } else { IsIterable::NotIterable }
    }
    fn iterator_next(&mut self, _vm: &mut KotoVm) -> Option<KIteratorOutput> {
        None
    }
}

/// canonical text of a runtime value (same grammar as `canon` in Drivers/C16.lean)
fn canon(v: &KValue) -> String {
    let mut s = String::new();
    canon_into(v, &mut s, 0);
    s
}

fn canon_into(v: &KValue, out: &mut String, depth: usize) {
    if depth > 40 {
        out.push_str("<deep>");
        return;
    }
    match v {
        KValue::Null => out.push_str("null"),
        KValue::Bool(b) => out.push_str(if *b { "b1" } else { "b0" }),
        KValue::Number(n) => out.push_str(&kvh::canon::num(n)),
        KValue::Str(s) => {
            // A caught runtime error arrives as its message; when it crossed a frame the runtime
            // appends the call trace ("\n--- <path> - <line>:<col> ..."). Only the message is compared.
            let text = s.as_str();
            let text = text.find("\n--- ").map_or(text, |i| &text[..i]);
            out.push('s');
            out.push_str(&kvh::hex(text.as_bytes()));
        }
        KValue::Range(r) => match (r.start(), r.end()) {
            (Some(a), Some((b, false))) => out.push_str(&format!("(r {} {})", a, b)),
            _ => out.push_str("<range?>"),
        },
        KValue::List(l) => {
            out.push_str("(l");
            for x in l.data().iter() {
                out.push(' ');
                canon_into(x, out, depth + 1);
            }
            out.push(')');
        }
        KValue::Tuple(t) => {
            out.push_str("(t");
            for x in t.data().iter() {
                out.push(' ');
                canon_into(x, out, depth + 1);
            }
            out.push(')');
        }
        KValue::Map(m) => {
            if m.meta_map().is_some() {
                out.push_str("(o s");
                out.push_str(&kvh::hex(v.type_as_string().as_str().as_bytes()));
            } else {
                out.push_str("(m");
            }
            for (k, x) in m.data().iter() {
                out.push_str(" (");
                canon_into(k.value(), out, depth + 1);
                out.push(' ');
                canon_into(x, out, depth + 1);
                out.push(')');
            }
            out.push(')');
        }
        KValue::Function(f) => out.push_str(if f.flags.is_generator() { "<genfn>" } else { "<fn>" }),
        KValue::NativeFunction(_) => out.push_str("<native>"),
        KValue::Iterator(_) => out.push_str("<iter>"),
        KValue::Object(_) => {
            out.push_str("<host:");
            out.push_str(&kvh::hex(v.type_as_string().as_str().as_bytes()));
            out.push('>');
        }
        KValue::TemporaryTuple(_) => out.push_str("<temptuple>"),
    }
}

#[derive(Clone, Default)]
struct Capture {
    buf: Rc<RefCell<String>>,
}
impl KotoFile for Capture {
    fn id(&self) -> KString {
        "_c16_capture_".into()
    }
}
impl KotoRead for Capture {}
impl KotoWrite for Capture {
    fn write(&self, bytes: &[u8]) -> koto::runtime::Result<()> {
        self.buf.borrow_mut().push_str(&String::from_utf8_lossy(bytes));
        Ok(())
    }
    fn write_line(&self, output: &str) -> koto::runtime::Result<()> {
        let mut b = self.buf.borrow_mut();
        b.push_str(output);
        b.push('\n');
        Ok(())
    }
    fn flush(&self) -> koto::runtime::Result<()> {
        Ok(())
    }
}

/// outcome of one run on the implementation
#[derive(Clone, Debug, PartialEq)]
enum Out {
    Ok(String),      // canonical result value
    Err(String),     // first line of the runtime error message
    Compile(String), // compile error (never expected)
    Panic(String),
}

fn make_koto(cap: &Capture) -> Koto {
    let settings = KotoSettings::default()
        .with_stdout(cap.clone())
        .with_stderr(Capture::default())
        .with_execution_limit(std::time::Duration::from_secs(10));
    let koto = Koto::with_settings(settings);
    add_prelude(koto.prelude());
    koto
}

/// Run a script through `koto::Koto` with `CompileArgs::enable_type_checks(checks)`.
/// Returns the outcome, the captured stdout lines, and the result value (when there is one).
fn run_koto(script: &str, checks: bool) -> (Out, Vec<String>, Option<KValue>) {
    let cap = Capture::default();
    let r = kvh::catch(|| {
        let mut koto = make_koto(&cap);
        match koto.compile(CompileArgs::new(script).enable_type_checks(checks)) {
            Err(e) => (Out::Compile(e.to_string()), None),
            Ok(chunk) => match koto.run(chunk) {
                Ok(v) => (Out::Ok(canon(&v)), Some(v)),
                Err(e) => {
                    let msg = e.to_string();
                    (Out::Err(msg.lines().next().unwrap_or("").to_string()), None)
                }
            },
        }
    });
    let lines: Vec<String> = cap.buf.borrow().lines().map(|l| l.to_string()).collect();
    match r {
        Ok((o, v)) => (o, lines, v),
        Err(p) => (Out::Panic(p), lines, None),
    }
}

fn add_prelude(prelude: &KMap) {
    prelude.add_fn("repr", |ctx| match ctx.args() {
        [v] => Ok(KValue::Str(canon(v).into())),
        _ => Ok(KValue::Str("<repr: bad args>".into())),
    });
    prelude.add_fn("mkhost", |ctx| match ctx.args() {
        [KValue::Str(ty), KValue::Bool(c), KValue::Bool(i), KValue::Bool(t)] => Ok(KValue::Object(KObject::from(Host {
            ty: ty.clone(),
            callable: *c,
            indexable: *i,
            iterable: *t,
        }))),
        _ => Ok(KValue::Null),
    });
}

/// The same script on a bare `KotoVm` (compiled with `CompilerSettings::enable_type_checks`), where
/// the error kind is still visible: `ok <canon>` | `E:type <message>` (ErrorKind::UnexpectedType) |
/// `E:thrown <canon>` (ErrorKind::KotoError) | `E:other <message>`.
fn run_vm(script: &str, checks: bool) -> String {
    let r = kvh::catch(|| {
        let mut vm = KotoVm::with_settings(KotoVmSettings {
            stdout: make_ptr!(Capture::default()),
            stderr: make_ptr!(Capture::default()),
            ..Default::default()
        });
        add_prelude(vm.prelude());
        let settings = CompilerSettings { enable_type_checks: checks, ..Default::default() };
        let chunk = match vm.loader().borrow_mut().compile_script(script, None, settings) {
            Ok(c) => c,
            Err(e) => return format!("compile-error {}", e),
        };
        match vm.run(chunk) {
            Ok(v) => format!("ok {}", canon(&v)),
            Err(e) => match &e.error {
                koto::ErrorKind::UnexpectedType { expected, unexpected } => {
                    format!("E:type expected {}, found {}", expected, unexpected.type_as_string())
                }
                koto::ErrorKind::KotoError { thrown_value, .. } => format!("E:thrown {}", canon(thrown_value)),
                koto::ErrorKind::StringError(m) => format!("E:string {}", m.lines().next().unwrap_or("")),
                other => format!("E:other {}", other.to_string().lines().next().unwrap_or("")),
            },
        }
    });
    r.unwrap_or_else(|p| format!("panic {}", p))
}

/// the bare-VM outcome that corresponds to a model result
fn mres_texts(m: &MRes) -> Option<Vec<String>> {
    Some(match m {
        MRes::Ok(c) => vec![format!("ok {}", c)],
        MRes::TypeErr(msg) => vec![format!("E:type {}", msg)],
        MRes::Thrown(c) => vec![format!("E:thrown {}", c)],
        MRes::Stuck(_) => return None,
    })
}

/// what the model says for one mode
#[derive(Clone, Debug, PartialEq)]
enum MRes {
    Ok(String),
    TypeErr(String), // message
    Thrown(String),  // canonical thrown value
    Stuck(String),
}

fn parse_mres(s: &str) -> MRes {
    if let Some(r) = s.strip_prefix("ok ") {
        MRes::Ok(r.to_string())
    } else if let Some(r) = s.strip_prefix("E:type ") {
        MRes::TypeErr(String::from_utf8(kvh::unhex(r).unwrap_or_default()).unwrap_or_default())
    } else if let Some(r) = s.strip_prefix("E:thrown ") {
        MRes::Thrown(r.to_string())
    } else {
        MRes::Stuck(s.to_string())
    }
}

struct Model {
    on: MRes,
    on_trace: String,
    fails: u64,
    off: MRes,
    off_trace: String,
}

fn parse_model(resp: &str) -> Option<Model> {
    let parts: Vec<&str> = resp.split(" ;; ").collect();
    if parts.len() != 5 {
        return None;
    }
    Some(Model {
        on: parse_mres(parts[0]),
        on_trace: parts[1].to_string(),
        fails: parts[2].strip_prefix("fails=")?.parse().ok()?,
        off: parse_mres(parts[3]),
        off_trace: parts[4].to_string(),
    })
}

/// does the implementation's outcome agree with the model's? `None` = not compared (model stuck)
fn agree(m: &MRes, o: &Out) -> Option<bool> {
    Some(match (m, o) {
        (MRes::Stuck(_), _) => return None,
        (MRes::Ok(a), Out::Ok(b)) => a == b,
        (MRes::TypeErr(msg), Out::Err(line)) => msg == line,
        (MRes::Thrown(c), Out::Err(line)) => {
            if let Some(h) = c.strip_prefix('s') {
                kvh::unhex(h).map(|b| String::from_utf8_lossy(&b).to_string()).as_deref() == Some(line.as_str())
            } else if let Some(n) = c.strip_prefix('i') {
                n == line
            } else {
                true // other thrown values: only the class (an uncaught error) is compared
            }
        }
        _ => false,
    })
}

fn trace_text(lines: &[String]) -> String {
    if lines.is_empty() { "-".to_string() } else { lines.join(" ") }
}

// ------------------------------------------------------------------------------------------------
// evaluation of one case
// ------------------------------------------------------------------------------------------------

fn has_try(e: &E) -> bool {
    match e {
        E::Try(..) => true,
        E::Lit(_) | E::Var(_) => false,
        E::Add(a, b) | E::Lt(a, b) | E::Seq(a, b) => has_try(a) || has_try(b),
        E::TypeOf(a) | E::Let(_, _, a) | E::Emit(a) | E::Ret(a) | E::Throw(a) => has_try(a),
        E::If(a, b, c) => has_try(a) || has_try(b) || has_try(c),
        E::For(_, a, b) => has_try(a) || has_try(b),
        E::Call(f, args) => has_try(f) || args.iter().any(has_try),
        E::LetTemps(_, es) => es.iter().any(has_try),
        E::LetUnpack(_, a) => has_try(a),
        E::Match(ss, arms) => {
            ss.iter().any(has_try) || arms.iter().any(|a| has_try(&a.body) || a.guard.as_ref().is_some_and(has_try))
        }
    }
}

fn prog_has_try(p: &Prog) -> bool {
    has_try(&p.main)
        || p.funs.iter().any(|f| match &f.body {
            Body::Plain(e) => has_try(e),
            Body::Gen(ss) => ss.iter().any(|s| match s {
                GStmt::Yld(e) | GStmt::Exec(e) => has_try(e),
            }),
        })
}

struct Case {
    tag: String,
    request: String,
    script: String,
    has_try: bool,
    hints: usize,
}

struct Ctx {
    rep: Report,
    drv: Driver,
    pending: Vec<Case>,
    k_fail: u64,
    d_fail: u64,
    unrenderable: u64,
    stuck: u64,
    erasure_checked: u64,
    erasure_nontrivial: u64,
    vm_every: u64, // every n-th case is also run on a bare KotoVm to compare the error *kind*
    vm_checked: u64,
}

impl Ctx {
    fn push(&mut self, tag: &str, p: &Prog) {
        let Some(script) = render(p) else {
            self.unrenderable += 1;
            return;
        };
        let request = request(p);
        let hints = request.matches("(h x").count();
        self.pending.push(Case { tag: tag.to_string(), request, script, has_try: prog_has_try(p), hints });
        if self.pending.len() >= 2000 {
            self.flush();
        }
    }

    fn flush(&mut self) {
        let cases = std::mem::take(&mut self.pending);
        if cases.is_empty() {
            return;
        }
        let reqs: Vec<String> = cases.iter().map(|c| c.request.clone()).collect();
        let resps = self.drv.batch(&reqs);
        for (c, r) in cases.iter().zip(resps.iter()) {
            self.one(c, r);
        }
    }

    fn one(&mut self, c: &Case, resp: &str) {
        self.rep.case(&c.request, c.hints > 0);
        self.rep.bump(&format!("kind={}", c.tag.split(':').next().unwrap_or("")));
        let (on, on_lines, _) = run_koto(&c.script, true);
        let (off, off_lines, _) = run_koto(&c.script, false);
        let on_trace = trace_text(&on_lines);
        let off_trace = trace_text(&off_lines);
        let detail = |extra: serde_json::Value| {
            json!({"tag": c.tag, "request": c.request, "script": c.script,
                   "impl_on": format!("{:?}", on), "impl_on_output": on_trace,
                   "impl_off": format!("{:?}", off), "impl_off_output": off_trace,
                   "model": resp, "extra": extra})
        };
        for (o, name) in [(&on, "on"), (&off, "off")] {
            match o {
                Out::Panic(p) => {
                    self.d_fail += 1;
                    if self.d_fail <= 5 {
                        let d = detail(json!({"panic": p, "mode": name}));
                        self.rep.violation("D", "C16:no-panic", d);
                    }
                    return;
                }
                Out::Compile(m) if m.contains("maximum number of registers") || m.contains("too many locals") => {
                    // a generated program with more than 255 locals in one frame: the compiler's
                    // documented limit (an error, as C05 demands), not a type-hint matter
                    self.rep.bump("skipped: program exceeds the register limit of a frame");
                    return;
                }
                Out::Compile(m) => {
                    self.k_fail += 1;
                    if self.k_fail <= 5 {
                        let d = detail(json!({"compile_error": m, "mode": name,
                            "note": "the rendered program was rejected by the compiler"}));
                        self.rep.violation("K", "K:C16:render/compile", d);
                    }
                    return;
                }
                _ => {}
            }
        }
        let Some(m) = parse_model(resp) else {
            self.k_fail += 1;
            if self.k_fail <= 5 {
                let d = detail(json!({"note": "model driver rejected the request"}));
                self.rep.violation("K", "K:C16:driver-request", d);
            }
            return;
        };
        let kind = c.tag.split(':').next().unwrap_or("").to_string();
        self.rep.bump(&format!(
            "{}:{}",
            kind,
            match &on {
                Out::Ok(_) => "on=ok",
                Out::Err(l) if l.starts_with("expected ") => "on=type-error",
                _ => "on=thrown/other-error",
            }
        ));
        if m.fails == 0 && !matches!(m.on, MRes::Stuck(_)) {
            self.rep.bump(&format!("{}:all-checks-pass", kind));
        }
        if on != off {
            self.rep.bump(&format!("{}:on-and-off-differ", kind));
        }
        if m.fails > 0 {
            if matches!(m.on, MRes::Ok(_)) {
                self.rep.bump(&format!("{}:assertion-failure-caught-inside-program", c.tag.split(':').next().unwrap_or("")));
            }
        }
        if self.rep.samples.len() < 8 && self.rep.evaluations % 1777 == 5 {
            let d = detail(json!({}));
            self.rep.sample(d);
        }

        // (D) erasure on the implementation
        let model_known = !matches!(m.on, MRes::Stuck(_));
        // When must the two compilations behave identically?
        //  * always, if the program has no hint at all (whatever it does: runtime errors of checks that
        //    are not type hints — container sizes, missing keys, … — must not depend on the flag);
        //  * if no assertion failed: known from the model (`fails = 0`, also when the model stops at a
        //    runtime error it does not describe, in a program without `try`), or from a run that
        //    simply succeeds in a program without `try`.
        let on_is_type_error = matches!(&on, Out::Err(l) if l.starts_with("expected "));
        let d_applies = c.hints == 0
            || (!c.has_try && matches!(on, Out::Ok(_)))
            || (model_known && m.fails == 0)
            || (!c.has_try && !model_known && m.fails == 0 && !on_is_type_error);
        let mut d_failed = false;
        if d_applies {
            self.erasure_checked += 1;
            if c.hints > 0 {
                self.erasure_nontrivial += 1;
            } else {
                self.rep.bump("erasure:hint-free-program");
                if !matches!(on, Out::Ok(_)) {
                    self.rep.bump("erasure:hint-free-program-ending-in-an-error");
                }
            }
            if on != off || on_trace != off_trace {
                d_failed = true;
                self.d_fail += 1;
                if self.d_fail <= 5 {
                    let d = detail(json!({"clause": "erasure: no assertion failed with checks enabled, yet disabling checks changes result or output"}));
                    self.rep.violation("D", "C16:erasure", d);
                }
            }
        }

        // (K) both modes against the model
        let k_on = agree(&m.on, &on);
        let k_off = agree(&m.off, &off);
        if k_on.is_none() || k_off.is_none() {
            self.stuck += 1;
            self.rep.bump("model_stuck(not compared)");
        }
        let mut bad = vec![];
        if k_on == Some(false) {
            bad.push("result with checks enabled");
        }
        if k_on.is_some() && m.on_trace != on_trace {
            bad.push("output with checks enabled");
        }
        if k_off == Some(false) {
            bad.push("result with checks disabled");
        }
        if k_off.is_some() && m.off_trace != off_trace {
            bad.push("output with checks disabled");
        }
        if self.rep.evaluations % self.vm_every == 0 {
            self.vm_checked += 1;
            if let Some(t) = mres_texts(&m.on) {
                if !t.contains(&run_vm(&c.script, true)) {
                    bad.push("error kind / result on a bare KotoVm with checks enabled");
                }
            }
            if let Some(t) = mres_texts(&m.off) {
                if !t.contains(&run_vm(&c.script, false)) {
                    bad.push("error kind / result on a bare KotoVm with checks disabled");
                }
            }
        }
        if !bad.is_empty() {
            self.k_fail += 1;
            if self.k_fail <= 5 && !d_failed {
                // The model is the formalised guide: a disagreement on a well-formed program is a
                // behaviour the documented semantics does not allow, so it is reported with the input.
                let d = detail(json!({"disagree": bad,
                    "note": "implementation deviates from the documented type-hint semantics (Model/HintEval.lean, Model/Types.lean); the theorems of Props/C16.lean no longer describe this code"}));
                self.rep.violation("D", "C16:hint-semantics", d);
            }
        }
    }
}

// ------------------------------------------------------------------------------------------------
// bounded-exhaustive grid: positions × hint names × values
// ------------------------------------------------------------------------------------------------

const BUILTIN_NAMES: &[&str] = &[
    "Null", "Bool", "Number", "List", "Range", "Map", "String", "Tuple", "Generator", "Function", "Iterator", "Object",
];
const SPECIAL_NAMES: &[&str] = &["Any", "Callable", "Indexable", "Iterable"];
const USER_NAMES: &[&str] = &["Foo", "Bar", "Baz"];
const UNKNOWN_NAMES: &[&str] = &["Qux", "TemporaryTuple", "any", "Timer"];

fn all_hint_names() -> Vec<&'static str> {
    BUILTIN_NAMES.iter().chain(SPECIAL_NAMES).chain(USER_NAMES).chain(UNKNOWN_NAMES).copied().collect()
}

fn obj(ty: MetaTy, base: Option<V>) -> V {
    V::Obj { ty, call: false, iter: false, next: false, es: vec![], base: base.map(Box::new) }
}
fn obj_t(ty: &str, base: Option<V>) -> V {
    obj(MetaTy::Str(ty.to_string()), base)
}

/// `@base` chain given top-down as a list of `@type` entries, ending in `tail`
fn chain(layers: &[MetaTy], tail: Option<V>) -> V {
    let mut cur = tail;
    for (i, ty) in layers.iter().enumerate().rev() {
        let mut o = obj(ty.clone(), cur);
        if let V::Obj { es, .. } = &mut o {
            es.push((i as u32, V::Int(i as i64)));
        }
        cur = Some(o);
    }
    cur.unwrap()
}

/// values of every kind; function table entries 0 (plain), 1 (generator) are supplied by the templates
fn core_values() -> Vec<(String, V)> {
    let mut v: Vec<(String, V)> = vec![
        ("null".into(), V::Null),
        ("bool".into(), V::Bool(true)),
        ("int".into(), V::Int(7)),
        ("float".into(), V::Float(1)),
        ("string".into(), V::Str("ab".into())),
        ("range".into(), V::Range(1, 3)),
        ("list".into(), V::List(vec![V::Int(1)])),
        ("tuple".into(), V::Tuple(vec![V::Int(1), V::Str("x".into())])),
        ("map".into(), V::Map(vec![(0, V::Int(1))])),
        ("emptymap".into(), V::Map(vec![])),
        ("function".into(), V::Fn(0)),
        ("genfn".into(), V::GenFn(1)),
        ("native".into(), V::Native(0)),
        ("iterator".into(), V::Iter(vec![V::Int(1), V::Int(2)])),
        ("generator-instance".into(), V::GenInst(1)),
        ("host".into(), V::Host { ty: "Timer".into(), c: false, i: false, t: false }),
        ("host-callable".into(), V::Host { ty: "Foo".into(), c: true, i: false, t: false }),
        ("host-indexable".into(), V::Host { ty: "Number".into(), c: false, i: true, t: false }),
        ("host-iterable".into(), V::Host { ty: "Any".into(), c: false, i: false, t: true }),
        ("obj-Foo".into(), obj_t("Foo", None)),
        ("obj-notype".into(), obj(MetaTy::Absent, None)),
        ("obj-badtype".into(), obj(MetaTy::NonString, None)),
        ("obj-Number".into(), obj_t("Number", None)),
        ("obj-Callable".into(), obj_t("Callable", None)),
        ("obj-Any".into(), obj_t("Any", None)),
        ("obj-Null".into(), obj_t("Null", None)),
        (
            "obj-call".into(),
            V::Obj { ty: MetaTy::Str("Foo".into()), call: true, iter: false, next: false, es: vec![], base: None },
        ),
        (
            "obj-iter".into(),
            V::Obj { ty: MetaTy::Absent, call: false, iter: true, next: false, es: vec![(0, V::Int(1))], base: None },
        ),
        (
            "obj-next".into(),
            V::Obj { ty: MetaTy::Str("Bar".into()), call: false, iter: false, next: true, es: vec![], base: None },
        ),
        // @call only on the base: is_callable looks at the value's own metamap only
        (
            "obj-base-call".into(),
            obj(
                MetaTy::Absent,
                Some(V::Obj { ty: MetaTy::Absent, call: true, iter: true, next: false, es: vec![], base: None }),
            ),
        ),
        ("obj-base-int".into(), obj_t("Bar", Some(V::Int(42)))),
        ("obj-base-null".into(), obj(MetaTy::Absent, Some(V::Null))),
        ("obj-base-plainmap".into(), obj_t("Bar", Some(V::Map(vec![(1, V::Int(1))])))),
        ("obj-base-list".into(), obj(MetaTy::Absent, Some(V::List(vec![])))),
        ("obj-base-host".into(), obj_t("Bar", Some(V::Host { ty: "Foo".into(), c: false, i: false, t: false }))),
    ];
    // @base chains of depth 1..3 with `Foo` at each depth; the other layers have no @type / another @type
    for depth in 1..=3usize {
        for pos in 0..=depth {
            for other in [MetaTy::Absent, MetaTy::Str("Bar".into())] {
                let layers: Vec<MetaTy> =
                    (0..=depth).map(|i| if i == pos { MetaTy::Str("Foo".into()) } else { other.clone() }).collect();
                let o = match other {
                    MetaTy::Absent => "untyped",
                    _ => "Bar",
                };
                v.push((format!("chain-d{}-Foo@{}-{}", depth, pos, o), chain(&layers, None)));
            }
        }
    }
    // mixed chains
    v.push((
        "chain-Bar-Baz-Foo-plain".into(),
        chain(
            &[MetaTy::Str("Bar".into()), MetaTy::Str("Baz".into()), MetaTy::Str("Foo".into())],
            Some(V::Map(vec![])),
        ),
    ));
    v.push((
        "chain-bad-untyped-Foo".into(),
        chain(&[MetaTy::NonString, MetaTy::Absent, MetaTy::Str("Foo".into())], None),
    ));
    v.push(("chain-untyped-untyped-int".into(), chain(&[MetaTy::Absent, MetaTy::Absent], Some(V::Int(1)))));
    v
}

/// more chains (all `@type` sequences over {absent, Foo, Bar, non-string} up to `max` layers × tails)
fn chain_values(max: usize) -> Vec<(String, V)> {
    let tys = [MetaTy::Absent, MetaTy::Str("Foo".into()), MetaTy::Str("Bar".into()), MetaTy::NonString];
    let tails: Vec<(&str, Option<V>)> = vec![
        ("none", None),
        ("map", Some(V::Map(vec![]))),
        ("int", Some(V::Int(3))),
        ("str", Some(V::Str("s".into()))),
    ];
    let mut out = vec![];
    for len in 1..=max {
        let mut idx = vec![0usize; len];
        loop {
            let layers: Vec<MetaTy> = idx.iter().map(|i| tys[*i].clone()).collect();
            for (tn, tail) in &tails {
                let name = format!("chain[{}]+{}", idx.iter().map(|i| ["-", "F", "B", "!"][*i]).collect::<String>(), tn);
                out.push((name, chain(&layers, tail.clone())));
            }
            let mut k = len;
            loop {
                if k == 0 {
                    break;
                }
                k -= 1;
                idx[k] += 1;
                if idx[k] < tys.len() {
                    break;
                }
                idx[k] = 0;
            }
            if idx.iter().all(|i| *i == 0) {
                break;
            }
        }
    }
    out
}

/// function table shared by the grid templates: f0 plain identity-ish function, f1 zero-arg generator
fn base_funs() -> Vec<FunDef> {
    vec![
        FunDef { params: ps(vec![(0, None)]), out: None, body: Body::Plain(E::Var(0)) },
        FunDef { params: ps(vec![]), out: None, body: Body::Gen(vec![GStmt::Yld(lit_i(1)), GStmt::Yld(lit_i(2))]) },
    ]
}

const POSITIONS: &[&str] = &[
    "let", "let-ignored", "let-in-try", "let-rebind", "for1", "for1-ignored", "for2-first", "for2-second", "for-second-iteration",
    "arg", "arg-second", "arg-caught", "return-implicit", "return-explicit", "return-in-loop", "return-null-fallthrough",
    "yield", "yield-second", "gen-arg", "gen-return-unchecked", "match-bind", "match-wild", "match-second-arm",
    "match-bind-falls-to-untyped", "catch", "catch-second", "catch-type-error-message", "nested-call-arg-and-return",
    "yield-failure-caught-typed", "throw-through-generator",
    "return-bare", "return-bare-in-loop",
];

/// the program that puts hint `h` on value `x` at position `pos`
fn template(pos: &str, h: &Hint, x: &V) -> Prog {
    let mut funs = base_funs();
    let hs = Some(h.clone());
    let xv = E::Lit(x.clone());
    let em = |n: i64| E::Emit(bx(lit_i(n)));
    let main = match pos {
        "let" => seq(vec![em(1), elet(Some(0), hs, bx(xv)), em(2), E::TypeOf(bx(E::Var(0)))]),
        "let-ignored" => seq(vec![elet(None, hs, bx(xv)), em(2)]),
        // the value is written to the variable before the assertion runs
        "let-in-try" => seq(vec![
            elet(Some(0), None, bx(lit_i(0))),
            etry(bx(seq(vec![elet(Some(0), hs, bx(xv)), em(1)])), vec![], Some(1), bx(E::Emit(bx(E::Var(1))))),
            E::Emit(bx(E::TypeOf(bx(E::Var(0))))),
            E::Var(0),
        ]),
        "let-rebind" => seq(vec![elet(Some(0), None, bx(xv)), elet(Some(1), hs, bx(E::Var(0))), E::Var(1)]),
        "for1" => seq(vec![efor(
            vec![(Some(0), hs)],
            bx(E::Lit(V::List(vec![x.clone()]))),
            bx(seq(vec![em(1), E::TypeOf(bx(E::Var(0)))])),
        )]),
        "for1-ignored" => efor(vec![(None, hs)], bx(E::Lit(V::Tuple(vec![x.clone(), x.clone()]))), bx(em(1))),
        "for2-first" => efor(
            vec![(Some(0), hs), (Some(1), None)],
            bx(E::Lit(V::List(vec![V::Tuple(vec![x.clone(), V::Int(5)])]))),
            bx(seq(vec![E::Emit(bx(E::Var(1))), E::TypeOf(bx(E::Var(0)))])),
        ),
        "for2-second" => efor(
            vec![(Some(0), Some(hint("Number", false))), (None, hs)],
            bx(E::Lit(V::Tuple(vec![V::List(vec![V::Int(5), x.clone()])]))),
            bx(E::Emit(bx(E::Var(0)))),
        ),
        // the hint is checked on every iteration: first item passes `Number`-or-h, second is x
        "for-second-iteration" => efor(
            vec![(Some(0), hs)],
            bx(E::Lit(V::List(vec![x.clone(), V::Int(3), x.clone()]))),
            bx(E::Emit(bx(E::TypeOf(bx(E::Var(0)))))),
        ),
        "arg" => {
            funs.push(FunDef { params: ps(vec![(0, hs)]), out: None, body: Body::Plain(seq(vec![em(1), E::TypeOf(bx(E::Var(0)))])) });
            seq(vec![em(0), E::Call(bx(E::Lit(V::Fn(2))), vec![xv])])
        }
        "arg-second" => {
            funs.push(FunDef {
                params: ps(vec![(0, Some(hint("Any", false))), (1, hs), (2, Some(hint("Number", true)))]),
                out: None,
                body: Body::Plain(seq(vec![em(1), E::Var(1)])),
            });
            E::Call(bx(E::Lit(V::Fn(2))), vec![lit_i(1), xv, E::Lit(V::Null)])
        }
        "arg-caught" => {
            funs.push(FunDef { params: ps(vec![(0, hs)]), out: None, body: Body::Plain(seq(vec![em(1), lit_i(9)])) });
            etry(
                bx(E::Call(bx(E::Lit(V::Fn(2))), vec![xv])),
                vec![(Some(1), hint("String", false), seq(vec![E::Emit(bx(E::Var(1))), lit_i(10)]))],
                Some(2),
                bx(lit_i(11)),
            )
        }
        "return-implicit" => {
            funs.push(FunDef { params: ps(vec![(0, None)]), out: hs, body: Body::Plain(seq(vec![em(1), E::Var(0)])) });
            seq(vec![elet(Some(5), None, bx(E::Call(bx(E::Lit(V::Fn(2))), vec![xv]))), em(2), E::TypeOf(bx(E::Var(5)))])
        }
        "return-explicit" => {
            funs.push(FunDef {
                params: ps(vec![(0, None)]),
                out: hs,
                body: Body::Plain(seq(vec![em(1), E::Ret(bx(E::Var(0))), em(3)])),
            });
            seq(vec![elet(Some(5), None, bx(E::Call(bx(E::Lit(V::Fn(2))), vec![xv]))), em(2), E::TypeOf(bx(E::Var(5)))])
        }
        "return-in-loop" => {
            funs.push(FunDef {
                params: ps(vec![(0, None)]),
                out: hs,
                body: Body::Plain(seq(vec![
                    efor(vec![(Some(1), None)], bx(E::Lit(V::Range(0, 3))), bx(seq(vec![E::Emit(bx(E::Var(1))), E::Ret(bx(E::Var(0)))]))),
                    lit_i(0),
                ])),
            });
            seq(vec![elet(Some(5), None, bx(E::Call(bx(E::Lit(V::Fn(2))), vec![xv]))), E::TypeOf(bx(E::Var(5)))])
        }
        // an `if` without a taken branch / a loop that never runs yields null, which is then checked
        "return-null-fallthrough" => {
            funs.push(FunDef {
                params: ps(vec![(0, None)]),
                out: hs,
                body: Body::Plain(efor(vec![(Some(1), None)], bx(E::Lit(V::List(vec![]))), bx(E::Var(0)))),
            });
            seq(vec![elet(Some(5), None, bx(E::Call(bx(E::Lit(V::Fn(2))), vec![xv]))), E::TypeOf(bx(E::Var(5)))])
        }
        "yield" => {
            funs.push(FunDef {
                params: ps(vec![(0, None)]),
                out: hs,
                body: Body::Gen(vec![GStmt::Exec(em(1)), GStmt::Yld(E::Var(0)), GStmt::Exec(em(3))]),
            });
            efor(
                vec![(Some(1), None)],
                bx(E::Call(bx(E::Lit(V::GenFn(2))), vec![xv])),
                bx(seq(vec![em(2), E::Emit(bx(E::TypeOf(bx(E::Var(1)))))])),
            )
        }
        "yield-second" => {
            funs.push(FunDef {
                params: ps(vec![(0, None)]),
                out: hs,
                body: Body::Gen(vec![GStmt::Yld(E::Var(0)), GStmt::Exec(em(1)), GStmt::Yld(lit_i(4)), GStmt::Yld(E::Var(0))]),
            });
            etry(
                bx(efor(
                    vec![(Some(1), None)],
                    bx(E::Call(bx(E::Lit(V::GenFn(2))), vec![xv])),
                    bx(E::Emit(bx(E::TypeOf(bx(E::Var(1)))))),
                )),
                vec![],
                Some(2),
                bx(seq(vec![E::Emit(bx(E::Var(2))), lit_i(99)])),
            )
        }
        // argument hints of a generator are asserted on the first resumption, not at the call
        "gen-arg" => {
            funs.push(FunDef { params: ps(vec![(0, hs)]), out: None, body: Body::Gen(vec![GStmt::Exec(em(2)), GStmt::Yld(lit_i(1))]) });
            seq(vec![
                elet(Some(5), None, bx(E::Call(bx(E::Lit(V::GenFn(2))), vec![xv]))),
                em(1),
                efor(vec![(Some(1), None)], bx(E::Var(5)), bx(em(3))),
            ])
        }
        // `return` inside a generator is not checked against the output hint
        "gen-return-unchecked" => {
            funs.push(FunDef {
                params: ps(vec![(0, None)]),
                out: hs,
                body: Body::Gen(vec![GStmt::Exec(em(1)), GStmt::Exec(E::Ret(bx(E::Var(0)))), GStmt::Yld(E::Var(0))]),
            });
            seq(vec![efor(vec![(Some(1), None)], bx(E::Call(bx(E::Lit(V::GenFn(2))), vec![xv])), bx(em(2))), em(3)])
        }
        "match-bind" => seq(vec![
            elet(Some(0), None, bx(lit_i(0))),
            elet(
                Some(9),
                None,
                bx(ematch(
                    bx(xv),
                    vec![
                        (Pat::Bind(0, hs), seq(vec![em(10), lit_s("hit")])),
                        (Pat::Wild(None), seq(vec![em(11), lit_s("miss")])),
                    ],
                )),
            ),
            // `x: T` copies the value into x before checking, also when the arm is not taken
            E::Emit(bx(E::TypeOf(bx(E::Var(0))))),
            E::Var(9),
        ]),
        "match-wild" => ematch(bx(xv), vec![(Pat::Wild(hs), seq(vec![em(10), lit_s("hit")]))]),
        "match-second-arm" => ematch(
            bx(xv),
            vec![
                (Pat::Bind(1, Some(hint("Qux", false))), em(10)),
                (Pat::Lit(7), em(11)),
                (Pat::Bind(2, hs), seq(vec![em(12), E::TypeOf(bx(E::Var(2)))])),
                (Pat::Wild(Some(hint("Any", false))), em(13)),
            ],
        ),
        "match-bind-falls-to-untyped" => ematch(
            bx(xv),
            vec![(Pat::Wild(hs), em(10)), (Pat::Bind(3, None), seq(vec![em(11), E::TypeOf(bx(E::Var(3)))]))],
        ),
        "catch" => etry(
            bx(seq(vec![em(1), E::Throw(bx(xv)), em(2)])),
            vec![(Some(0), h.clone(), seq(vec![em(10), E::TypeOf(bx(E::Var(0)))]))],
            Some(1),
            bx(seq(vec![em(11), E::TypeOf(bx(E::Var(1)))])),
        ),
        "catch-second" => etry(
            bx(E::Throw(bx(xv))),
            vec![
                (Some(0), hint("Qux", true), em(10)),
                (None, h.clone(), em(11)),
                (Some(0), hint("Indexable", false), em(12)),
            ],
            None,
            bx(em(13)),
        ),
        // a failed assertion arrives in `catch` as its message string
        "catch-type-error-message" => etry(
            bx(elet(Some(0), hs, bx(xv))),
            vec![(Some(1), hint("Number", false), em(10)), (Some(1), hint("String", false), seq(vec![E::Emit(bx(E::Var(1))), lit_i(1)]))],
            Some(2),
            bx(em(12)),
        ),
        // a failed `yield` assertion reaches the consumer unchanged; caught, it is its message string
        "yield-failure-caught-typed" => {
            funs.push(FunDef { params: ps(vec![(0, None)]), out: hs, body: Body::Gen(vec![GStmt::Yld(E::Var(0)), GStmt::Exec(em(1))]) });
            etry(
                bx(efor(vec![(Some(1), None)], bx(E::Call(bx(E::Lit(V::GenFn(2))), vec![xv])), bx(em(2)))),
                vec![(Some(2), hint("Number", false), em(10)), (Some(2), hint("String", false), seq(vec![E::Emit(bx(E::Var(2))), em(11)]))],
                Some(3),
                bx(em(12)),
            )
        }
        // a value thrown inside a generator and caught by the consumer with a typed catch
        "throw-through-generator" => {
            funs.push(FunDef { params: ps(vec![(0, None)]), out: None, body: Body::Gen(vec![GStmt::Exec(E::Throw(bx(E::Var(0)))), GStmt::Yld(lit_i(1))]) });
            etry(
                bx(efor(vec![(Some(1), None)], bx(E::Call(bx(E::Lit(V::GenFn(2))), vec![xv])), bx(em(2)))),
                vec![(Some(2), h.clone(), seq(vec![em(10), E::TypeOf(bx(E::Var(2)))]))],
                Some(3),
                bx(seq(vec![em(11), E::TypeOf(bx(E::Var(3)))])),
            )
        }
        // a bare `return` returns null, which is asserted against the output hint (x is only passed along)
        "return-bare" => {
            funs.push(FunDef {
                params: ps(vec![(0, None)]),
                out: hs,
                body: Body::Plain(seq(vec![em(1), E::Ret(bx(E::Lit(V::Null))), em(3)])),
            });
            seq(vec![elet(Some(5), None, bx(E::Call(bx(E::Lit(V::Fn(2))), vec![xv]))), em(2), E::TypeOf(bx(E::Var(5)))])
        }
        "return-bare-in-loop" => {
            funs.push(FunDef {
                params: ps(vec![(0, None)]),
                out: hs,
                body: Body::Plain(seq(vec![
                    efor(vec![(Some(1), None)], bx(E::Lit(V::Range(0, 2))), bx(E::If(bx(E::Lt(bx(lit_i(0)), bx(E::Var(1)))), bx(E::Ret(bx(E::Lit(V::Null)))), bx(em(1))))),
                    E::Var(0),
                ])),
            });
            seq(vec![elet(Some(5), None, bx(E::Call(bx(E::Lit(V::Fn(2))), vec![xv]))), E::TypeOf(bx(E::Var(5)))])
        }
        "nested-call-arg-and-return" => {
            funs.push(FunDef { params: ps(vec![(0, hs.clone())]), out: hs.clone(), body: Body::Plain(seq(vec![em(1), E::Var(0)])) });
            funs.push(FunDef {
                params: ps(vec![(0, None)]),
                out: Some(hint("Any", false)),
                body: Body::Plain(seq(vec![em(2), E::Call(bx(E::Lit(V::Fn(2))), vec![E::Var(0)])])),
            });
            seq(vec![elet(Some(1), hs, bx(E::Call(bx(E::Lit(V::Fn(3))), vec![xv]))), E::TypeOf(bx(E::Var(1)))])
        }
        other => panic!("unknown position {}", other),
    };
    Prog { funs, main }
}

// ------------------------------------------------------------------------------------------------
// second grid: every target form (named id, `_`, `_name`) at every position that takes a hint
// ------------------------------------------------------------------------------------------------

fn form_t(form: &str) -> T {
    match form {
        "id" => T::Id(7),
        "wild" => T::Wild,
        _ => T::WildNamed(7),
    }
}

/// `emit koto.type(v)` for every named target (what each target received is the observable)
fn emit_types(ts: &[&T]) -> Vec<E> {
    ts.iter()
        .filter_map(|t| match t {
            T::Id(x) => Some(E::Emit(bx(E::TypeOf(bx(E::Var(*x)))))),
            _ => None,
        })
        .collect()
}

fn form_positions() -> Vec<String> {
    let mut v: Vec<String> = vec![];
    let forms = ["id", "wild", "wildn"];
    for rhs in ["temps", "list", "tuple", "iter", "gen", "range"] {
        for idx in 0..3 {
            if idx == 2 && rhs != "list" && rhs != "temps" {
                continue;
            }
            for f in forms {
                v.push(format!("multi:{}:{}:{}", rhs, idx, f));
            }
        }
    }
    for idx in 0..2 {
        for f in forms {
            v.push(format!("multi:map:{}:{}", idx, f));
        }
    }
    // `for` over producers of pairs: every value handed to the hint is a Tuple
    for prod in ["map", "obj", "enumerate", "zip"] {
        for f in forms {
            v.push(format!("for1-pairs:{}:{}", prod, f));
            v.push(format!("for2-pairs:{}:{}", prod, f));
        }
    }
    v.push("multi-short:list:wild".into());
    v.push("let:wildn".into());
    v.push("for1:wildn".into());
    for f in ["wild", "wildn"] {
        v.push(format!("for2-first:{}", f));
    }
    v.push("for2-second:wildn".into());
    for f in forms {
        v.push(format!("for3-middle:{}", f));
    }
    for f in ["wild", "wildn"] {
        v.push(format!("arg:{}", f));
    }
    for f in forms {
        v.push(format!("arg-nested-first:{}", f));
        v.push(format!("arg-nested-second:{}", f));
        v.push(format!("arg-nested-deep:{}", f));
    }
    v.push("gen-arg:wild".into());
    v.push("gen-arg-nested:wildn".into());
    for f in ["wild", "wildn"] {
        v.push(format!("catch-first:{}", f));
    }
    v.push("match:wildn".into());
    for f in forms {
        for p in 0..3 {
            v.push(format!("match-or:{}:{}", p, f));
        }
        for alt in 0..2 {
            for sub in 0..2 {
                v.push(format!("match-multi:{}:{}:{}", alt, sub, f));
            }
        }
        v.push(format!("match-multi-pairs:{}", f));
        v.push(format!("match-nested-tuple:{}", f));
        v.push(format!("match-nested-list:{}", f));
        v.push(format!("match-nested-deep:{}", f));
        v.push(format!("match-nested-or:{}", f));
        v.push(format!("match-or-guard:{}", f));
    }
    v.push("match-nested-size".into());
    for f in ["id", "wild"] {
        v.push(format!("match-guard-true:{}", f));
        v.push(format!("match-guard-false:{}", f));
    }
    v
}

fn form_template(pos: &str, h: &Hint, x: &V) -> Prog {
    let mut funs = base_funs();
    let hs = Some(h.clone());
    let xv = E::Lit(x.clone());
    let em = |n: i64| E::Emit(bx(lit_i(n)));
    let parts: Vec<&str> = pos.split(':').collect();
    let form = *parts.last().unwrap();
    let t = form_t(form);
    let id = |n: u32| T::Id(n);
    let arm = |alts: Vec<Vec<P>>, guard: Option<E>, body: E| Arm { alts, guard, body };
    let pb = |t: T, h: Option<Hint>| P::B(t, h);
    let main = match parts[0] {
        "multi" => {
            let rhs = parts[1];
            let idx: usize = parts[2].parse().unwrap();
            let mut targets: Vec<Binder> = vec![(id(1), None), (id(2), None), (id(3), None)];
            targets[idx] = (t.clone(), hs.clone());
            let mut vals = vec![V::Int(1), V::Int(2), V::Int(3)];
            if rhs != "range" {
                vals[idx] = x.clone();
            }
            let names: Vec<&T> = targets.iter().map(|(t, _)| t).collect();
            let after = emit_types(&names);
            let stmt = match rhs {
                "temps" => E::LetTemps(targets.clone(), vals.iter().map(|v| E::Lit(v.clone())).collect()),
                "list" => E::LetUnpack(targets.clone(), bx(E::Lit(V::List(vals)))),
                "tuple" => E::LetUnpack(targets.clone(), bx(E::Lit(V::Tuple(vals)))),
                "iter" => E::LetUnpack(targets.clone(), bx(E::Lit(V::Iter(vals)))),
                "range" => E::LetUnpack(targets.clone(), bx(E::Lit(V::Range(1, 4)))),
                // the targets receive the entries as (key, value) tuples
                "map" => E::LetUnpack(targets.clone(), bx(E::Lit(V::Map(vals.iter().enumerate().map(|(i, v)| (i as u32, v.clone())).collect())))),
                _ => {
                    funs.push(FunDef {
                        params: ps(vec![(0, None), (1, None), (2, None)]),
                        out: None,
                        body: Body::Gen(vec![
                            GStmt::Exec(em(10)),
                            GStmt::Yld(E::Var(0)),
                            GStmt::Exec(em(11)),
                            GStmt::Yld(E::Var(1)),
                            GStmt::Exec(em(12)),
                            GStmt::Yld(E::Var(2)),
                            GStmt::Exec(em(13)),
                        ]),
                    });
                    E::LetUnpack(targets.clone(), bx(E::Call(bx(E::Lit(V::GenFn(2))), vals.iter().map(|v| E::Lit(v.clone())).collect())))
                }
            };
            let mut items = vec![em(1), stmt, em(2)];
            items.extend(after);
            seq(items)
        }
        // fewer values than targets: the missing ones are null (and are still checked)
        "multi-short" => {
            let targets: Vec<Binder> = vec![(id(1), None), (T::Wild, hs.clone()), (id(3), hs.clone())];
            seq(vec![
                E::LetUnpack(targets, bx(E::Lit(V::List(vec![V::Int(1), x.clone()])))),
                E::Emit(bx(E::TypeOf(bx(E::Var(3))))),
            ])
        }
        "let" => seq(vec![em(1), E::Let(t.clone(), hs, bx(xv)), em(2)]),
        "for1" => E::For(vec![(t.clone(), hs)], bx(E::Lit(V::List(vec![x.clone(), x.clone()]))), bx(em(1))),
        "for1-pairs" | "for2-pairs" => {
            let producer = match parts[1] {
                "map" => V::Map(vec![(0, x.clone()), (1, V::Int(2))]),
                "obj" => V::Obj { ty: MetaTy::Str("Foo".into()), call: false, iter: false, next: false, es: vec![(0, x.clone()), (1, V::Int(2))], base: None },
                "enumerate" => V::Enumerate(vec![x.clone(), V::Int(2)]),
                _ => V::Zip(vec![x.clone(), V::Int(2)], vec![V::Int(5), V::Int(6)]),
            };
            if parts[0] == "for1-pairs" {
                // one argument: it receives the pair itself
                let mut body = vec![em(1)];
                body.extend(emit_types(&[&t]));
                E::For(vec![(t.clone(), hs)], bx(E::Lit(producer)), bx(seq(body)))
            } else {
                // two arguments: the pair is unpacked, the hinted one is the second element
                // (zip: the first, so that the grid value is the one under the hint)
                let bs = if parts[1] == "zip" { vec![(t.clone(), hs), (id(1), None)] } else { vec![(id(1), None), (t.clone(), hs)] };
                let mut body = vec![E::Emit(bx(E::TypeOf(bx(E::Var(1)))))];
                body.extend(emit_types(&[&t]));
                E::For(bs, bx(E::Lit(producer)), bx(seq(body)))
            }
        }
        "for2-first" => E::For(
            vec![(t.clone(), hs), (id(1), None)],
            bx(E::Lit(V::List(vec![V::Tuple(vec![x.clone(), V::Int(5)])]))),
            bx(E::Emit(bx(E::Var(1)))),
        ),
        "for2-second" => E::For(
            vec![(id(1), None), (t.clone(), hs)],
            bx(E::Lit(V::List(vec![V::Tuple(vec![V::Int(5), x.clone()]), V::Tuple(vec![V::Int(6), x.clone()])]))),
            bx(E::Emit(bx(E::Var(1)))),
        ),
        "for3-middle" => {
            let names = [&id(1), &t, &id(3)];
            let body = emit_types(&names);
            E::For(
                vec![(id(1), None), (t.clone(), hs), (id(3), Some(hint("Number", false)))],
                bx(E::Lit(V::Tuple(vec![V::List(vec![V::Int(1), x.clone(), V::Int(3)])]))),
                bx(seq(body)),
            )
        }
        "arg" => {
            funs.push(FunDef { params: vec![pb(t.clone(), hs), pb(id(1), None)], out: None, body: Body::Plain(seq(vec![em(1), E::Var(1)])) });
            seq(vec![em(0), E::Call(bx(E::Lit(V::Fn(2))), vec![xv, lit_i(5)])])
        }
        "arg-nested-first" | "arg-nested-second" | "arg-nested-deep" => {
            let (pat, arg) = match parts[0] {
                "arg-nested-first" => (P::Tup(vec![pb(t.clone(), hs), pb(id(1), None)]), V::Tuple(vec![x.clone(), V::Int(5)])),
                "arg-nested-second" => (P::Tup(vec![pb(id(1), Some(hint("Number", false))), pb(t.clone(), hs)]), V::List(vec![V::Int(5), x.clone()])),
                _ => (
                    P::Tup(vec![pb(id(1), None), P::Tup(vec![pb(t.clone(), hs), pb(T::Wild, None)])]),
                    V::Tuple(vec![V::Int(5), V::Tuple(vec![x.clone(), V::Int(6)])]),
                ),
            };
            let mut body = vec![em(1), E::Emit(bx(E::Var(1)))];
            body.extend(emit_types(&[&t]));
            body.push(E::Var(2));
            funs.push(FunDef { params: vec![pb(T::WildNamed(9), Some(hint("Any", true))), pat, pb(id(2), None)], out: None, body: Body::Plain(seq(body)) });
            seq(vec![em(0), E::Call(bx(E::Lit(V::Fn(2))), vec![E::Lit(V::Null), E::Lit(arg), lit_i(9)])])
        }
        "gen-arg" | "gen-arg-nested" => {
            let pat = if parts[0] == "gen-arg" { pb(t.clone(), hs) } else { P::Tup(vec![pb(id(1), None), pb(t.clone(), hs)]) };
            let arg = if parts[0] == "gen-arg" { x.clone() } else { V::Tuple(vec![V::Int(1), x.clone()]) };
            funs.push(FunDef { params: vec![pat], out: None, body: Body::Gen(vec![GStmt::Exec(em(2)), GStmt::Yld(lit_i(1))]) });
            seq(vec![
                elet(Some(5), None, bx(E::Call(bx(E::Lit(V::GenFn(2))), vec![E::Lit(arg)]))),
                em(1),
                efor(vec![(Some(6), None)], bx(E::Var(5)), bx(em(3))),
            ])
        }
        "catch-first" => E::Try(
            bx(seq(vec![em(1), E::Throw(bx(xv))])),
            vec![(t.clone(), h.clone(), em(10)), (T::Id(1), hint("Indexable", false), seq(vec![em(11), E::TypeOf(bx(E::Var(1)))]))],
            T::WildNamed(2),
            bx(em(12)),
        ),
        "match" => E::Match(vec![xv], vec![arm(vec![vec![pb(t.clone(), hs)]], None, em(10)), arm(vec![], None, em(11))]),
        // `_: Number or F: H or _: String` with the hinted pattern in each alternative position
        "match-or" => {
            let p: usize = parts[1].parse().unwrap();
            let mut alts = vec![vec![pb(T::Wild, Some(hint("Number", false)))], vec![pb(T::WildNamed(8), Some(hint("String", false)))]];
            alts.insert(p, vec![pb(t.clone(), hs)]);
            let mut body = vec![em(10)];
            // a named id bound by a non-first alternative may not have been reached: not read
            body.push(lit_s("arm1"));
            E::Match(
                vec![xv],
                vec![arm(alts, None, seq(body)), arm(vec![vec![pb(T::Wild, Some(hint("Bool", true)))]], None, em(11)), arm(vec![], None, em(12))],
            )
        }
        // two subjects; the hinted pattern in alternative `alt` at subject position `sub`
        "match-multi" => {
            let alt: usize = parts[1].parse().unwrap();
            let sub: usize = parts[2].parse().unwrap();
            let subjects = if sub == 0 { vec![xv, lit_i(5)] } else { vec![lit_i(5), xv] };
            let mut mine = vec![pb(T::Wild, Some(hint("Number", false))), pb(T::Wild, Some(hint("Number", false)))];
            mine[sub] = pb(t.clone(), hs);
            let other = if alt == 0 {
                // tried after mine: accepts strings at the hinted position
                let mut o = vec![pb(T::Wild, Some(hint("Number", false))), pb(T::Wild, Some(hint("Number", false)))];
                o[sub] = pb(T::WildNamed(8), Some(hint("String", false)));
                o
            } else {
                // tried before mine: never matches (second subject is a number)
                vec![pb(T::Wild, Some(hint("Qux", false))), pb(T::Wild, Some(hint("Qux", false)))]
            };
            let alts = if alt == 0 { vec![mine, other] } else { vec![other, mine] };
            E::Match(subjects, vec![arm(alts, None, em(10)), arm(vec![vec![pb(T::Wild, None), pb(T::Wild, None)]], None, em(11))])
        }
        // `F: H, F: H or _: String, _: String` on `X, X`
        "match-multi-pairs" => {
            let second = match &t {
                T::Id(_) => T::Id(8),
                other => other.clone(),
            };
            E::Match(
                vec![xv.clone(), xv],
                vec![
                    arm(
                        vec![
                            vec![pb(t.clone(), hs.clone()), pb(second, hs)],
                            vec![pb(T::Wild, Some(hint("String", false))), pb(T::Wild, Some(hint("String", false)))],
                            vec![pb(T::Wild, Some(hint("Number", false))), pb(T::Wild, Some(hint("Number", false)))],
                        ],
                        None,
                        em(10),
                    ),
                    arm(vec![], None, em(11)),
                ],
            )
        }
        "match-nested-tuple" | "match-nested-list" => {
            let subj = if parts[0] == "match-nested-tuple" { V::Tuple(vec![x.clone(), V::Int(1)]) } else { V::List(vec![x.clone(), V::Int(1)]) };
            let mut body = vec![em(10), E::Emit(bx(E::Var(1)))];
            body.extend(emit_types(&[&t]));
            E::Match(
                vec![E::Lit(subj)],
                vec![
                    arm(vec![vec![P::Tup(vec![pb(t.clone(), hs), pb(id(1), None)])]], None, seq(body)),
                    arm(vec![vec![P::Tup(vec![pb(T::Wild, None), pb(id(2), Some(hint("Number", false)))])]], None, seq(vec![em(11), E::Var(2)])),
                ],
            )
        }
        "match-nested-deep" => E::Match(
            vec![E::Lit(V::Tuple(vec![V::Int(1), V::List(vec![x.clone(), V::Int(2)])]))],
            vec![
                arm(
                    vec![vec![P::Tup(vec![pb(id(1), None), P::Tup(vec![pb(t.clone(), hs), pb(id(3), Some(hint("Number", false)))])])]],
                    None,
                    seq(vec![em(10), E::Add(bx(E::Var(1)), bx(E::Var(3)))]),
                ),
                arm(vec![], None, em(11)),
            ],
        ),
        // `(F: H, _) or (_, v2: Number)`: the second alternative takes over when the first fails
        "match-nested-or" => E::Match(
            vec![E::Lit(V::Tuple(vec![x.clone(), V::Int(4)]))],
            vec![
                arm(
                    vec![
                        vec![P::Tup(vec![pb(t.clone(), hs), pb(T::Wild, None)])],
                        vec![P::Tup(vec![pb(T::WildNamed(8), Some(hint("String", true))), pb(T::Wild, Some(hint("Number", false)))])],
                    ],
                    None,
                    em(10),
                ),
                arm(vec![], None, em(11)),
            ],
        ),
        // a false guard passes on to the next *arm*, not to the next alternative
        "match-or-guard" => seq(vec![
            elet(Some(5), None, bx(E::Lit(V::Bool(false)))),
            E::Match(
                vec![xv],
                vec![
                    arm(vec![vec![pb(t.clone(), hs.clone())], vec![pb(T::Wild, Some(hint("Any", false)))]], Some(E::Var(5)), em(10)),
                    arm(vec![vec![pb(T::Wild, Some(hint("Qux", false)))], vec![pb(T::WildNamed(8), hs)]], Some(E::Lt(bx(lit_i(1)), bx(lit_i(2)))), em(11)),
                    arm(vec![], None, em(12)),
                ],
            ),
        ]),
        // wrong size: a nested pattern with three elements never matches a pair
        "match-nested-size" => E::Match(
            vec![E::Lit(V::Tuple(vec![x.clone(), V::Int(1)]))],
            vec![
                arm(vec![vec![P::Tup(vec![pb(T::Wild, hs.clone()), pb(T::Wild, None), pb(T::Wild, None)])]], None, em(10)),
                arm(vec![vec![P::Tup(vec![pb(id(1), hs), pb(id(2), None)])]], None, seq(vec![em(11), E::Var(2)])),
                arm(vec![], None, em(12)),
            ],
        ),
        "match-guard-true" | "match-guard-false" => seq(vec![
            elet(Some(5), None, bx(E::Lit(V::Bool(parts[0] == "match-guard-true")))),
            E::Match(
                vec![xv],
                vec![
                    arm(vec![vec![pb(t.clone(), hs.clone())]], Some(E::Var(5)), em(10)),
                    arm(vec![vec![pb(T::WildNamed(8), hs)]], None, em(11)),
                    arm(vec![], None, em(12)),
                ],
            ),
        ]),
        other => panic!("unknown form position {}", other),
    };
    Prog { funs, main }
}

// ------------------------------------------------------------------------------------------------
// seeded random programs
// ------------------------------------------------------------------------------------------------

#[derive(Clone, Copy, PartialEq, Debug)]
enum K {
    Int,
    Float,
    Str,
    Bool,
    Null,
    List,
    Tuple,
    Range,
    Map,
    Foo,    // object with @type Foo
    BarFoo, // object with @type Bar whose @base has @type Foo
    Func,
    Any, // statically unknown
}

const VALUE_KINDS: &[K] =
    &[K::Int, K::Int, K::Int, K::Str, K::Str, K::Bool, K::Null, K::List, K::Tuple, K::Range, K::Map, K::Foo, K::BarFoo, K::Float, K::Func];

#[derive(Clone)]
struct Sig {
    params: Vec<K>,
    ret: K,    // plain: return kind; generator: kind of the yielded values
    is_gen: bool,
}

#[derive(Clone)]
struct Scope {
    vars: Vec<(u32, K)>,
    frozen: usize,        // the first `frozen` variables must not be assigned (we are inside a `try` body)
    ret: Option<K>,       // inside a plain function: its return kind
    callable: usize,      // functions with index < callable may be referenced
    depth: u32,
}

struct PGen<'a> {
    rng: &'a mut Rng,
    sigs: Vec<Sig>,
    next_var: u32,
    marker: i64,
    p_wrong: u32, // per mille
}

impl<'a> PGen<'a> {
    fn wrong(&mut self) -> bool {
        self.rng.chance(self.p_wrong, 1000)
    }
    fn fresh(&mut self) -> u32 {
        self.next_var += 1;
        self.next_var
    }
    fn mark(&mut self) -> E {
        self.marker += 1;
        E::Emit(bx(lit_i(100 + self.marker)))
    }
    fn kind(&mut self) -> K {
        *self.rng.pick(VALUE_KINDS)
    }

    fn value(&mut self, k: K, sc: &Scope) -> V {
        match k {
            K::Int => V::Int(self.rng.range(0, 9)),
            K::Float => V::Float(self.rng.range(0, 3)),
            K::Str => V::Str((*self.rng.pick(&["a", "bc", "xyz"])).to_string()),
            K::Bool => V::Bool(self.rng.chance(1, 2)),
            K::Null | K::Any => V::Null,
            K::List => {
                if self.rng.chance(1, 2) {
                    V::List(vec![V::Int(1), V::Int(2)])
                } else {
                    V::List(vec![V::Str("p".into())])
                }
            }
            K::Tuple => V::Tuple(vec![V::Int(self.rng.range(0, 5)), V::Str("t".into())]),
            K::Range => V::Range(0, self.rng.range(0, 3)),
            K::Map => V::Map(vec![(0, V::Int(1))]),
            K::Foo => V::Obj {
                ty: MetaTy::Str("Foo".into()),
                call: false,
                iter: false,
                next: false,
                es: vec![(0, V::Int(self.rng.range(0, 5)))],
                base: None,
            },
            K::BarFoo => obj_t("Bar", Some(obj_t("Foo", None))),
            K::Func => {
                let cands: Vec<usize> = (0..sc.callable).filter(|i| !self.sigs[*i].is_gen).collect();
                if cands.is_empty() { V::Native(0) } else { V::Fn(*self.rng.pick(&cands)) }
            }
        }
    }

    fn natural(&mut self, k: K) -> &'static str {
        match k {
            K::Int | K::Float => "Number",
            K::Str => "String",
            K::Bool => "Bool",
            K::Null => "Null",
            K::List => "List",
            K::Tuple => "Tuple",
            K::Range => "Range",
            K::Map => "Map",
            K::Foo => "Foo",
            K::BarFoo => {
                if self.rng.chance(1, 2) {
                    "Foo"
                } else {
                    "Bar"
                }
            }
            K::Func => "Function",
            K::Any => "Any",
        }
    }

    /// a hint that a value of kind `k` passes (unless `wrong` fires)
    fn hint_for(&mut self, k: K) -> Hint {
        if self.wrong() {
            let names = all_hint_names();
            return Hint { name: (*self.rng.pick(&names)).to_string(), opt: self.rng.chance(1, 3) };
        }
        if k == K::Null && self.rng.chance(2, 3) {
            let names = all_hint_names();
            return Hint { name: (*self.rng.pick(&names)).to_string(), opt: true };
        }
        let opt = self.rng.chance(1, 4);
        let r = self.rng.below(100);
        let name = if r < 60 || k == K::Any {
            self.natural(k)
        } else if r < 75 {
            "Any"
        } else {
            match k {
                K::List | K::Tuple | K::Str => *self.rng.pick(&["Indexable", "Iterable"]),
                K::Map => *self.rng.pick(&["Indexable", "Iterable"]),
                K::Foo | K::BarFoo => "Indexable",
                K::Range => "Iterable",
                K::Func => "Callable",
                _ => self.natural(k),
            }
        };
        Hint { name: name.to_string(), opt }
    }

    fn maybe_hint(&mut self, k: K) -> Option<Hint> {
        if self.rng.chance(4, 5) { Some(self.hint_for(k)) } else { None }
    }

    /// single-line expression of kind `k`
    fn expr(&mut self, k: K, sc: &Scope, depth: u32) -> E {
        let vars: Vec<u32> = sc.vars.iter().filter(|(_, vk)| *vk == k).map(|(x, _)| *x).collect();
        let r = self.rng.below(100);
        if !vars.is_empty() && r < 40 {
            return E::Var(*self.rng.pick(&vars));
        }
        if depth > 0 && r < 70 {
            match k {
                K::Int if r < 58 => {
                    // now and then an operand of the wrong kind: a runtime error that is no type hint
                    let rk = if self.rng.chance(1, 40) { K::Str } else { K::Int };
                    return E::Add(bx(self.expr(K::Int, sc, depth - 1)), bx(self.expr(rk, sc, depth - 1)));
                }
                K::Bool if r < 58 => return E::Lt(bx(self.expr(K::Int, sc, depth - 1)), bx(self.expr(K::Int, sc, depth - 1))),
                K::Str if r < 52 => {
                    let k2 = self.kind();
                    return E::TypeOf(bx(self.expr(k2, sc, depth - 1)));
                }
                _ => {}
            }
            // a call to a plain function returning `k`
            let cands: Vec<usize> = (0..sc.callable).filter(|i| !self.sigs[*i].is_gen && self.sigs[*i].ret == k).collect();
            if !cands.is_empty() && r >= 55 {
                let i = *self.rng.pick(&cands);
                return self.call(i, sc, depth - 1);
            }
            if r >= 66 {
                let c = self.expr(K::Bool, sc, depth - 1);
                return E::If(bx(c), bx(self.expr(k, sc, depth - 1)), bx(self.expr(k, sc, depth - 1)));
            }
        }
        if k == K::Any {
            let k2 = self.kind();
            return E::Lit(self.value(k2, sc));
        }
        E::Lit(self.value(k, sc))
    }

    fn call(&mut self, i: usize, sc: &Scope, depth: u32) -> E {
        let sig = self.sigs[i].clone();
        let args = sig
            .params
            .iter()
            .map(|pk| {
                if *pk == K::Tuple && self.rng.chance(1, 10) {
                    // a container of the wrong size for a nested `(a, b)` argument
                    return E::Lit(match self.rng.below(3) {
                        0 => V::Tuple(vec![V::Int(1), V::Str("t".into()), V::Int(3)]),
                        1 => V::List(vec![V::Int(1)]),
                        _ => V::List(vec![V::Int(2), V::Str("u".into())]),
                    });
                }
                let k = if self.wrong() { self.kind() } else { *pk };
                self.expr(k, sc, depth)
            })
            .collect();
        E::Call(bx(E::Lit(if sig.is_gen { V::GenFn(i) } else { V::Fn(i) })), args)
    }

    /// statements followed by a final expression of kind `want`
    fn block(&mut self, sc: &Scope, want: K) -> E {
        let mut sc = sc.clone();
        let mut items = vec![];
        let n = if sc.depth == 0 { 1 } else { 1 + self.rng.below(3) };
        for _ in 0..n {
            if let Some(s) = self.stmt(&mut sc) {
                items.push(s);
            }
        }
        let k = if self.wrong() { self.kind() } else { want };
        items.push(self.expr(k, &sc, 2));
        seq(items)
    }

    fn marked_block(&mut self, sc: &Scope, want: K) -> E {
        let m = self.mark();
        E::Seq(bx(m), bx(self.block(sc, want)))
    }

    fn inner(&self, sc: &Scope) -> Scope {
        let mut s = sc.clone();
        s.depth = sc.depth.saturating_sub(1);
        s
    }

    /// a target of kind `k`: mostly a named id (added to the scope), sometimes `_` or `_wN`
    fn target(&mut self, k: K, sc: &mut Scope, p_wild: u32) -> T {
        let x = self.fresh();
        if self.rng.chance(p_wild, 100) {
            if self.rng.chance(1, 2) { T::Wild } else { T::WildNamed(x) }
        } else {
            sc.vars.push((x, k));
            T::Id(x)
        }
    }

    /// hint for a target; a wildcard without a hint is only allowed where the syntax has it
    fn target_hint(&mut self, k: K, t: &T, must: bool) -> Option<Hint> {
        if must || !matches!(t, T::Id(_)) && self.rng.chance(9, 10) { Some(self.hint_for(k)) } else { self.maybe_hint(k) }
    }

    fn stmt(&mut self, sc: &mut Scope) -> Option<E> {
        let deep = sc.depth > 0;
        let w: [u32; 12] = [
            5,                                  // 0 let new
            2,                                  // 1 reassign
            3,                                  // 2 emit
            if deep { 2 } else { 0 },           // 3 if
            if deep { 3 } else { 0 },           // 4 for
            if deep { 4 } else { 0 },           // 5 match
            if deep { 3 } else { 0 },           // 6 try
            2,                                  // 7 call statement
            if sc.frozen > 0 || sc.ret.is_some() { 1 } else { 0 }, // 8 throw (inside try / functions)
            if sc.ret.is_some() && deep { 1 } else { 0 },          // 9 conditional return
            3,                                  // 10 multi-assignment
            1,                                  // 11 let with a wildcard target
        ];
        match self.rng.weighted(&w) {
            0 => {
                let k = self.kind();
                let e = self.expr(k, sc, 2);
                let x = self.fresh();
                let h = self.maybe_hint(k);
                sc.vars.push((x, k));
                Some(E::Let(T::Id(x), h, bx(e)))
            }
            1 => {
                let cands: Vec<(u32, K)> = sc.vars.iter().skip(sc.frozen).filter(|(_, k)| *k != K::Any).cloned().collect();
                if cands.is_empty() {
                    return None;
                }
                let (x, k) = *self.rng.pick(&cands);
                let e = self.expr(k, sc, 2);
                let h = self.maybe_hint(k);
                Some(E::Let(T::Id(x), h, bx(e)))
            }
            2 => {
                let k = if sc.vars.is_empty() || self.rng.chance(1, 3) { self.kind() } else { self.rng.pick(&sc.vars).1 };
                Some(E::Emit(bx(self.expr(k, sc, 2))))
            }
            3 => {
                let c = self.expr(K::Bool, sc, 2);
                let isc = self.inner(sc);
                let k = self.kind();
                Some(E::If(bx(c), bx(self.marked_block(&isc, k)), bx(self.marked_block(&isc, k))))
            }
            4 => Some(self.for_loop(sc)),
            5 => Some(self.match_expr(sc)),
            6 => Some(self.try_expr(sc)),
            7 => {
                let cands: Vec<usize> = (0..sc.callable).filter(|i| !self.sigs[*i].is_gen).collect();
                if cands.is_empty() {
                    return None;
                }
                let i = *self.rng.pick(&cands);
                let c = self.call(i, sc, 1);
                if self.rng.chance(1, 2) {
                    let x = self.fresh();
                    let k = self.sigs[i].ret;
                    let h = self.maybe_hint(k);
                    sc.vars.push((x, k));
                    Some(E::Let(T::Id(x), h, bx(c)))
                } else {
                    Some(c)
                }
            }
            8 => {
                let k = *self.rng.pick(&[K::Str, K::Str, K::Int, K::Foo, K::BarFoo, K::Null]);
                let c = self.expr(K::Bool, sc, 1);
                let v = self.expr(k, sc, 1);
                let m = self.mark();
                Some(E::If(bx(c), bx(E::Throw(bx(v))), bx(m)))
            }
            9 => {
                let k = sc.ret.unwrap_or(K::Int);
                let k = if self.wrong() { self.kind() } else { k };
                let c = self.expr(K::Bool, sc, 1);
                let v = if k == K::Null || self.rng.chance(1, 10) { E::Lit(V::Null) } else { self.expr(k, sc, 1) };
                let m = self.mark();
                Some(E::If(bx(c), bx(E::Ret(bx(v))), bx(m)))
            }
            10 => Some(self.multi_assign(sc)),
            _ => {
                let k = self.kind();
                let e = self.expr(k, sc, 2);
                let x = self.fresh();
                let t = if self.rng.chance(1, 2) { T::Wild } else { T::WildNamed(x) };
                Some(E::Let(t, Some(self.hint_for(k)), bx(e)))
            }
        }
    }

    /// `let a: T, _: U, c = …` with the right-hand side as separate expressions or as one iterable
    /// (list, tuple, range, string, generator call); new names only (plus wildcards)
    fn multi_assign(&mut self, sc: &mut Scope) -> E {
        let n = 2 + self.rng.below(3);
        let gens: Vec<usize> = (0..sc.callable).filter(|i| self.sigs[*i].is_gen).collect();
        let form = self.rng.below(100);
        // element kinds and right-hand side
        let (kinds, rhs): (Vec<K>, Result<Vec<E>, E>) = if form < 35 {
            let kinds: Vec<K> = (0..n).map(|_| self.kind()).collect();
            let es = kinds.iter().map(|k| self.expr(*k, sc, 1)).collect();
            (kinds, Ok(es))
        } else if form < 50 && !gens.is_empty() {
            let i = *self.rng.pick(&gens);
            let k = self.sigs[i].ret;
            ((0..n).map(|_| K::Any).map(|_| k).collect(), Err(self.call(i, sc, 1)))
        } else if form < 60 {
            ((0..n).map(|_| K::Int).collect(), Err(E::Lit(V::Range(0, self.rng.range(0, 4)))))
        } else if form < 66 {
            ((0..n).map(|_| K::Str).collect(), Err(E::Lit(V::Str("hey".into()))))
        } else {
            let kinds: Vec<K> = (0..n).map(|_| self.kind()).collect();
            // sometimes shorter / longer than the targets (missing values are null)
            let m = match self.rng.below(6) {
                0 => n - 1,
                1 => n + 1,
                _ => n,
            };
            let mut xs = vec![];
            for j in 0..m {
                let k = if j < n { kinds[j] } else { K::Int };
                xs.push(self.value(k, sc));
            }
            let v = match self.rng.below(3) {
                0 => V::Tuple(xs),
                1 => V::Iter(xs),
                _ => V::List(xs),
            };
            (kinds, Err(E::Lit(v)))
        };
        // the values may be missing (range/string/generator shorter than the targets): such targets
        // are null at run time, so they are not recorded with their kind
        let exact = matches!(rhs, Ok(_));
        let mut bs = vec![];
        let mut new_vars = vec![];
        for k in &kinds {
            let x = self.fresh();
            let t = match self.rng.below(10) {
                0 | 1 => T::Wild,
                2 | 3 => T::WildNamed(x),
                _ => {
                    new_vars.push((x, if exact { *k } else { K::Any }));
                    T::Id(x)
                }
            };
            let h = if matches!(t, T::Id(_)) { self.maybe_hint(*k) } else if self.rng.chance(4, 5) { Some(self.hint_for(*k)) } else { None };
            bs.push((t, h));
        }
        sc.vars.extend(new_vars);
        match rhs {
            Ok(es) => E::LetTemps(bs, es),
            Err(e) => E::LetUnpack(bs, bx(e)),
        }
    }

    fn for_loop(&mut self, sc: &Scope) -> E {
        let mut isc = self.inner(sc);
        let gens: Vec<usize> = (0..sc.callable).filter(|i| self.sigs[*i].is_gen).collect();
        let r = self.rng.below(100);
        let (binders, it): (Vec<Binder>, E) = if r < 30 && !gens.is_empty() {
            let i = *self.rng.pick(&gens);
            let ek = self.sigs[i].ret;
            let t = self.target(ek, &mut isc, 15);
            let h = self.target_hint(ek, &t, false);
            (vec![(t, h)], self.call(i, sc, 1))
        } else if r < 50 {
            // two or three arguments unpacking tuples
            let m = 2 + self.rng.below(2);
            let kinds: Vec<K> = (0..m).map(|_| self.kind()).collect();
            let n = self.rng.below(3);
            let mut rows = vec![];
            for _ in 0..n {
                let mut row = vec![];
                for k in &kinds {
                    let k = if self.wrong() { self.kind() } else { *k };
                    row.push(self.value(k, sc));
                }
                rows.push(V::Tuple(row));
            }
            let mut bs = vec![];
            for k in &kinds {
                let t = self.target(*k, &mut isc, 30);
                let h = self.target_hint(*k, &t, false);
                bs.push((t, h));
            }
            (bs, E::Lit(V::List(rows)))
        } else if r < 58 {
            // producers of pairs: map entries, enumerate, zip — with one argument (the pair, always
            // a Tuple) or two (unpacked)
            let ek = self.kind();
            let n = self.rng.below(3);
            let xs: Vec<V> = (0..n).map(|_| self.value(ek, sc)).collect();
            let (prod, first_kind, second_kind) = match self.rng.below(3) {
                0 => (V::Map(xs.iter().enumerate().map(|(i, v)| (i as u32, v.clone())).collect()), K::Str, ek),
                1 => (V::Enumerate(xs), K::Int, ek),
                _ => {
                    let ys = (0..n).map(|_| V::Int(self.rng.range(0, 9))).collect();
                    (V::Zip(xs, ys), ek, K::Int)
                }
            };
            if self.rng.chance(1, 2) {
                let t = self.target(K::Any, &mut isc, 50);
                let h = if self.wrong() {
                    Some(self.hint_for(K::Int))
                } else {
                    Some(Hint { name: (*self.rng.pick(&["Tuple", "Indexable", "Iterable", "Any", "Tuple"])).to_string(), opt: self.rng.chance(1, 4) })
                };
                (vec![(t, h)], E::Lit(prod))
            } else {
                let a = self.target(first_kind, &mut isc, 30);
                let ha = self.target_hint(first_kind, &a, false);
                let b = self.target(second_kind, &mut isc, 30);
                let hb = self.target_hint(second_kind, &b, false);
                (vec![(a, ha), (b, hb)], E::Lit(prod))
            }
        } else if r < 62 {
            let t = self.target(K::Int, &mut isc, 15);
            let h = self.target_hint(K::Int, &t, false);
            (vec![(t, h)], E::Lit(V::Range(0, self.rng.range(0, 3))))
        } else if r < 68 {
            let t = self.target(K::Str, &mut isc, 15);
            let h = self.target_hint(K::Str, &t, false);
            (vec![(t, h)], E::Lit(V::Str("hey".into())))
        } else {
            let ek = self.kind();
            let n = self.rng.below(4);
            let mut xs = vec![];
            for _ in 0..n {
                let k = if self.wrong() { self.kind() } else { ek };
                xs.push(self.value(k, sc));
            }
            let it = if self.rng.chance(1, 2) { V::List(xs) } else { V::Tuple(xs) };
            let t = self.target(ek, &mut isc, 20);
            let h = self.target_hint(ek, &t, false);
            (vec![(t, h)], E::Lit(it))
        };
        let k = self.kind();
        let body = self.marked_block(&isc, k);
        E::For(binders, bx(it), bx(body))
    }

    /// a pattern for a subject of kind `k`; `hk`: the kind whose hint is used (≠ k: falls through)
    fn pattern(&mut self, k: K, hk: K, asc: &mut Scope) -> P {
        match self.rng.below(12) {
            0 if k == K::Int => P::Lit(self.rng.range(0, 9)),
            1..=4 => {
                let x = self.fresh();
                let t = if self.rng.chance(1, 2) { T::Wild } else { T::WildNamed(x) };
                P::B(t, Some(self.hint_for(hk)))
            }
            5 => P::B(T::Wild, None),
            _ => {
                let x = self.fresh();
                asc.vars.push((x, k));
                let h = if self.rng.chance(5, 6) { Some(self.hint_for(hk)) } else { None };
                P::B(T::Id(x), h)
            }
        }
    }

    /// a subject expression with statically known element kinds, and a pattern builder for it
    fn match_expr(&mut self, sc: &Scope) -> E {
        let isc = self.inner(sc);
        let rk = self.kind();
        // shape of the subject(s): one value, several values, or one tuple/list (nested pattern)
        let shape = self.rng.below(10);
        let n_sub = if shape < 5 { 1 } else if shape < 8 { 2 + self.rng.below(2) } else { 1 };
        let nested = shape >= 8;
        let kinds: Vec<K> = if nested { (0..2 + self.rng.below(2)).map(|_| self.kind()).collect() } else { (0..n_sub).map(|_| self.kind()).collect() };
        let subjects: Vec<E> = if nested {
            let xs: Vec<V> = kinds.iter().map(|k| self.value(*k, sc)).collect();
            vec![E::Lit(if self.rng.chance(1, 2) { V::Tuple(xs) } else { V::List(xs) })]
        } else {
            kinds.iter().map(|k| self.expr(*k, sc, 1)).collect()
        };
        let mut arms = vec![];
        let n = 1 + self.rng.below(3);
        for _ in 0..n {
            let mut asc = isc.clone();
            let n_alts = *self.rng.pick(&[1usize, 1, 2, 2, 3]);
            let mut alts = vec![];
            for _ in 0..n_alts {
                // each alternative: mostly the right hints, sometimes a hint of another kind
                let mut pats = vec![];
                for k in &kinds {
                    let hk = if self.rng.chance(2, 3) { *k } else { self.kind() };
                    // variables bound in alternatives are only safe to read when bound in all of
                    // them; keep it simple: alternatives of an `or` arm bind nothing that is read
                    let mut scratch = asc.clone();
                    let p = if n_alts > 1 { self.pattern(*k, hk, &mut scratch) } else { self.pattern(*k, hk, &mut asc) };
                    pats.push(p);
                }
                if nested {
                    // sometimes the wrong size
                    if pats.len() >= 3 && self.rng.chance(1, 6) {
                        pats.pop();
                    }
                    alts.push(vec![P::Tup(pats)]);
                } else {
                    alts.push(pats);
                }
            }
            let guard = if self.rng.chance(1, 4) { Some(self.expr(K::Bool, &asc, 1)) } else { None };
            arms.push(Arm { alts, guard, body: self.marked_block(&asc, rk) });
        }
        if self.rng.chance(7, 10) {
            arms.push(Arm { alts: vec![], guard: None, body: self.marked_block(&isc, rk) });
        }
        E::Match(subjects, arms)
    }

    fn try_expr(&mut self, sc: &Scope) -> E {
        let mut tsc = self.inner(sc);
        tsc.frozen = tsc.vars.len();
        let k = self.kind();
        let body = self.marked_block(&tsc, k);
        let isc = self.inner(sc);
        let mut typed = vec![];
        for _ in 0..self.rng.below(3) {
            let name = *self.rng.pick(&["String", "Number", "Foo", "Bar", "Null", "Any", "Indexable", "Qux", "Object"]);
            let h = Hint { name: name.to_string(), opt: self.rng.chance(1, 5) };
            let mut csc = isc.clone();
            let y = self.target(K::Any, &mut csc, 35);
            typed.push((y, h, self.marked_block(&csc, k)));
        }
        let mut csc = isc.clone();
        let x = self.target(K::Any, &mut csc, 30);
        let fin = self.marked_block(&csc, k);
        E::Try(bx(body), typed, x, bx(fin))
    }

    /// a function parameter of kind `k`: id, wildcard or (for tuples) a nested pattern
    fn param(&mut self, k: K, sc: &mut Scope) -> P {
        let t = self.target(k, sc, 15);
        let h = self.target_hint(k, &t, false);
        P::B(t, h)
    }

    fn program(&mut self) -> Prog {
        let nf = self.rng.below(5);
        let mut funs = vec![];
        for i in 0..nf {
            let np = self.rng.below(3);
            let params: Vec<K> = (0..np).map(|_| self.kind()).collect();
            let ret = self.kind();
            let is_gen = self.rng.chance(3, 10);
            self.sigs.push(Sig { params: params.clone(), ret, is_gen });
            let mut sc = Scope { vars: vec![], frozen: 0, ret: if is_gen { None } else { Some(ret) }, callable: i, depth: 2 };
            let mut ps = vec![];
            for pk in &params {
                if *pk == K::Tuple && self.rng.chance(2, 3) {
                    // `value(K::Tuple)` is `(Int, Str)`: unpack it as a nested argument
                    let a = self.param(K::Int, &mut sc);
                    let b = self.param(K::Str, &mut sc);
                    ps.push(P::Tup(vec![a, b]));
                } else {
                    ps.push(self.param(*pk, &mut sc));
                }
            }
            let out = self.maybe_hint(ret);
            let body = if is_gen {
                let mut ss = vec![];
                let n = 1 + self.rng.below(4);
                for _ in 0..n {
                    match self.rng.below(4) {
                        0 => {
                            let m = self.mark();
                            ss.push(GStmt::Exec(m));
                        }
                        1 => {
                            sc.depth = 1;
                            if let Some(s) = self.stmt(&mut sc) {
                                ss.push(GStmt::Exec(s));
                            }
                        }
                        _ => {
                            let k = if self.wrong() { self.kind() } else { ret };
                            ss.push(GStmt::Yld(self.expr(k, &sc, 1)));
                        }
                    }
                }
                if !ss.iter().any(|s| matches!(s, GStmt::Yld(_))) {
                    ss.push(GStmt::Yld(self.expr(ret, &sc, 1)));
                }
                Body::Gen(ss)
            } else {
                Body::Plain(self.block(&sc, ret))
            };
            funs.push(FunDef { params: ps, out, body });
        }
        let sc = Scope { vars: vec![], frozen: 0, ret: None, callable: nf, depth: 3 };
        let k = self.kind();
        let main = self.block(&sc, k);
        Prog { funs, main }
    }
}

/// the same program without any type hint (typed catch blocks, which need their hint, are dropped;
/// `let _: T = e` becomes the statement `e`)
fn strip_hints_p(p: &P) -> P {
    match p {
        P::B(t, _) => P::B(t.clone(), None),
        P::Lit(n) => P::Lit(*n),
        P::Tup(ps) => P::Tup(ps.iter().map(strip_hints_p).collect()),
    }
}
fn strip_hints(e: &E) -> E {
    let b = |x: &E| bx(strip_hints(x));
    let bs = |v: &Vec<Binder>| v.iter().map(|(t, _)| (t.clone(), None)).collect::<Vec<_>>();
    match e {
        E::Lit(_) | E::Var(_) => e.clone(),
        E::Add(x, y) => E::Add(b(x), b(y)),
        E::Lt(x, y) => E::Lt(b(x), b(y)),
        E::TypeOf(x) => E::TypeOf(b(x)),
        E::Let(T::Id(x), _, r) => E::Let(T::Id(*x), None, b(r)),
        E::Let(_, _, r) => strip_hints(r),
        E::LetTemps(v, es) => E::LetTemps(bs(v), es.iter().map(strip_hints).collect()),
        E::LetUnpack(v, r) => E::LetUnpack(bs(v), b(r)),
        E::Seq(x, y) => E::Seq(b(x), b(y)),
        E::Emit(x) => E::Emit(b(x)),
        E::If(c, t, f) => E::If(b(c), b(t), b(f)),
        E::For(v, it, body) => E::For(bs(v), b(it), b(body)),
        E::Call(f, args) => E::Call(b(f), args.iter().map(strip_hints).collect()),
        E::Ret(x) => E::Ret(b(x)),
        E::Throw(x) => E::Throw(b(x)),
        E::Try(body, _, x, fin) => E::Try(b(body), vec![], x.clone(), b(fin)),
        E::Match(ss, arms) => E::Match(
            ss.iter().map(strip_hints).collect(),
            arms.iter()
                .map(|a| Arm {
                    alts: a.alts.iter().map(|alt| alt.iter().map(strip_hints_p).collect()).collect(),
                    guard: a.guard.as_ref().map(strip_hints),
                    body: strip_hints(&a.body),
                })
                .collect(),
        ),
    }
}
fn strip_hints_prog(p: &Prog) -> Prog {
    Prog {
        funs: p
            .funs
            .iter()
            .map(|f| FunDef {
                params: f.params.iter().map(strip_hints_p).collect(),
                out: None,
                body: match &f.body {
                    Body::Plain(e) => Body::Plain(strip_hints(e)),
                    Body::Gen(ss) => Body::Gen(
                        ss.iter()
                            .map(|s| match s {
                                GStmt::Yld(e) => GStmt::Yld(strip_hints(e)),
                                GStmt::Exec(e) => GStmt::Exec(strip_hints(e)),
                            })
                            .collect(),
                    ),
                },
            })
            .collect(),
        main: strip_hints(&p.main),
    }
}

fn random_program(rng: &mut Rng) -> Prog {
    let p_wrong = *rng.pick(&[0u32, 0, 0, 30, 30, 100]);
    let mut g = PGen { rng, sigs: vec![], next_var: 0, marker: 0, p_wrong };
    let p = g.program();
    // one program in five runs without any hint: the flag must then change nothing at all
    if g.rng.chance(1, 5) { strip_hints_prog(&p) } else { p }
}

// ------------------------------------------------------------------------------------------------
// unit correspondence of type names and predicates (KValue API called directly)
// ------------------------------------------------------------------------------------------------

fn unit_type_cases(cx: &mut Ctx, values: &[(String, V)]) {
    let funs = base_funs();
    let mut reqs = vec![];
    let mut impls = vec![];
    for (name, v) in values {
        let p = Prog { funs: funs.clone(), main: E::Lit(v.clone()) };
        let Some(script) = render(&p) else { continue };
        let (out, _, val) = run_koto(&script, true);
        let Some(val) = val else {
            cx.k_fail += 1;
            cx.rep.violation("K", "K:C16:value-literal", json!({"value": name, "script": script, "impl": format!("{:?}", out)}));
            continue;
        };
        let line = format!(
            "ty={} callable={} indexable={} iterable={}",
            kvh::hex(val.type_as_string().as_str().as_bytes()),
            b01(val.is_callable()),
            b01(val.is_indexable()),
            b01(val.is_iterable())
        );
        reqs.push(format!("ty {}", sx_v(v)));
        impls.push((name.clone(), script, line));
    }
    let resps = cx.drv.batch(&reqs);
    for ((name, script, line), (req, resp)) in impls.iter().zip(reqs.iter().zip(resps.iter())) {
        cx.rep.case(req, true);
        cx.rep.bump("kind=unit-type-name-and-predicates");
        if line != resp {
            cx.k_fail += 1;
            if cx.k_fail <= 5 {
                cx.rep.violation(
                    "D",
                    "C16:type-name/predicates",
                    json!({"value": name, "request": req, "script": script, "impl": line, "model": resp,
                           "note": "type_as_string / is_callable / is_indexable / is_iterable deviate from Model/Types.lean"}),
                );
            }
        }
    }
}

// ------------------------------------------------------------------------------------------------

fn replay_case(cx: &mut Ctx, tag: &str, request: &str, script: &str) {
    let resp = cx.drv.ask(request);
    let hints = request.matches("(h x").count();
    let c = Case { tag: tag.to_string(), request: request.to_string(), script: script.to_string(), has_try: request.contains("(try "), hints };
    cx.one(&c, &resp);
}

/// Scripts that build a *cyclic* `@base` chain (a test function receives the module's export map as
/// `self` and can `export @base = self`). They may hang or overflow the native stack, so they run in
/// a worker child with a wall-clock limit. Request: hex of the script; reply: outcome + output.
fn worker_main() {
    kvh::worker::serve(|line| {
        let Some(bytes) = kvh::unhex(line) else { return "bad-request".into() };
        let script = String::from_utf8_lossy(&bytes).to_string();
        let cap = Capture::default();
        let r = kvh::catch(|| {
            let mut koto = make_koto(&cap);
            koto.set_run_tests(true);
            match koto.compile_and_run(CompileArgs::new(&script)) {
                Ok(v) => format!("ok {}", canon(&v)),
                Err(e) => format!("err {}", e.to_string().lines().next().unwrap_or("")),
            }
        });
        format!("{} | {}", r.unwrap_or_else(|p| format!("panic {}", p)), trace_text(&cap.buf.borrow().lines().map(|l| l.to_string()).collect::<Vec<_>>()))
    });
}

const CYCLIC_SCRIPTS: &[(&str, &str, &str)] = &[
    // (name, script, expected reply once the runtime handles cycles: the checks terminate)
    (
        "cyclic-base-without-type",
        "export @test cyc = ||\n  export @base = self\n  print repr(koto.type(self))\n  r = match self\n    _: Foo then 1\n    _ then 2\n  print repr(r)\n",
        "ok <fn> | sx4f626a656374 i2",
    ),
    (
        "cyclic-base-with-type",
        "export @type = 'Bar'\nexport @test cyc = ||\n  export @base = self\n  print repr(koto.type(self))\n  r = match self\n    _: Foo then 1\n    _ then 2\n  print repr(r)\n",
        "ok <fn> | sx426172 i2",
    ),
    // control: the same shape without the cycle terminates
    (
        "acyclic-control",
        "export @type = 'Bar'\nexport @test cyc = ||\n  print repr(koto.type(self))\n  r = match self\n    _: Foo then 1\n    _ then 2\n  print repr(r)\n",
        "ok <fn> | sx426172 i2",
    ),
];

fn cyclic_base_cases(cx: &mut Ctx) {
    let mut w = kvh::worker::Worker::spawn(&["--worker".to_string()]);
    let open: Vec<serde_json::Value> = cx.rep.known_open();
    for (name, script, expected) in CYCLIC_SCRIPTS {
        cx.rep.case(&format!("cyclic {}", name), true);
        cx.rep.bump("kind=cyclic-base-chain(worker)");
        let reply = w.request(&kvh::hex(script.as_bytes()), std::time::Duration::from_secs(4));
        let (bad, what) = match &reply {
            kvh::worker::Reply::Ok(s) => {
                if !expected.is_empty() && s != expected {
                    (true, format!("unexpected reply {:?}", s))
                } else {
                    (false, s.clone())
                }
            }
            kvh::worker::Reply::Timeout => (true, "does not terminate (killed after 4 s)".to_string()),
            kvh::worker::Reply::Died(st) => (true, format!("the process died ({})", st)),
        };
        if !bad {
            continue;
        }
        // precise identification: the listed witness script, byte for byte
        let listed = open.iter().find(|e| e["witness"].as_str() == Some(*script));
        match listed {
            Some(e) => {
                let id = e["id"].as_str().unwrap_or("?").to_string();
                cx.rep.known(&id, &format!("{}: {}", name, what));
            }
            None => {
                cx.d_fail += 1;
                cx.rep.violation(
                    "D",
                    "C16:type-check-terminates",
                    json!({"name": name, "script": script, "observed": what,
                           "note": "run with tests enabled (koto.set_run_tests(true)); type_as_string / compare_value_type on a cyclic @base chain"}),
                );
            }
        }
    }
}

/// Bounded-exhaustive graphs of one or two maps with metamaps, possibly cyclic: node 0 is the
/// module's export map (`self` in a test function), node 1 a map `x` whose `@base` is `self`.
/// Each (graph, subject) is one script, run in the worker child; the expected type name and the
/// outcome of each hint come from the graph model (`cyc` requests: `typeNameG`, `checkG`).
fn cyclic_graph_grid(cx: &mut Ctx) {
    const HINTS: &[&str] = &["Foo", "Bar", "Baz", "Object", "Map", "Any", "Indexable", "Callable", "Qux"];
    let ty0s: [(&str, &str); 3] = [("-", ""), ("x426172", "export @type = 'Bar'\n"), ("!", "export @type = 42\n")];
    let ty1s: [Option<(&str, &str)>; 4] = [None, Some(("-", "")), Some(("x466f6f", ", @type: 'Foo'")), Some(("x42617a", ", @type: 'Baz'"))];
    let mut w = kvh::worker::Worker::spawn(&["--worker".to_string()]);
    let mut n_scripts = 0u64;
    for (t0, t0_src) in ty0s {
        for t1 in ty1s {
            let base0s: &[Option<usize>] = if t1.is_some() { &[None, Some(0), Some(1)] } else { &[None, Some(0)] };
            for base0 in base0s {
                let subjects: &[usize] = if t1.is_some() { &[0, 1] } else { &[0] };
                for subj in subjects {
                    let mut nodes = format!("({} {})", t0, base0.map_or("-".to_string(), |b| b.to_string()));
                    let mut script = String::from(t0_src);
                    script.push_str("export @test cyc = ||\n");
                    if let Some((t1n, t1_src)) = t1 {
                        nodes.push_str(&format!(" ({} 0)", t1n));
                        script.push_str(&format!("  x = {{@meta z: 0{}, @base: self}}\n", t1_src));
                    }
                    match base0 {
                        Some(0) => script.push_str("  export @base = self\n"),
                        Some(_) => script.push_str("  export @base = x\n"),
                        None => {}
                    }
                    script.push_str(if *subj == 0 { "  s = self\n" } else { "  s = x\n" });
                    script.push_str("  print repr(koto.type(s))\n");
                    let mut reqs = vec![];
                    for h in HINTS {
                        script.push_str(&format!("  r = match s\n    _: {} then 1\n    _ then 2\n  print repr(r)\n", h));
                        reqs.push(format!("cyc {} ({}) {}", sx_hint(&hint(h, false)), nodes, subj));
                    }
                    let resps = cx.drv.batch(&reqs);
                    let mut expected = String::from("ok <fn> |");
                    for (i, r) in resps.iter().enumerate() {
                        let (ty, chk) = r.split_once(" chk=").unwrap_or(("", ""));
                        if i == 0 {
                            expected.push_str(&format!(" s{}", ty.strip_prefix("ty=").unwrap_or("?")));
                        }
                        expected.push_str(if chk == "1" { " i1" } else { " i2" });
                    }
                    let key = format!("cycgraph ({}) subject {}", nodes, subj);
                    cx.rep.case(&key, true);
                    cx.rep.bump(if base0.is_some() { "kind=base-graph:cyclic(worker)" } else { "kind=base-graph:acyclic(worker)" });
                    n_scripts += 1;
                    let reply = w.request(&kvh::hex(script.as_bytes()), std::time::Duration::from_secs(4));
                    let observed = match &reply {
                        kvh::worker::Reply::Ok(s) => s.clone(),
                        kvh::worker::Reply::Timeout => "does not terminate (killed after 4 s)".to_string(),
                        kvh::worker::Reply::Died(st) => format!("the process died ({})", st),
                    };
                    if observed != expected {
                        cx.d_fail += 1;
                        if cx.d_fail <= 5 {
                            cx.rep.violation(
                                "D",
                                "C16:base-graph",
                                json!({"graph": nodes, "subject": subj, "script": script, "impl": observed, "model": expected,
                                       "hints": HINTS,
                                       "note": "run with tests enabled; type name and hint checks on a (possibly cyclic) @base graph deviate from typeNameG/checkG (Model/Types.lean)"}),
                            );
                        }
                    }
                }
            }
        }
    }
    cx.rep.extra.insert("base_graph_scripts".into(), json!(n_scripts));
}

/// `@base` chains whose maps share their *data* (`map.with_meta data, meta`) while having distinct
/// metamaps, and the reverse: they are distinct steps of the chain. Compared with the graph model
/// (`cyc` requests; acyclic graphs here). Known finding F-C16-3 while the cycle guard compares data
/// pointers.
fn shared_data_chain_grid(cx: &mut Ctx) {
    const HINTS: &[&str] = &["A", "B", "C", "Object", "Map", "Qux", "Any"];
    let open: Vec<String> = cx.rep.known_open().iter().filter_map(|e| e["id"].as_str().map(|s| s.to_string())).collect();
    let mut w = kvh::worker::Worker::spawn(&["--worker".to_string()]);
    let names = ["A", "B", "C"];
    let mut n_scripts = 0u64;
    let mut attributed = 0u64;
    for depth in 2..=3usize {
        for share_mask in 0..(1u32 << depth) {
            for ty_mask in 0..(1u32 << depth) {
                // layer i: shares the common data map iff bit i of share_mask; has @type iff bit i of ty_mask
                let mut script = String::from("data = {x: 1}\n");
                let mut nodes = vec![];
                for i in (0..depth).rev() {
                    let ty = if ty_mask >> i & 1 == 1 { format!(", @type: '{}'", names[i]) } else { String::new() };
                    let base = if i + 1 < depth { format!(", @base: n{}", i + 1) } else { String::new() };
                    let meta = format!("{{@meta z: 0{}{}}}", ty, base);
                    if share_mask >> i & 1 == 1 {
                        script.push_str(&format!("n{} = map.with_meta data, {}\n", i, meta));
                    } else {
                        script.push_str(&format!("n{} = map.with_meta {{y: {}}}, {}\n", i, i, meta));
                    }
                }
                for i in 0..depth {
                    let ty = if ty_mask >> i & 1 == 1 { kvh::hex(names[i].as_bytes()) } else { "-".to_string() };
                    let base = if i + 1 < depth { (i + 1).to_string() } else { "-".to_string() };
                    nodes.push(format!("({} {})", ty, base));
                }
                let nodes = nodes.join(" ");
                script.push_str("print repr(koto.type(n0))\n");
                let mut reqs = vec![];
                for h in HINTS {
                    script.push_str(&format!("r = match n0\n  _: {} then 1\n  _ then 2\nprint repr(r)\n", h));
                    reqs.push(format!("cyc {} ({}) 0", sx_hint(&hint(h, false)), nodes));
                }
                script.push_str("0\n");
                let resps = cx.drv.batch(&reqs);
                let mut expected = String::from("ok i0 |");
                for (i, r) in resps.iter().enumerate() {
                    let (ty, chk) = r.split_once(" chk=").unwrap_or(("", ""));
                    if i == 0 {
                        expected.push_str(&format!(" s{}", ty.strip_prefix("ty=").unwrap_or("?")));
                    }
                    expected.push_str(if chk == "1" { " i1" } else { " i2" });
                }
                cx.rep.case(&format!("shared-data chain depth {} share {:b} types {:b}", depth, share_mask, ty_mask), true);
                cx.rep.bump("kind=base-chain-with-shared-data(worker)");
                n_scripts += 1;
                let reply = w.request(&kvh::hex(script.as_bytes()), std::time::Duration::from_secs(4));
                let observed = match &reply {
                    kvh::worker::Reply::Ok(s) => s.clone(),
                    kvh::worker::Reply::Timeout => "does not terminate (killed after 4 s)".to_string(),
                    kvh::worker::Reply::Died(st) => format!("the process died ({})", st),
                };
                if observed != expected {
                    // cause rule of F-C16-3: at least two maps of the chain share the data map, and the
                    // implementation answers "no match" (i2) somewhere the model finds the name further down
                    let shared = share_mask.count_ones() >= 2;
                    // every deviation points to a chain that was cut short: a name from further down
                    // is missed (type name `Object`, hint A/B/C not matched), and `Object` matches instead
                    let ot: Vec<&str> = observed.split(' ').collect();
                    let et: Vec<&str> = expected.split(' ').collect();
                    let only_cut_short = ot.len() == et.len()
                        && ot.len() == 4 + HINTS.len()
                        && (0..ot.len()).all(|i| {
                            ot[i] == et[i]
                                || (i == 3 && ot[i] == "sx4f626a656374")
                                || (i >= 4 && HINTS[i - 4] != "Any" && ot[i] == "i2" && et[i] == "i1")
                                || (i >= 4 && HINTS[i - 4] == "Object" && ot[i] == "i1" && et[i] == "i2")
                        });
                    if shared && only_cut_short && open.iter().any(|x| x == "F-C16-3") {
                        attributed += 1;
                        continue;
                    }
                    cx.d_fail += 1;
                    if cx.d_fail <= 5 {
                        cx.rep.violation(
                            "D",
                            "C16:base-chain-shared-data",
                            json!({"graph": nodes, "script": script, "impl": observed, "model": expected, "hints": HINTS,
                                   "note": "@base chain built with map.with_meta: type name / hint checks deviate from typeNameG/checkG"}),
                        );
                    }
                }
            }
        }
    }
    if attributed > 0 {
        cx.rep.known("F-C16-3", &format!("{} of {} chains with shared data are cut short by the cycle guard", attributed, n_scripts));
    }
    cx.rep.extra.insert("shared_data_chain_scripts".into(), json!(n_scripts));
}

/// Hints inside *map patterns* (`{k0: T}`, `{k0 as v: T}`, `{k0 as _: T}`, `{k0 as _w: T}`, `{k0}: T`)
/// at let / for / function-argument (assert) and match (check) positions. The evaluator model has no
/// map patterns; the oracle is the model's `check` and `typeName` (`chk` / `ty` requests): an assert
/// position raises "expected T, found U" exactly when `check` is false (never with checks disabled),
/// a match arm is taken exactly when `check` is true. Known finding F-C16-4: wildcard rebinds in
/// let/for are not asserted.
fn map_pattern_grid(cx: &mut Ctx, values: &[(String, V)], names: &[&str]) {
    let open: Vec<String> = cx.rep.known_open().iter().filter_map(|e| e["id"].as_str().map(|s| s.to_string())).collect();
    let forms = ["entry", "rebind", "rebind-wild", "rebind-wildn", "whole"];
    let positions = ["let", "for", "arg", "match", "multi-let"];
    let mut attributed = 0u64;
    let mut n = 0u64;
    let funs_src = render(&Prog { funs: base_funs(), main: lit_i(0) }).unwrap_or_default();
    let funs_src = funs_src.trim_end_matches("0\n").to_string();
    for (vn, v) in values {
        let subject = V::Map(vec![(0, v.clone())]);
        for name in names {
            for opt in [false, true] {
                let h = hint(name, opt);
                let resp = cx.drv.batch(&[
                    format!("chk {} {}", sx_hint(&h), sx_v(v)),
                    format!("ty {}", sx_v(v)),
                    format!("chk {} {}", sx_hint(&h), sx_v(&subject)),
                ]);
                let ty_x = resp[1].split(' ').next().and_then(|t| t.strip_prefix("ty=")).and_then(kvh::unhex).map(|b| String::from_utf8_lossy(&b).to_string()).unwrap_or_default();
                for form in forms {
                    let (pat, passes, found) = match form {
                        "entry" => (format!("{{k0: {}}}", r_hint(&h)), resp[0] == "1", ty_x.clone()),
                        "rebind" => (format!("{{k0 as v9: {}}}", r_hint(&h)), resp[0] == "1", ty_x.clone()),
                        "rebind-wild" => (format!("{{k0 as _: {}}}", r_hint(&h)), resp[0] == "1", ty_x.clone()),
                        "rebind-wildn" => (format!("{{k0 as _w9: {}}}", r_hint(&h)), resp[0] == "1", ty_x.clone()),
                        _ => (format!("{{k0}}: {}", r_hint(&h)), resp[2] == "1", "Map".to_string()),
                    };
                    for pos in positions {
                        let sub = r_v(&subject);
                        let body = match pos {
                            "let" => format!("print(repr(1))\nlet {} = {}\nprint(repr(2))\n7\n", pat, sub),
                            "multi-let" => format!("print(repr(1))\nlet v5, {} = [3, {}]\nprint(repr(v5))\n7\n", pat, sub),
                            "for" => format!("for {} in [{}, {}]\n  print(repr(1))\n7\n", pat, sub, sub),
                            "arg" => format!("g = |v5, {}|\n  print(repr(1))\n  v5\nprint(repr(0))\ng(7, {})\n", pat, sub),
                            _ => format!("match {}\n  {} then\n    print(repr(10))\n    7\n  else\n    print(repr(11))\n    8\n", sub, pat),
                        };
                        let script = format!("{}{}", funs_src, body);
                        let (exp_on, exp_on_out, exp_off, exp_off_out) = match pos {
                            "match" => {
                                let (r, o) = if passes { ("ok i7", "i10") } else { ("ok i8", "i11") };
                                (r.to_string(), o, r.to_string(), o)
                            }
                            _ => {
                                let ok_out = match pos {
                                    "let" => "i1 i2",
                                    "multi-let" => "i1 i3",
                                    "for" => "i1 i1",
                                    _ => "i0 i1",
                                };
                                let fail_out = match pos {
                                    "let" | "multi-let" => "i1",
                                    "for" => "-",
                                    _ => "i0",
                                };
                                if passes {
                                    ("ok i7".to_string(), ok_out, "ok i7".to_string(), ok_out)
                                } else {
                                    (format!("err expected {}, found {}", r_hint(&h), found), fail_out, "ok i7".to_string(), ok_out)
                                }
                            }
                        };
                        let key = format!("mappat {} {} {}{} {}", pos, form, name, if opt { "?" } else { "" }, vn);
                        cx.rep.case(&key, true);
                        cx.rep.bump("kind=map-pattern-hints");
                        n += 1;
                        let show = |o: &Out| match o {
                            Out::Ok(c) => format!("ok {}", c),
                            Out::Err(l) => format!("err {}", l),
                            other => format!("{:?}", other),
                        };
                        let (on, on_lines, _) = run_koto(&script, true);
                        let (off, off_lines, _) = run_koto(&script, false);
                        let got = (show(&on), trace_text(&on_lines), show(&off), trace_text(&off_lines));
                        if got.0 == exp_on && got.1 == exp_on_out && got.2 == exp_off && got.3 == exp_off_out {
                            continue;
                        }
                        // cause rule of F-C16-4: let / for (and a let inside a multi-assignment), wildcard
                        // rebind, the hint does not hold, and the implementation simply goes on
                        let f4 = matches!(pos, "let" | "for" | "multi-let")
                            && matches!(form, "rebind-wild" | "rebind-wildn")
                            && !passes
                            && got.0 == "ok i7"
                            && got.2 == exp_off
                            && got.3 == exp_off_out;
                        if f4 && open.iter().any(|x| x == "F-C16-4") {
                            attributed += 1;
                            continue;
                        }
                        cx.d_fail += 1;
                        if cx.d_fail <= 5 {
                            cx.rep.violation(
                                "D",
                                "C16:map-pattern-hint",
                                json!({"case": key, "script": script, "expected_on": [exp_on, exp_on_out], "expected_off": [exp_off, exp_off_out],
                                       "impl_on": [got.0, got.1], "impl_off": [got.2, got.3],
                                       "note": "a hint inside a map pattern must be asserted (let/for/argument) or checked (match) against the entry's value; oracle: check/typeName of Model/Types.lean"}),
                            );
                        }
                    }
                }
            }
        }
    }
    if attributed > 0 {
        cx.rep.known("F-C16-4", &format!("{} of {} map-pattern cases: the hint of a wildcard rebind in let/for is not asserted", attributed, n));
    }
    cx.rep.extra.insert("map_pattern_cases".into(), json!(n));
}

/// A single wildcard pattern on a `match` with several subjects (`match a, b` / `_: T then`) stands
/// for all of them: the value under the hint is the tuple of the subjects. Oracle: the model's `check`
/// on that tuple. Known finding F-C16-6 while the runtime checks its internal TemporaryTuple.
fn multi_subject_wildcard_grid(cx: &mut Ctx, values: &[(String, V)], names: &[&str]) {
    let open: Vec<String> = cx.rep.known_open().iter().filter_map(|e| e["id"].as_str().map(|s| s.to_string())).collect();
    let mut attributed = 0u64;
    let mut n = 0u64;
    for (vn, v) in values {
        for n_sub in [2usize, 3] {
            let mut subjects = vec![v.clone(), V::Int(5)];
            if n_sub == 3 {
                subjects.push(V::Str("s".into()));
            }
            let tuple = V::Tuple(subjects.clone());
            for name in names {
                for opt in [false, true] {
                    let h = hint(name, opt);
                    let passes = cx.drv.ask(&format!("chk {} {}", sx_hint(&h), sx_v(&tuple))) == "1";
                    for pat in ["_", "_w7"] {
                        let script = format!(
                            "r = match {}\n  {}: {} then\n    print(repr(10))\n    7\n  else\n    print(repr(11))\n    8\nr\n",
                            subjects.iter().map(r_v).collect::<Vec<_>>().join(", "),
                            pat,
                            r_hint(&h)
                        );
                        let script = format!("f0 = |v0|\n  v0\n{}", script);
                        let key = format!("multi-subject-wildcard {} {}{} {} {}", n_sub, name, if opt { "?" } else { "" }, pat, vn);
                        cx.rep.case(&key, true);
                        cx.rep.bump("kind=multi-subject-wildcard");
                        n += 1;
                        let expected = if passes { ("ok i7".to_string(), "i10".to_string()) } else { ("ok i8".to_string(), "i11".to_string()) };
                        let mut bad = false;
                        for checks in [true, false] {
                            let (o, lines, _) = run_koto(&script, checks);
                            let got = (match &o { Out::Ok(c) => format!("ok {}", c), other => format!("{:?}", other) }, trace_text(&lines));
                            if got != expected {
                                bad = true;
                            }
                        }
                        if !bad {
                            continue;
                        }
                        // cause rule of F-C16-6: the only names for which a Tuple and the internal
                        // TemporaryTuple differ
                        let f6 = matches!(*name, "Tuple" | "Indexable" | "Iterable" | "TemporaryTuple");
                        if f6 && open.iter().any(|x| x == "F-C16-6") {
                            attributed += 1;
                            continue;
                        }
                        cx.d_fail += 1;
                        if cx.d_fail <= 5 {
                            cx.rep.violation(
                                "D",
                                "C16:multi-subject-wildcard",
                                json!({"case": key, "script": script, "expected": expected,
                                       "impl_on": format!("{:?}", run_koto(&script, true).0), "impl_off": format!("{:?}", run_koto(&script, false).0),
                                       "note": "a hinted wildcard over several match subjects is checked against the tuple of the subjects; the internal TemporaryTuple must not be observable"}),
                            );
                        }
                    }
                }
            }
        }
    }
    if attributed > 0 {
        cx.rep.known("F-C16-6", &format!("{} of {} multi-subject wildcard cases: the hint sees the internal TemporaryTuple", attributed, n));
    }
    cx.rep.extra.insert("multi_subject_wildcard_cases".into(), json!(n));
}

/// Hand-written programs *without any hint*, around the checks the compiler emits that are not type
/// hints (container sizes of nested arguments and patterns, unpacking, thrown errors, runtime errors):
/// the two compilations must agree on them whatever happens.
fn hint_free_programs() -> Vec<(String, Prog)> {
    let em = |n: i64| E::Emit(bx(lit_i(n)));
    let idp = |n: u32| P::B(T::Id(n), None);
    let wild = P::B(T::Wild, None);
    let mut out: Vec<(String, Prog)> = vec![];
    // nested arguments × argument values of the right and of wrong sizes / kinds
    let pats: Vec<(&str, Vec<P>)> = vec![
        ("pair", vec![P::Tup(vec![idp(1), idp(2)]), idp(3)]),
        ("pair-wild", vec![P::Tup(vec![idp(1), wild.clone()]), idp(3)]),
        ("deep", vec![idp(3), P::Tup(vec![idp(1), P::Tup(vec![idp(2), P::B(T::WildNamed(8), None)])])]),
        ("triple", vec![P::Tup(vec![idp(1), idp(2), idp(4)]), idp(3)]),
    ];
    let args: Vec<(&str, V)> = vec![
        ("t2", V::Tuple(vec![V::Int(1), V::Int(2)])),
        ("t3", V::Tuple(vec![V::Int(1), V::Int(2), V::Int(3)])),
        ("t1", V::Tuple(vec![V::Int(1)])),
        ("l2", V::List(vec![V::Int(1), V::Int(2)])),
        ("l0", V::List(vec![])),
        ("nested-ok", V::Tuple(vec![V::Int(1), V::Tuple(vec![V::Int(2), V::Int(3)])])),
        ("nested-inner-3", V::Tuple(vec![V::Int(1), V::Tuple(vec![V::Int(2), V::Int(3), V::Int(4)])])),
        ("int", V::Int(7)),
        ("null", V::Null),
        ("str", V::Str("ab".into())),
    ];
    for (pn, params) in &pats {
        for (an, a) in &args {
            for is_gen in [false, true] {
                for in_try in [false, true] {
                    let mut funs = base_funs();
                    let call_args: Vec<E> = params
                        .iter()
                        .map(|p| if matches!(p, P::Tup(_)) { E::Lit(a.clone()) } else { lit_i(9) })
                        .collect();
                    let body_stmts = vec![em(1), E::Emit(bx(E::Var(1))), E::Var(3)];
                    let use_it = if is_gen {
                        funs.push(FunDef {
                            params: params.clone(),
                            out: None,
                            body: Body::Gen(vec![GStmt::Exec(em(1)), GStmt::Yld(E::Var(1)), GStmt::Yld(E::Var(3))]),
                        });
                        E::For(vec![(T::Id(5), None)], bx(E::Call(bx(E::Lit(V::GenFn(2))), call_args)), bx(E::Emit(bx(E::Var(5)))))
                    } else {
                        funs.push(FunDef { params: params.clone(), out: None, body: Body::Plain(seq(body_stmts)) });
                        E::Call(bx(E::Lit(V::Fn(2))), call_args)
                    };
                    let main = if in_try {
                        seq(vec![em(0), E::Try(bx(use_it), vec![], T::Id(6), bx(seq(vec![em(90), E::TypeOf(bx(E::Var(6)))]))), em(2)])
                    } else {
                        seq(vec![em(0), use_it, em(2)])
                    };
                    out.push((format!("nested-arg:{}:{}:{}:{}", pn, an, if is_gen { "gen" } else { "fn" }, if in_try { "try" } else { "top" }), Prog { funs, main }));
                }
            }
        }
    }
    // patterns and unpacking
    for (an, a) in &args {
        out.push((
            format!("match-nested:{}", an),
            Prog {
                funs: base_funs(),
                main: E::Match(
                    vec![E::Lit(a.clone())],
                    vec![
                        Arm { alts: vec![vec![P::Tup(vec![idp(1), idp(2)])], vec![P::Tup(vec![idp(1), P::Tup(vec![idp(2), wild.clone()])])]], guard: None, body: seq(vec![em(10), E::Var(1)]) },
                        Arm { alts: vec![vec![P::Tup(vec![idp(1)])], vec![P::Lit(7)]], guard: Some(E::Lt(bx(lit_i(1)), bx(lit_i(2)))), body: em(11) },
                        Arm { alts: vec![], guard: None, body: em(12) },
                    ],
                ),
            },
        ));
        out.push((
            format!("unpack:{}", an),
            Prog {
                funs: base_funs(),
                main: seq(vec![
                    E::Try(
                        bx(seq(vec![E::LetUnpack(vec![(T::Id(1), None), (T::Wild, None), (T::Id(3), None)], bx(E::Lit(a.clone()))), E::Emit(bx(E::Var(1))), E::Emit(bx(E::Var(3)))])),
                        vec![],
                        T::Wild,
                        bx(em(90)),
                    ),
                    E::For(vec![(T::Id(4), None), (T::WildNamed(5), None)], bx(E::Lit(V::List(vec![a.clone()]))), bx(E::Emit(bx(E::Var(4))))),
                ]),
            },
        ));
        out.push((
            format!("throw:{}", an),
            Prog {
                funs: base_funs(),
                main: seq(vec![
                    E::Try(bx(seq(vec![em(1), E::Throw(bx(E::Lit(a.clone()))), em(2)])), vec![], T::Id(1), bx(E::Emit(bx(E::TypeOf(bx(E::Var(1))))))),
                    em(3),
                    E::Throw(bx(E::Lit(a.clone()))),
                ]),
            },
        ));
    }
    out.push((
        "runtime-error-in-operator".into(),
        Prog {
            funs: base_funs(),
            main: seq(vec![
                E::Try(bx(E::Add(bx(lit_i(1)), bx(lit_s("s")))), vec![], T::Id(1), bx(em(90))),
                E::Add(bx(lit_i(1)), bx(lit_s("s"))),
            ]),
        },
    ));
    out
}

/// Typed `catch` blocks in every form — `e: T`, `_: T`, `_e: T`, `T?`, map patterns `{k}`, `{k: T}`,
/// `{k as x: T}`, `{k as _: T}`, `{k}: T` — in chains of one or two blocks followed by a last block
/// that is untyped or a map pattern, × thrown values. Oracle (the model's `check`, `chk` requests):
/// the first block whose pattern accepts the thrown value runs, and only that one; if none does, the
/// error propagates *unchanged* to the enclosing handler (observed by an outer `try` and at top
/// level). Both modes must agree (no assertion is involved).
fn catch_chain_grid(cx: &mut Ctx) {
    #[derive(Clone)]
    enum CF {
        Id(&'static str, &'static str, bool),          // target spelling, type, optional
        Key(&'static str),                             // {k}
        Entry(&'static str, &'static str, &'static str), // {k <spelling> T}: spelling "", "as v9", "as _", "as _w9"
        Whole(&'static str),                           // {k0}: T
        CatchAll,
    }
    let types = ["String", "Map", "Foo", "Qux"];
    let mut first: Vec<CF> = vec![];
    for t in types {
        for tgt in ["v8", "_", "_w8"] {
            for opt in [false, true] {
                first.push(CF::Id(tgt, t, opt));
            }
        }
    }
    let mut maps: Vec<CF> = vec![CF::Key("k0"), CF::Key("k9")];
    for t in types {
        maps.push(CF::Entry("k0", "", t));
        maps.push(CF::Entry("k0", " as v9", t));
        maps.push(CF::Entry("k0", " as _", t));
        maps.push(CF::Entry("k0", " as _w9", t));
        maps.push(CF::Whole(t));
    }
    first.extend(maps.clone());
    let mut last: Vec<CF> = vec![CF::CatchAll];
    last.extend(maps);
    let thrown: Vec<V> = vec![
        V::Str("s".into()),
        V::Int(5),
        V::Null,
        V::Map(vec![(0, V::Int(1))]),
        V::Map(vec![(0, V::Str("x".into()))]),
        V::Obj { ty: MetaTy::Str("Foo".into()), call: false, iter: false, next: false, es: vec![(0, V::Map(vec![]))], base: None },
        V::Obj { ty: MetaTy::Str("Bar".into()), call: false, iter: false, next: false, es: vec![(1, V::Int(2))], base: Some(Box::new(obj_t("Foo", None))) },
        V::List(vec![V::Int(1)]),
    ];
    // oracle cache
    let mut cache: std::collections::HashMap<String, bool> = Default::default();
    let mut chk = |cx: &mut Ctx, t: &str, opt: bool, v: &V| -> bool {
        let key = format!("chk {} {}", sx_hint(&hint(t, opt)), sx_v(v));
        if let Some(b) = cache.get(&key) {
            return *b;
        }
        let b = cx.drv.ask(&key) == "1";
        cache.insert(key, b);
        b
    };
    let entries = |v: &V| -> Option<Vec<(u32, V)>> {
        match v {
            V::Map(es) => Some(es.clone()),
            V::Obj { es, .. } => Some(es.clone()),
            _ => None,
        }
    };
    let src = |f: &CF| -> String {
        match f {
            CF::Id(tgt, t, opt) => format!("{}: {}{}", tgt, t, if *opt { "?" } else { "" }),
            CF::Key(k) => format!("{{{}}}", k),
            CF::Entry(k, sp, t) => format!("{{{}{}: {}}}", k, sp, t),
            CF::Whole(t) => format!("{{k0}}: {}", t),
            CF::CatchAll => "v7".to_string(),
        }
    };
    let mut n = 0u64;
    let mut chains: Vec<Vec<CF>> = last.iter().map(|l| vec![l.clone()]).collect();
    for f in &first {
        for l in &last {
            chains.push(vec![f.clone(), l.clone()]);
        }
    }
    // a few chains of three
    for f in first.iter().step_by(7) {
        for g in first.iter().skip(3).step_by(11) {
            chains.push(vec![f.clone(), g.clone(), CF::CatchAll]);
            chains.push(vec![f.clone(), g.clone(), CF::Entry("k0", "", "String")]);
        }
    }
    for chain in &chains {
        for x in &thrown {
            // which block takes it?
            let mut selected: Option<usize> = None;
            for (i, f) in chain.iter().enumerate() {
                let m = match f {
                    CF::Id(_, t, opt) => chk(cx, t, *opt, x),
                    CF::Key(k) => entries(x).is_some_and(|es| es.iter().any(|(n, _)| format!("k{}", n) == *k)),
                    CF::Entry(k, _, t) => match entries(x).and_then(|es| es.into_iter().find(|(n, _)| format!("k{}", n) == *k)) {
                        Some((_, ev)) => chk(cx, t, false, &ev),
                        None => false,
                    },
                    CF::Whole(t) => entries(x).is_some_and(|es| es.iter().any(|(n, _)| *n == 0)) && chk(cx, t, false, x),
                    CF::CatchAll => true,
                };
                if m {
                    selected = Some(i);
                    break;
                }
            }
            let inner = |ind: usize| -> String {
                let p = " ".repeat(ind);
                let mut t = format!("try\n{p}  print(repr(1))\n{p}  throw v0\n");
                for (i, f) in chain.iter().enumerate() {
                    t.push_str(&format!("{p}catch {}\n{p}  print(repr({}))\n{p}  {}\n", src(f), 10 + i, 10 + i));
                }
                t
            };
            for outer in [true, false] {
                let script = if outer {
                    format!("v0 = {}\nr = try\n  {}catch v6\n  print(repr(99))\n  print(repr(v6))\n  99\nprint(repr(2))\nr\n", r_v(x), inner(2))
                } else {
                    format!("v0 = {}\nr = {}print(repr(2))\nr\n", r_v(x), inner(0))
                };
                let xc = cx.drv.ask(&format!("run 10 (funs) (lit {})", sx_v(x)));
                let x_canon = xc.split(" ;; ").next().and_then(|r| r.strip_prefix("ok ")).unwrap_or("?").to_string();
                let expected: (String, String) = match (selected, outer) {
                    (Some(i), _) => (format!("ok i{}", 10 + i), format!("i1 i{} i2", 10 + i)),
                    (None, true) => ("ok i99".to_string(), format!("i1 i99 {} i2", x_canon)),
                    (None, false) => ("err".to_string(), "i1".to_string()),
                };
                let key = format!("catch-chain [{}] thrown {} {}", chain.iter().map(&src).collect::<Vec<_>>().join(" | "), sx_v(x), if outer { "outer-try" } else { "top-level" });
                cx.rep.case(&key, true);
                cx.rep.bump("kind=catch-chain");
                n += 1;
                let mut bad = vec![];
                for checks in [true, false] {
                    let (o, lines, _) = run_koto(&script, checks);
                    let got = (
                        match &o {
                            Out::Ok(c) => format!("ok {}", c),
                            Out::Err(_) => "err".to_string(),
                            other => format!("{:?}", other),
                        },
                        trace_text(&lines),
                    );
                    if got != expected {
                        bad.push(json!({"checks": checks, "impl": [got.0, got.1], "impl_raw": format!("{:?}", o)}));
                    }
                }
                if !bad.is_empty() {
                    cx.d_fail += 1;
                    if cx.d_fail <= 5 {
                        cx.rep.violation(
                            "D",
                            "C16:catch-chain",
                            json!({"case": key, "script": script, "expected": [expected.0, expected.1], "deviations": bad,
                                   "note": "the first catch block whose pattern accepts the thrown value runs; if none does the error propagates unchanged to the enclosing handler"}),
                        );
                    }
                }
            }
        }
    }
    cx.rep.extra.insert("catch_chain_cases".into(), json!(n));
}

/// Hints inside nested argument patterns and match patterns **with an ellipsis** (leading or trailing,
/// named or unnamed), the hinted slot at every position, in every target form, against containers
/// shorter than / as long as / longer than the pattern (by 1 and 2), with one mismatching element at
/// each index (or none). Oracle: the hinted slot `j` of `n` slots denotes element `j` with a trailing
/// ellipsis and element `size - n + j` (counted from the end) with a leading one; the hint `Number`
/// holds for the integers and fails for the one string. Arguments assert (only with checks enabled; a
/// container that is too short is a size error in both modes), match arms check (too short: next arm).
fn ellipsis_grid(cx: &mut Ctx) {
    let mut n_cases = 0u64;
    for n in 1..=3usize {
        for j in 0..n {
            for form in ["v7", "_", "_w7"] {
                for leading in [true, false] {
                    for named in [true, false] {
                        // the pattern
                        let mut slots: Vec<String> = vec![];
                        for k in 0..n {
                            if k == j {
                                slots.push(format!("{}: Number", form));
                            } else {
                                slots.push(format!("v{}", k + 1));
                            }
                        }
                        let ell = if named { "r9..." } else { "..." };
                        let pat = if leading { format!("({}, {})", ell, slots.join(", ")) } else { format!("({}, {})", slots.join(", "), ell) };
                        for d in [-1i64, 0, 1, 2] {
                            let size = (n as i64 + d) as usize;
                            for bad in 0..=size {
                                // `bad == size`: no mismatching element
                                for list in [false, true] {
                                    let elems: Vec<String> = (0..size).map(|i| if i == bad { "'x'".to_string() } else { (i + 1).to_string() }).collect();
                                    let canon_elem = |i: usize| if i == bad { "sx78".to_string() } else { format!("i{}", i + 1) };
                                    let cont = if list {
                                        format!("[{}]", elems.join(", "))
                                    } else if size == 1 {
                                        format!("({},)", elems[0])
                                    } else {
                                        format!("({})", elems.join(", "))
                                    };
                                    let fits = size >= n;
                                    let denoted = |k: usize| if leading { size - n + k } else { k };
                                    let hint_ok = fits && denoted(j) != bad;
                                    // what the body prints: every named slot, then the size of the rest
                                    let mut prints = String::new();
                                    let mut expected_out: Vec<String> = vec!["i1".to_string()];
                                    for k in 0..n {
                                        let name = if k == j { if form == "v7" { Some("v7".to_string()) } else { None } } else { Some(format!("v{}", k + 1)) };
                                        if let Some(name) = name {
                                            prints.push_str(&format!("    print(repr({}))\n", name));
                                            if fits {
                                                expected_out.push(canon_elem(denoted(k)));
                                            }
                                        }
                                    }
                                    if named {
                                        prints.push_str("    print(repr(size(r9)))\n");
                                        if fits {
                                            expected_out.push(format!("i{}", size - n));
                                        }
                                    }
                                    for pos in ["arg", "match"] {
                                        let script = if pos == "arg" {
                                            format!("f = |v0, {}|\n  if true\n    print(repr(1))\n{}  v0\nprint(repr(0))\nf(7, {})\n", pat, prints, cont)
                                        } else {
                                            format!("print(repr(0))\nmatch {}\n  {} then\n    print(repr(1))\n{}    7\n  else\n    print(repr(11))\n    8\n", cont, pat, prints)
                                        };
                                        // expected (result, output) with checks on / off
                                        let ok_out = format!("i0 {}", expected_out.join(" "));
                                        let (exp_on, exp_off): ((String, String), (String, String)) = if pos == "arg" {
                                            if !fits {
                                                (("err-size".into(), "i0".into()), ("err-size".into(), "i0".into()))
                                            } else if hint_ok {
                                                (("ok i7".into(), ok_out.clone()), ("ok i7".into(), ok_out.clone()))
                                            } else {
                                                (("err expected Number, found String".into(), "i0".into()), ("ok i7".into(), ok_out.clone()))
                                            }
                                        } else if hint_ok {
                                            (("ok i7".into(), ok_out.clone()), ("ok i7".into(), ok_out.clone()))
                                        } else {
                                            (("ok i8".into(), "i0 i11".into()), ("ok i8".into(), "i0 i11".into()))
                                        };
                                        let key = format!("ellipsis {} {} in {} bad@{}", pos, pat, cont, if bad == size { "-".to_string() } else { bad.to_string() });
                                        cx.rep.case(&key, true);
                                        cx.rep.bump("kind=ellipsis-pattern-hints");
                                        n_cases += 1;
                                        let mut devs = vec![];
                                        for (checks, exp) in [(true, &exp_on), (false, &exp_off)] {
                                            let (o, lines, _) = run_koto(&script, checks);
                                            let got = (
                                                match &o {
                                                    Out::Ok(c) => format!("ok {}", c),
                                                    Out::Err(l) if l.contains("container has a size") => "err-size".to_string(),
                                                    Out::Err(l) => format!("err {}", l),
                                                    other => format!("{:?}", other),
                                                },
                                                trace_text(&lines),
                                            );
                                            if &got != exp {
                                                devs.push(json!({"checks": checks, "expected": [exp.0, exp.1], "impl": [got.0, got.1]}));
                                            }
                                        }
                                        if !devs.is_empty() {
                                            cx.d_fail += 1;
                                            if cx.d_fail <= 5 {
                                                cx.rep.violation(
                                                    "D",
                                                    "C16:ellipsis-pattern-hint",
                                                    json!({"case": key, "script": script, "deviations": devs,
                                                           "note": "a hint in a pattern with an ellipsis is checked against exactly the element its position denotes (counted from the end after a leading ellipsis)"}),
                                                );
                                            }
                                        }
                                    }
                                }
                            }
                        }
                    }
                }
            }
        }
    }
    cx.rep.extra.insert("ellipsis_pattern_cases".into(), json!(n_cases));
}

/// `CompileArgs` is a builder: the switches must be independent. The exports of a script compiled
/// with `export_top_level_ids(true)` are the same whichever side of it `enable_type_checks(b)` is set,
/// and contain the script's top-level ids.
fn compile_args_independence(cx: &mut Ctx) {
    let script = "let v1: Number = 1\nv2 = 'a'\nlet v3: String?, _: Number = null, 2\nfor v4: Number in 0..2\n  v4\nv1\n";
    for checks in [true, false] {
        let exports = |order: u8| -> String {
            let cap = Capture::default();
            let mut koto = make_koto(&cap);
            let args = match order {
                0 => CompileArgs::new(script).export_top_level_ids(true).enable_type_checks(checks),
                _ => CompileArgs::new(script).enable_type_checks(checks).export_top_level_ids(true),
            };
            let r = koto.compile_and_run(args).map(|v| format!("ok {}", canon(&v))).unwrap_or_else(|e| format!("err {}", e));
            format!("{} | {}", r, canon(&KValue::Map(koto.exports().clone())))
        };
        cx.rep.case(&format!("compile-args order checks={}", checks), true);
        cx.rep.bump("kind=compile-args-independence");
        let (a, b) = (exports(0), exports(1));
        let expected = "ok i1 | (m (sx7631 i1) (sx7632 sx61) (sx7633 null) (sx7634 null))";
        if a != b || a != expected {
            cx.d_fail += 1;
            cx.rep.violation(
                "D",
                "C16:compile-args-independence",
                json!({"script": script, "enable_type_checks": checks, "export_then_checks": a, "checks_then_export": b, "expected": expected,
                       "note": "CompileArgs::enable_type_checks must not touch any other compiler setting (here: export_top_level_ids)"}),
            );
        }
    }
}

fn main() {
    if std::env::args().any(|a| a == "--worker") {
        worker_main();
        return;
    }
    kvh::quiet_panics();
    let args = Args::parse();
    if let Some(i) = args.extra.iter().position(|x| x == "--dump-random") {
        let n: usize = args.extra.get(i + 1).and_then(|x| x.parse().ok()).unwrap_or(3);
        let mut rng = Rng::new(args.seed);
        for _ in 0..n {
            let p = random_program(&mut rng);
            println!("-----\n{}", render(&p).unwrap_or_else(|| "<unrenderable>".into()));
        }
        return;
    }
    let mut rep = Report::new("C16", &args);
    rep.rule = "cases: (1) bounded-exhaustive grid hint position × hint name (built-in, special, user @type, unknown; with and without `?`) × value (every kind, objects with @type/@base chains); (2) type name / callable / indexable / iterable of every grid value via the KValue API; (3) seeded random programs of the mini language; every case is run on the real runtime with enable_type_checks on and off and on the Lean model with checks true and false. distinct = distinct request lines; non-trivial = the program contains at least one type hint".into();
    let drv = Driver::spawn(&args.driver);
    let mut cx = Ctx { rep, drv, pending: vec![], k_fail: 0, d_fail: 0, unrenderable: 0, stuck: 0, erasure_checked: 0, erasure_nontrivial: 0, vm_every: if args.thorough() { 1 } else { 4 }, vm_checked: 0 };

    if let Some(p) = &args.replay {
        let v: serde_json::Value = serde_json::from_str(&std::fs::read_to_string(p).expect("replay file")).unwrap();
        let d = &v["detail"];
        let request = d["request"].as_str().expect("detail.request");
        let script = d["script"].as_str().expect("detail.script");
        replay_case(&mut cx, "replay", request, script);
        println!("script:\n{}", script);
        println!("impl on : {:?}", run_koto(script, true));
        println!("impl off: {:?}", run_koto(script, false));
        println!("vm on   : {}", run_vm(script, true));
        println!("vm off  : {}", run_vm(script, false));
        println!("model   : {}", cx.drv.ask(request));
        std::process::exit(cx.rep.finish());
    }

    let emit_corpus = args.extra.iter().position(|x| x == "--emit-corpus").and_then(|i| args.extra.get(i + 1)).cloned();
    if let Some(dir) = emit_corpus {
        // hand-picked witnesses written as corpus files (run once by the author)
        let _ = std::fs::create_dir_all(&dir);
        let picks: Vec<(&str, Prog)> = vec![
            ("base-chain-depth3", template("let", &hint("Foo", false), &chain(&[MetaTy::Absent, MetaTy::Str("Bar".into()), MetaTy::Absent, MetaTy::Str("Foo".into())], None))),
            ("optional-null-arg", template("arg", &hint("String", true), &V::Null)),
            ("match-falls-through", template("match-second-arm", &hint("String", false), &V::Str("s".into()))),
            ("catch-falls-through", template("catch-second", &hint("Foo", false), &obj_t("Bar", Some(obj_t("Foo", None))))),
            ("yield-second-fails", template("yield-second", &hint("String", false), &V::Str("s".into()))),
            ("gen-arg-lazy", template("gen-arg", &hint("Number", false), &V::Str("s".into()))),
            ("let-writes-before-assert", template("let-in-try", &hint("String", false), &V::Int(42))),
            ("base-is-number", template("let", &hint("Number", false), &obj_t("Bar", Some(V::Int(42))))),
            // a hinted wildcard target still consumes its value when checks are disabled (seeded C16-mut1)
            ("multi-assign-typed-wildcard-list", form_template("multi:list:1:wild", &hint("String", false), &V::Str("x".into()))),
            ("multi-assign-typed-named-wildcard-generator", form_template("multi:gen:0:wildn", &hint("String", false), &V::Str("x".into()))),
            // a hinted wildcard that fails in a non-last `or` alternative passes on to the next alternative (seeded C16-mut3)
            ("match-or-typed-wildcard-second-alternative", form_template("match-or:0:wild", &hint("Bool", false), &V::Str("s".into()))),
            ("match-multi-typed-wildcard-pairs", form_template("match-multi-pairs:wild", &hint("Number", false), &V::Str("s".into()))),
            ("match-nested-or", form_template("match-nested-or:wildn", &hint("Bool", false), &V::Str("s".into()))),
            ("nested-arg-wildcard", form_template("arg-nested-deep:wild", &hint("String", false), &V::Int(3))),
        ];
        for (n, p) in picks {
            let body = json!({"name": n, "request": request(&p), "script": render(&p).unwrap()});
            std::fs::write(format!("{}/{}.json", dir, n), serde_json::to_string_pretty(&body).unwrap()).unwrap();
        }
        return;
    }
    // 0. corpus (JSON files with `request` + `script`) and witnesses of listed findings
    if let Some(dir) = &args.corpus {
        if let Ok(rd) = std::fs::read_dir(dir) {
            let mut ps: Vec<_> = rd.filter_map(|e| e.ok()).map(|e| e.path()).filter(|p| p.extension().is_some_and(|e| e == "json")).collect();
            ps.sort();
            for p in ps {
                let v: serde_json::Value = match std::fs::read_to_string(&p).ok().and_then(|t| serde_json::from_str(&t).ok()) {
                    Some(v) => v,
                    None => continue,
                };
                if let (Some(r), Some(s)) = (v["request"].as_str(), v["script"].as_str()) {
                    replay_case(&mut cx, "corpus", r, s);
                }
            }
        }
    }
    for e in cx.rep.known_entries() {
        let id = e["id"].as_str().unwrap_or("?").to_string();
        let known = e["status"].as_str() == Some("known");
        if let (Some(r), Some(s)) = (e["witness_request"].as_str(), e["witness"].as_str()) {
            let before = (cx.k_fail, cx.d_fail);
            // evaluate without reporting: use a scratch context on the same driver
            let resp = cx.drv.ask(r);
            let (on, on_lines, _) = run_koto(s, true);
            let (off, off_lines, _) = run_koto(s, false);
            let failing = match parse_model(&resp) {
                Some(m) => {
                    agree(&m.on, &on) == Some(false)
                        || agree(&m.off, &off) == Some(false)
                        || m.on_trace != trace_text(&on_lines)
                        || m.off_trace != trace_text(&off_lines)
                }
                None => true,
            };
            let _ = before;
            if known && failing {
                cx.rep.known(&id, e["what"].as_str().unwrap_or(""));
            } else if !known && failing {
                cx.rep.violation("D", &format!("C16:regression:{}", id), json!({"request": r, "script": s, "note": "a finding recorded as fixed fails again"}));
            }
        }
    }

    // witnesses of listed findings that are plain scripts with an expected error line
    // (status known: still failing → KNOWN-FINDING; status fixed: a regression check — the witness must
    // run through in both modes, anything else is a VIOLATION)
    for e in cx.rep.known_entries() {
        let id = e["id"].as_str().unwrap_or("").to_string();
        let fixed = e["status"].as_str() == Some("fixed");
        let (line, what) = match id.as_str() {
            "F-C16-5" => ("expected Iterable, found Foo", "`Iterable` still rejects a map with a metamap that `for` iterates"),
            "F-C16-6" => ("", "a hinted wildcard over several match subjects sees the internal TemporaryTuple"),
            "F-C16-7" => ("expected Indexable, found Range", "`Indexable` still rejects a range although `r[0]` works"),
            "F-C16-8" => ("expected Callable, found Generator", "`Callable` still rejects a generator function although it can be called"),
            "F-C16-9" => ("", "`Iterable` / `Indexable` still accept a range without a start, which cannot be iterated or indexed"),
            _ => continue,
        };
        let Some(w) = e["witness"].as_str() else { continue };
        cx.rep.case(&format!("witness {}", id), true);
        cx.rep.bump("kind=finding-witness");
        let (on, on_lines, _) = run_koto(w, true);
        let (off, off_lines, _) = run_koto(w, false);
        // F-C16-6's witness prints which arm was taken
        let failing = if id == "F-C16-6" {
            !matches!(on, Out::Ok(_)) || trace_text(&on_lines) != "tuple" || trace_text(&off_lines) != "tuple"
        } else {
            !matches!(on, Out::Ok(_)) || on != off || on_lines != off_lines
        };
        if !failing {
            continue;
        }
        // F-C16-9: both `let` pass (the error is not a failed hint) and the loop raises
        let f9 = id == "F-C16-9" && matches!(&on, Out::Err(l) if !l.starts_with("expected I")) && on == off;
        if !fixed && (id == "F-C16-6" || f9 || (!line.is_empty() && on == Out::Err(line.into()))) {
            cx.rep.known(&id, what);
        } else {
            cx.d_fail += 1;
            cx.rep.violation(
                "D",
                &format!("C16:regression:{}", id),
                json!({"script": w, "impl_on": format!("{:?}", on), "impl_on_output": trace_text(&on_lines),
                       "impl_off": format!("{:?}", off), "impl_off_output": trace_text(&off_lines),
                       "note": format!("witness of {} ({}) fails{}", id, what, if fixed { " again although the finding is recorded as fixed" } else { " in an unexpected way" })}),
            );
        }
    }

    // 0b. cyclic @base chains (worker child)
    cyclic_base_cases(&mut cx);
    cyclic_graph_grid(&mut cx);
    shared_data_chain_grid(&mut cx);
    compile_args_independence(&mut cx);

    // 1. unit: type names and predicates
    let mut values = core_values();
    let chains = chain_values(if args.thorough() { 4 } else { 3 });
    {
        let mut all = values.clone();
        all.extend(chains.clone());
        unit_type_cases(&mut cx, &all);
    }

    // 2. the grid
    let names = all_hint_names();
    let mut n_grid = 0u64;
    for pos in POSITIONS {
        for name in &names {
            for opt in [false, true] {
                let h = hint(name, opt);
                for (vn, v) in &values {
                    let p = template(pos, &h, v);
                    cx.push(&format!("grid:{}:{}{}:{}", pos, name, if opt { "?" } else { "" }, vn), &p);
                    n_grid += 1;
                }
            }
        }
    }
    cx.flush();
    // second grid: target forms × positions, on a reduced value set
    let form_value_names = [
        "null", "bool", "int", "float", "string", "range", "list", "tuple", "map", "function", "iterator", "host",
        "obj-Foo", "obj-notype", "chain-d2-Foo@2-Bar", "obj-base-int",
    ];
    let form_values: Vec<(String, V)> = values.iter().filter(|(n, _)| form_value_names.contains(&n.as_str())).cloned().collect();
    let fpos = form_positions();
    for pos in &fpos {
        for name in &names {
            for opt in [false, true] {
                let h = hint(name, opt);
                for (vn, v) in &form_values {
                    if pos.starts_with("multi:range") && vn != "int" {
                        continue; // the values come from the range, not from the grid
                    }
                    let p = form_template(pos, &h, v);
                    cx.push(&format!("forms:{}:{}{}:{}", pos, name, if opt { "?" } else { "" }, vn), &p);
                    n_grid += 1;
                }
            }
        }
    }
    cx.flush();
    for (name, p) in hint_free_programs() {
        cx.push(&format!("nohint:{}", name), &p);
    }
    cx.flush();
    catch_chain_grid(&mut cx);
    ellipsis_grid(&mut cx);
    map_pattern_grid(&mut cx, &form_values, &names);
    multi_subject_wildcard_grid(&mut cx, &form_values, &names);
    // deeper chains on the two cheapest positions (one assert, one check) with the names that matter
    let chain_names = ["Foo", "Bar", "Baz", "Object", "Map", "Number", "String", "Any", "Indexable", "Callable"];
    for pos in ["let", "match-bind", "catch", "arg"] {
        for name in chain_names {
            for opt in [false, true] {
                if opt && pos != "let" {
                    continue;
                }
                let h = hint(name, opt);
                for (vn, v) in &chains {
                    let p = template(pos, &h, v);
                    cx.push(&format!("chains:{}:{}{}:{}", pos, name, if opt { "?" } else { "" }, vn), &p);
                    n_grid += 1;
                }
            }
        }
    }
    cx.flush();
    cx.rep.exhaustive = true;
    cx.rep.extra.insert(
        "exhaustive_space".into(),
        json!({"positions": POSITIONS, "form_positions": fpos, "form_values": form_value_names, "hint_names": names, "optional": [false, true],
               "values": values.iter().map(|(n, _)| n.clone()).collect::<Vec<_>>(),
               "extra_chain_values": chains.len(), "grid_programs": n_grid}),
    );
    values.clear();

    // 3. seeded random programs
    let mut rng = Rng::new(args.seed);
    let n_random = if args.thorough() { 60000 } else { 4000 };
    for i in 0..n_random {
        let p = random_program(&mut rng);
        cx.push(&format!("random:{}", i), &p);
    }
    cx.flush();

    let (k, d) = (cx.k_fail, cx.d_fail);
    cx.rep.extra.insert("k_disagreements".into(), json!(k));
    cx.rep.extra.insert("d_failures".into(), json!(d));
    cx.rep.extra.insert("unrenderable_programs_skipped".into(), json!(cx.unrenderable));
    cx.rep.extra.insert("model_stuck_not_compared".into(), json!(cx.stuck));
    cx.rep.extra.insert("erasure_checked_on_impl".into(), json!(cx.erasure_checked));
    cx.rep.extra.insert("erasure_checked_with_hints".into(), json!(cx.erasure_nontrivial));
    cx.rep.extra.insert("cases_also_run_on_bare_vm_for_error_kind".into(), json!(cx.vm_checked));
    cx.rep.extra.insert("driver_requests".into(), json!(cx.drv.requests));
    std::process::exit(cx.rep.finish());
}
