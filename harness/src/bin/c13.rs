//! C13 probe (temporary)
use koto::prelude::*;
use std::cell::RefCell;
use std::rc::Rc;

fn run_script(src: &str) -> (Vec<String>, Result<String, String>) {
    let trace: Rc<RefCell<Vec<String>>> = Rc::new(RefCell::new(vec![]));
    let mut koto = Koto::with_settings(KotoSettings::default());
    let t2 = trace.clone();
    koto.prelude().add_fn("emit", move |ctx| {
        let s: Vec<String> = ctx.args().iter().map(|a| kvh::canon::value(a)).collect();
        t2.borrow_mut().push(s.join(":"));
        Ok(KValue::Null)
    });
    let r = match koto.compile_and_run(src) {
        Ok(v) => Ok(kvh::canon::value(&v)),
        Err(e) => Err(e.to_string()),
    };
    let t = trace.borrow().clone();
    (t, r)
}

fn main() {
    let a: Vec<String> = std::env::args().collect();
    let src = std::fs::read_to_string(&a[1]).unwrap();
    for part in src.split("\n---\n") {
        let (t, r) = run_script(part);
        println!("=== {}\ntrace: {}\nresult: {:?}", part.trim(), t.join(" "), r);
    }
}
