//! C13 — iterator pipelines are lazy, ordered and faithful to sequence semantics.
//!
//! Every case is a pipeline (sources, adaptors, one consumer). It is rendered as a Koto script and
//! run through the real runtime in-process; sources written in Koto (generator, `@next` object) and
//! all callbacks report to a host function `emit`, so the interleaving of pulls and callback calls
//! is observable. The same pipeline goes to the Lean model driver (`Model/Iter.lean`).
//!
//! (K) result and full event trace of the implementation = result and trace of the model's state
//!     machines (`runCase`);
//! (D) result of the implementation = the consumer applied to the mathematical denotation of the
//!     pipeline (`specCase`: take = List.take, skip = drop, reversed = reverse, …), plus the
//!     trace clauses of the property evaluated directly on the implementation's trace (nothing is
//!     pulled while the pipeline is built; every source is pulled one element at a time, in order).
//! The model is the formalised reference semantics, so a (K) disagreement on a generated case is
//! reported as a property violation with the script as replay (DESIGN §3).
use koto::prelude::*;
use kvh::{Args, Driver, Report, Rng};
use serde_json::json;
use std::cell::RefCell;
use std::rc::Rc;
use unicode_segmentation::UnicodeSegmentation;

const FUEL: usize = 400;


// ------------------------------------------------------------------------------------------------
// values

#[derive(Clone, Debug, PartialEq)]
enum V {
    I(i64),
    S(String),
    T(Vec<V>),
    L(Vec<V>),
    R(i64, i64, bool),
    /// null (only as the missing partner in the last pair of `gen_pairs`)
    N,
    /// order-logging object `mk_box(v)`: a map `{v}` whose metamap defines `@+`, `@*`, `@<`
    B(Box<V>),
}

fn tuple_lit(xs: &[V]) -> String {
    match xs.len() {
        0 => "()".into(),
        1 => format!("({},)", xs[0].koto()),
        _ => format!("({})", xs.iter().map(|x| x.koto()).collect::<Vec<_>>().join(", ")),
    }
}

impl V {
    fn koto(&self) -> String {
        match self {
            V::I(i) => i.to_string(),
            V::S(s) => format!("'{}'", s),
            V::T(xs) => tuple_lit(xs),
            V::L(xs) => format!("[{}]", xs.iter().map(|x| x.koto()).collect::<Vec<_>>().join(", ")),
            V::R(a, b, incl) => format!("({}{}{})", a, if *incl { "..=" } else { ".." }, b),
            V::N => "null".into(),
            V::B(v) => format!("mk_box({})", v.koto()),
        }
    }
    fn canon(&self) -> String {
        match self {
            V::I(i) => format!("i{}", i),
            V::S(s) => format!("s{}", kvh::hex(s.as_bytes())),
            V::T(xs) => format!("(t{})", xs.iter().map(|x| format!(" {}", x.canon())).collect::<String>()),
            V::L(xs) => format!("(l{})", xs.iter().map(|x| format!(" {}", x.canon())).collect::<String>()),
            V::R(a, b, incl) => format!("(r {} {} {})", a, b, *incl as u8),
            V::N => "null".into(),
            V::B(v) => format!("(m (sx76 {}))", v.canon()),
        }
    }
}

// ------------------------------------------------------------------------------------------------
// pipelines

#[derive(Clone, Debug, PartialEq)]
enum Src {
    List(Vec<V>),
    Tuple(Vec<V>),
    Map(Vec<(String, V)>),
    Range(i64, i64, bool),
    Str(String),
    Bytes(String),
    Gen(Vec<V>),
    GenObj(Vec<V>),
    Obj(Vec<V>),
    ObjB(Vec<V>),
    Rep(V, usize),
    Once(V),
    RepInf(V),
    HostBytes(usize),
    /// a slice of a longer tuple / string (the iterators work relative to the slice bounds)
    TupleSlice(Vec<V>),
    StrSlice(String),
    /// objects with `@next` AND `@iterator` (`@next` wins on every entry path): `@iterator` returns
    /// self / a restarted object / an unrelated iterable
    ObjSelf(Vec<V>),
    ObjFresh(Vec<V>),
    ObjOther(Vec<V>),
    /// objects with only `@iterator`, returning a fresh `@next` object / a tuple
    ItObj(Vec<V>),
    ItList(Vec<V>),
    /// generator whose body uses ONE iterator through two registers: `for a in it` and `b = it.next()`
    /// in the body; yields the pairs `(a, b)` (the aliasing has to survive `koto.copy`, /repo ec30e2c)
    GenPairs(Vec<V>),
}

#[derive(Clone, Debug, PartialEq)]
enum Pipe {
    Src(Src),
    Each(&'static str, Box<Pipe>),
    Keep(&'static str, Box<Pipe>),
    Take(usize, Box<Pipe>),
    TakeWhile(&'static str, Box<Pipe>),
    Skip(usize, Box<Pipe>),
    Step(usize, Box<Pipe>),
    Chain(Box<Pipe>, Box<Pipe>),
    Zip(Box<Pipe>, Box<Pipe>),
    Enumerate(Box<Pipe>),
    Chunks(usize, Box<Pipe>),
    Windows(usize, Box<Pipe>),
    Flatten(Box<Pipe>),
    Intersperse(V, Box<Pipe>),
    IntersperseWith(Box<Pipe>),
    Cycle(Box<Pipe>),
    Reversed(Box<Pipe>),
    Peekable(Box<Pipe>),
    Keys(Box<Pipe>),
    Values(Box<Pipe>),
}

/// one adaptor application (the unary view used by the enumerations)
#[derive(Clone, Debug, PartialEq)]
enum Ad {
    Each(&'static str),
    Keep(&'static str),
    Take(usize),
    TakeWhile(&'static str),
    Skip(usize),
    Step(usize),
    Chain(Pipe),
    Zip(Pipe),
    Enumerate,
    Chunks(usize),
    Windows(usize),
    Flatten,
    Intersperse(V),
    IntersperseWith,
    Cycle,
    CycleTake(usize),
    Reversed,
    Peekable,
}

fn apply(ad: &Ad, p: Pipe) -> Pipe {
    let b = Box::new(p);
    match ad {
        Ad::Each(f) => Pipe::Each(f, b),
        Ad::Keep(q) => Pipe::Keep(q, b),
        Ad::Take(n) => Pipe::Take(*n, b),
        Ad::TakeWhile(q) => Pipe::TakeWhile(q, b),
        Ad::Skip(n) => Pipe::Skip(*n, b),
        Ad::Step(n) => Pipe::Step(*n, b),
        Ad::Chain(q) => Pipe::Chain(b, Box::new(q.clone())),
        Ad::Zip(q) => Pipe::Zip(b, Box::new(q.clone())),
        Ad::Enumerate => Pipe::Enumerate(b),
        Ad::Chunks(n) => Pipe::Chunks(*n, b),
        Ad::Windows(n) => Pipe::Windows(*n, b),
        Ad::Flatten => Pipe::Flatten(b),
        Ad::Intersperse(v) => Pipe::Intersperse(v.clone(), b),
        Ad::IntersperseWith => Pipe::IntersperseWith(b),
        Ad::Cycle => Pipe::Cycle(b),
        Ad::CycleTake(n) => Pipe::Take(*n, Box::new(Pipe::Cycle(b))),
        Ad::Reversed => Pipe::Reversed(b),
        Ad::Peekable => Pipe::Peekable(b),
    }
}

const FNS: &[&str] = &["ident", "num", "wrap", "box"];
const PREDS: &[&str] = &["tt", "ff", "even", "small", "nz3"];
const KEYFNS: &[&str] = &["mod3", "neg"];

#[derive(Clone, Debug, PartialEq)]
enum Cons {
    Simple(&'static str), // tolist totuple tomap tostring count sum product min max minmax last fold consume for unpack
    By(&'static str, &'static str), // minby/maxby/minmaxby key ; find/position/any/all pred ; consumef fn
    Calls(Vec<bool>),     // true = next, false = next_back
    Advance(usize),
    Copy(usize, bool),
    /// `.peekable()` on the pipeline, then operations n = next, b = next_back, p = peek, q = peek_back
    PeekOps(Vec<char>),
    /// the iterable value itself consumed through one entry path (`path`), after `pre` ×
    /// `iterator.next(value)`, followed by one more `iterator.next(value)`; `via_iter`: the value is
    /// first turned into an iterator with `.iter()`
    Entry { via_iter: bool, pre: usize, path: &'static str },
    /// `sum(init)` / `product(init)` with an explicit initial value
    SumInit(V),
    ProductInit(V),
    /// `pre` calls (true = next), `c = koto.copy it`, then interleaved calls (on copy?, next?)
    CopyOps(Vec<bool>, Vec<(bool, bool)>),
    /// the same on `it = pipeline.peekable()` with the Peekable operations n/b/p/q
    PeekCopy(Vec<char>, Vec<(bool, char)>),
}

fn peek_method(o: char) -> &'static str {
    match o {
        'n' => "next",
        'b' => "next_back",
        'p' => "peek",
        _ => "peek_back",
    }
}

impl Cons {
    fn sexp(&self) -> String {
        match self {
            Cons::Simple(s) => s.to_string(),
            Cons::By(c, a) => format!("({} {})", c, a),
            Cons::Calls(ds) => {
                format!("(calls{})", ds.iter().map(|d| if *d { " n" } else { " b" }).collect::<String>())
            }
            Cons::Advance(n) => format!("(advance {})", n),
            Cons::Entry { .. } => unreachable!("rendered by make_entry_case"),
            Cons::SumInit(v) => format!("(suminit {})", v.canon()),
            Cons::ProductInit(v) => format!("(productinit {})", v.canon()),
            Cons::Copy(k, f) => format!("(copy {} {})", k, *f as u8),
            Cons::PeekOps(ops) => format!("(peekops{})", ops.iter().map(|o| format!(" {}", o)).collect::<String>()),
            Cons::CopyOps(pre, post) => format!(
                "(copyops ({}) ({}))",
                pre.iter().map(|d| if *d { "n" } else { "b" }).collect::<Vec<_>>().join(" "),
                post.iter().map(|(w, d)| format!("({} {})", if *w { "c" } else { "o" }, if *d { "n" } else { "b" })).collect::<Vec<_>>().join(" ")
            ),
            Cons::PeekCopy(pre, post) => format!(
                "(peekcopy ({}) ({}))",
                pre.iter().map(|o| o.to_string()).collect::<Vec<_>>().join(" "),
                post.iter().map(|(w, o)| format!("({} {})", if *w { "c" } else { "o" }, o)).collect::<Vec<_>>().join(" ")
            ),
        }
    }
    fn uses_back(&self) -> bool {
        match self {
            Cons::Calls(ds) => ds.iter().any(|d| !*d),
            Cons::PeekOps(ops) => ops.iter().any(|o| *o == 'b' || *o == 'q'),
            Cons::CopyOps(pre, post) => pre.iter().any(|d| !*d) || post.iter().any(|(_, d)| !*d),
            Cons::PeekCopy(pre, post) => {
                pre.iter().any(|o| *o == 'b' || *o == 'q') || post.iter().any(|(_, o)| *o == 'b' || *o == 'q')
            }
            _ => false,
        }
    }
    fn is_copy(&self) -> bool {
        matches!(self, Cons::Copy(..) | Cons::CopyOps(..) | Cons::PeekCopy(..))
    }
    /// needs `it` to be a KIterator that keeps its position between statements
    fn needs_iter(&self) -> bool {
        matches!(self, Cons::Calls(_) | Cons::Advance(_) | Cons::Copy(..) | Cons::CopyOps(..))
    }
    /// statements computing the result from the variable `it` (last line = result expression)
    fn koto(&self) -> Vec<String> {
        let one = |s: String| vec![s];
        match self {
            Cons::Simple("tolist") => one("it.to_list()".into()),
            Cons::Simple("totuple") => one("it.to_tuple()".into()),
            Cons::Simple("tomap") => one("it.to_map()".into()),
            Cons::Simple("tostring") => one("it.to_string()".into()),
            Cons::Simple("minmax") => one("it.min_max()".into()),
            Cons::Simple("fold") => one("it.fold(0, fold_fn)".into()),
            Cons::Simple("foldpair") => one("it.fold((), fold_pair)".into()),
            Cons::Entry { .. } => unreachable!("rendered by make_entry_case"),
            Cons::SumInit(v) => one(format!("it.sum({})", v.koto())),
            Cons::ProductInit(v) => one(format!("it.product({})", v.koto())),
            Cons::Simple("for") => vec![
                "n = 0".into(),
                "for x in it".into(),
                "  emit 3, 43, x".into(),
                "  n += 1".into(),
                "n".into(),
            ],
            Cons::Simple("unpack") => vec!["a, b, c = it".into(), "(a, b, c)".into()],
            Cons::Simple(name) => one(format!("it.{}()", name)),
            Cons::By("minby", k) => one(format!("it.min(k_{})", k)),
            Cons::By("maxby", k) => one(format!("it.max(k_{})", k)),
            Cons::By("minmaxby", k) => one(format!("it.min_max(k_{})", k)),
            Cons::By("consumef", f) => one(format!("it.consume(f_{})", f)),
            Cons::By(c, q) => one(format!("it.{}(p_{})", c, q)),
            Cons::Calls(ds) => {
                let mut v = vec!["r = []".to_string()];
                for d in ds {
                    v.push(format!("x = it.{}()", if *d { "next" } else { "next_back" }));
                    v.push("r.push(if x then x.get() else 'END')".into());
                }
                v.push("r".into());
                v
            }
            Cons::CopyOps(pre, post) => {
                let mut v = vec!["r = []".to_string()];
                for d in pre {
                    v.push(format!("x = it.{}()", if *d { "next" } else { "next_back" }));
                    v.push("r.push(if x then x.get() else 'END')".into());
                }
                v.push("c = koto.copy it".into());
                v.push("rc = []".into());
                v.push("ro = []".into());
                for (w, d) in post {
                    v.push(format!("x = {}.{}()", if *w { "c" } else { "it" }, if *d { "next" } else { "next_back" }));
                    v.push(format!("{}.push(if x then x.get() else 'END')", if *w { "rc" } else { "ro" }));
                }
                v.push("(r, rc, ro)".into());
                v
            }
            Cons::PeekCopy(pre, post) => {
                let mut v = vec!["r = []".to_string()];
                for o in pre {
                    v.push(format!("x = it.{}()", peek_method(*o)));
                    v.push("r.push(if x then x.get() else 'END')".into());
                }
                v.push("c = koto.copy it".into());
                v.push("rc = []".into());
                v.push("ro = []".into());
                for (w, o) in post {
                    v.push(format!("x = {}.{}()", if *w { "c" } else { "it" }, peek_method(*o)));
                    v.push(format!("{}.push(if x then x.get() else 'END')", if *w { "rc" } else { "ro" }));
                }
                v.push("(r, rc, ro)".into());
                v
            }
            Cons::PeekOps(ops) => {
                let mut v = vec!["r = []".to_string()];
                for o in ops {
                    let m = peek_method(*o);
                    v.push(format!("x = it.{}()", m));
                    v.push("r.push(if x then x.get() else 'END')".into());
                }
                v.push("r".into());
                v
            }
            Cons::Advance(n) => vec![format!("rem = it.advance({})", n), "(rem, it.to_list())".into()],
            Cons::Copy(k, first) => {
                let mut v = vec![];
                for _ in 0..*k {
                    v.push("it.next()".to_string());
                }
                v.push("c = koto.copy it".into());
                if *first {
                    v.push("a = c.to_list()".into());
                    v.push("b = it.to_list()".into());
                } else {
                    v.push("b = it.to_list()".into());
                    v.push("a = c.to_list()".into());
                }
                v.push("(a, b)".into());
                v
            }
        }
    }
}

struct Rendered {
    defs: Vec<String>,
    expr: String,
    sexp: String,
}

fn canon_list(xs: &[V]) -> String {
    xs.iter().map(|x| format!(" {}", x.canon())).collect()
}

fn clusters(s: &str) -> Vec<V> {
    s.graphemes(true).map(|g| V::S(g.to_string())).collect()
}

fn render_src(s: &Src, id: usize, defs: &mut Vec<String>) -> (String, String) {
    let var = format!("s{}", id);
    let (def, sexp) = match s {
        Src::List(xs) => (V::L(xs.clone()).koto(), format!("(seq{})", canon_list(xs))),
        Src::Tuple(xs) => (tuple_lit(xs), format!("(seq{})", canon_list(xs))),
        Src::Map(es) => {
            let lit = if es.is_empty() {
                "{}".to_string()
            } else {
                format!("{{{}}}", es.iter().map(|(k, v)| format!("{}: {}", k, v.koto())).collect::<Vec<_>>().join(", "))
            };
            let pairs: Vec<V> = es.iter().map(|(k, v)| V::T(vec![V::S(k.clone()), v.clone()])).collect();
            (lit, format!("(seq{})", canon_list(&pairs)))
        }
        Src::Range(a, b, incl) => (V::R(*a, *b, *incl).koto(), format!("(range {} {} {})", a, b, *incl as u8)),
        Src::Str(t) => (format!("'{}'", t), format!("(str{})", canon_list(&clusters(t)))),
        Src::Bytes(t) => {
            let bs: Vec<V> = t.bytes().map(|b| V::I(b as i64)).collect();
            (format!("'{}'.bytes()", t), format!("(fwd{})", canon_list(&bs)))
        }
        Src::Gen(xs) => (format!("gen({}, {})", id, tuple_lit(xs)), format!("(gen {}{})", id, canon_list(xs))),
        Src::GenObj(xs) => (format!("mk_genobj({}, {})", id, tuple_lit(xs)), format!("(gen {}{})", id, canon_list(xs))),
        Src::Obj(xs) => (format!("mk_obj({}, {})", id, tuple_lit(xs)), format!("(obj {}{})", id, canon_list(xs))),
        Src::ObjB(xs) => (format!("mk_objb({}, {})", id, tuple_lit(xs)), format!("(objb {}{})", id, canon_list(xs))),
        Src::ObjSelf(xs) => (format!("mk_obj_self({}, {})", id, tuple_lit(xs)), format!("(obj {}{})", id, canon_list(xs))),
        Src::ObjFresh(xs) => (format!("mk_obj_fresh({}, {})", id, tuple_lit(xs)), format!("(obj {}{})", id, canon_list(xs))),
        Src::ObjOther(xs) => (format!("mk_obj_other({}, {})", id, tuple_lit(xs)), format!("(obj {}{})", id, canon_list(xs))),
        Src::ItObj(xs) => (format!("mk_itobj({}, {})", id, tuple_lit(xs)), format!("(obj {}{})", id, canon_list(xs))),
        Src::ItList(xs) => (format!("mk_itlist({})", tuple_lit(xs)), format!("(seq{})", canon_list(xs))),
        Src::GenPairs(xs) => {
            let pairs: Vec<V> = xs.chunks(2).map(|c| V::T(vec![c[0].clone(), c.get(1).cloned().unwrap_or(V::N)])).collect();
            (format!("gen_pairs({}, {})", id, tuple_lit(xs)), format!("(gen {}{})", id, canon_list(&pairs)))
        }
        Src::Rep(v, n) => (format!("iterator.repeat({}, {})", v.koto(), n), format!("(rep {} {})", v.canon(), n)),
        Src::Once(v) => (format!("iterator.once({})", v.koto()), format!("(rep {} 1)", v.canon())),
        Src::RepInf(v) => (format!("iterator.repeat({})", v.koto()), format!("(repinf {})", v.canon())),
        Src::TupleSlice(xs) => {
            let mut all = vec![V::I(-7)];
            all.extend(xs.iter().cloned());
            all.push(V::I(-8));
            all.push(V::I(-9));
            (format!("{}[1..{}]", tuple_lit(&all), xs.len() + 1), format!("(seq{})", canon_list(xs)))
        }
        Src::StrSlice(t) => {
            // 'é' in front: the slice starts at byte offset 2
            (format!("'é{}zz'[2..{}]", t, 2 + t.len()), format!("(str{})", canon_list(&clusters(t))))
        }
        Src::HostBytes(n) => {
            let bs: Vec<V> = (0..*n).map(|i| V::I(97 + i as i64)).collect();
            (format!("host_bytes({})", n), format!("(hostbytes{})", canon_list(&bs)))
        }
    };
    defs.push(format!("{} = {}", var, def));
    (var, sexp)
}

fn render_pipe(p: &Pipe, next_id: &mut usize, defs: &mut Vec<String>) -> (String, String) {
    let mut un = |name: &str, arg_k: String, arg_s: String, inner: &Pipe, next_id: &mut usize, defs: &mut Vec<String>| {
        let (e, s) = render_pipe(inner, next_id, defs);
        let sx = if arg_s.is_empty() { format!("({} {})", name, s) } else { format!("({} {} {})", name, arg_s, s) };
        (format!("{}{}", e, arg_k), sx)
    };
    match p {
        Pipe::Src(s) => {
            let id = *next_id;
            *next_id += 1;
            render_src(s, id, defs)
        }
        Pipe::Each(f, q) => un("each", format!(".each(f_{})", f), f.to_string(), q, next_id, defs),
        Pipe::Keep(f, q) => un("keep", format!(".keep(p_{})", f), f.to_string(), q, next_id, defs),
        Pipe::Take(n, q) => un("take", format!(".take({})", n), n.to_string(), q, next_id, defs),
        Pipe::TakeWhile(f, q) => un("takewhile", format!(".take(p_{})", f), f.to_string(), q, next_id, defs),
        Pipe::Skip(n, q) => un("skip", format!(".skip({})", n), n.to_string(), q, next_id, defs),
        Pipe::Step(n, q) => un("step", format!(".step({})", n), n.to_string(), q, next_id, defs),
        Pipe::Enumerate(q) => un("enumerate", ".enumerate()".into(), String::new(), q, next_id, defs),
        Pipe::Chunks(n, q) => un("chunks", format!(".chunks({})", n), n.to_string(), q, next_id, defs),
        Pipe::Windows(n, q) => un("windows", format!(".windows({})", n), n.to_string(), q, next_id, defs),
        Pipe::Flatten(q) => un("flatten", ".flatten()".into(), String::new(), q, next_id, defs),
        Pipe::Intersperse(v, q) => un("intersperse", format!(".intersperse({})", v.koto()), v.canon(), q, next_id, defs),
        Pipe::IntersperseWith(q) => un("interspersewith", ".intersperse(sep_fn)".into(), String::new(), q, next_id, defs),
        Pipe::Cycle(q) => un("cycle", ".cycle()".into(), String::new(), q, next_id, defs),
        Pipe::Reversed(q) => un("reversed", ".reversed()".into(), String::new(), q, next_id, defs),
        Pipe::Peekable(q) => un("peekable", ".peekable()".into(), String::new(), q, next_id, defs),
        Pipe::Keys(q) => un("pairfirst", ".keys()".into(), String::new(), q, next_id, defs),
        Pipe::Values(q) => un("pairsecond", ".values()".into(), String::new(), q, next_id, defs),
        Pipe::Chain(a, b) | Pipe::Zip(a, b) => {
            let name = if matches!(p, Pipe::Chain(..)) { "chain" } else { "zip" };
            let (ea, sa) = render_pipe(a, next_id, defs);
            let (eb, sb) = render_pipe(b, next_id, defs);
            (format!("{}.{}({})", ea, name, eb), format!("({} {} {})", name, sa, sb))
        }
    }
}

fn render(p: &Pipe) -> Rendered {
    let mut defs = vec![];
    let mut id = 0;
    let (expr, sexp) = render_pipe(p, &mut id, &mut defs);
    Rendered { defs, expr, sexp }
}

impl Pipe {
    fn depth(&self) -> usize {
        match self {
            Pipe::Src(_) => 0,
            Pipe::Chain(a, b) | Pipe::Zip(a, b) => 1 + a.depth().max(b.depth()),
            Pipe::Each(_, q) | Pipe::Keep(_, q) | Pipe::TakeWhile(_, q) => 1 + q.depth(),
            Pipe::Take(_, q) | Pipe::Skip(_, q) | Pipe::Step(_, q) | Pipe::Chunks(_, q) | Pipe::Windows(_, q) => 1 + q.depth(),
            Pipe::Intersperse(_, q) => 1 + q.depth(),
            Pipe::Enumerate(q) | Pipe::Flatten(q) | Pipe::IntersperseWith(q) | Pipe::Cycle(q) | Pipe::Reversed(q)
            | Pipe::Peekable(q) | Pipe::Keys(q) | Pipe::Values(q) => 1 + q.depth(),
        }
    }
    fn children(&self) -> Vec<&Pipe> {
        match self {
            Pipe::Src(_) => vec![],
            Pipe::Chain(a, b) | Pipe::Zip(a, b) => vec![a, b],
            Pipe::Each(_, q) | Pipe::Keep(_, q) | Pipe::TakeWhile(_, q) => vec![q],
            Pipe::Take(_, q) | Pipe::Skip(_, q) | Pipe::Step(_, q) | Pipe::Chunks(_, q) | Pipe::Windows(_, q) => vec![q],
            Pipe::Intersperse(_, q) => vec![q],
            Pipe::Enumerate(q) | Pipe::Flatten(q) | Pipe::IntersperseWith(q) | Pipe::Cycle(q) | Pipe::Reversed(q)
            | Pipe::Peekable(q) | Pipe::Keys(q) | Pipe::Values(q) => vec![q],
        }
    }
    fn any(&self, f: &dyn Fn(&Pipe) -> bool) -> bool {
        f(self) || self.children().iter().any(|c| c.any(f))
    }
    /// may produce endlessly many outputs
    fn infinite(&self) -> bool {
        match self {
            Pipe::Src(Src::RepInf(_)) => true,
            Pipe::Src(_) => false,
            Pipe::Cycle(_) => true,
            Pipe::Take(..) => false,
            Pipe::Zip(a, b) => a.infinite() && b.infinite(),
            Pipe::Chain(a, b) => a.infinite() || b.infinite(),
            other => other.children()[0].infinite(),
        }
    }
    /// every internal loop terminates and construction cannot hang: adaptors that search
    /// (`keep`, `take_while`, `flatten`, `cycle`) only sit on finite inputs
    fn safe(&self) -> bool {
        let here = match self {
            Pipe::Keep(_, q) | Pipe::TakeWhile(_, q) | Pipe::Flatten(q) | Pipe::Cycle(q) => !q.infinite(),
            Pipe::Chain(a, _) => !a.infinite(),
            _ => true,
        };
        here && self.children().iter().all(|c| c.safe())
    }
    fn has_src(&self, f: &dyn Fn(&Src) -> bool) -> bool {
        self.any(&|p| matches!(p, Pipe::Src(s) if f(s)))
    }
    fn nonempty_source(&self) -> bool {
        self.has_src(&|s| match s {
            Src::List(x)
            | Src::Tuple(x)
            | Src::Gen(x)
            | Src::GenObj(x)
            | Src::Obj(x)
            | Src::ObjB(x)
            | Src::TupleSlice(x)
            | Src::ObjSelf(x)
            | Src::ObjFresh(x)
            | Src::ObjOther(x)
            | Src::ItObj(x)
            | Src::ItList(x)
            | Src::GenPairs(x) => !x.is_empty(),
            Src::Map(x) => !x.is_empty(),
            Src::Range(a, b, incl) => a < b || (a == b && *incl),
            Src::Str(s) | Src::Bytes(s) | Src::StrSlice(s) => !s.is_empty(),
            Src::Rep(_, n) | Src::HostBytes(n) => *n > 0,
            Src::Once(_) | Src::RepInf(_) => true,
        })
    }
}

// ------------------------------------------------------------------------------------------------
// the real runtime

const PRELUDE: &str = r#"
export key = |x|
  match type x
    'Number' then x
    'String' then size x
    'Tuple' or 'List' then size x
    else 0

export f_ident = |x|
  emit 3, 10, x
  x
export f_num = |x|
  emit 3, 11, x
  key(x) * 2 + 1
export f_wrap = |x|
  emit 3, 12, x
  (x, key(x))
export f_box = |x|
  emit 3, 13, x
  [x]

export p_tt = |x|
  emit 3, 20, x
  true
export p_ff = |x|
  emit 3, 21, x
  false
export p_even = |x|
  emit 3, 22, x
  key(x) % 2 == 0
export p_small = |x|
  emit 3, 23, x
  key(x) < 12
export p_nz3 = |x|
  emit 3, 24, x
  key(x) % 3 != 0

export k_mod3 = |x|
  emit 3, 30, x
  key(x) % 3
export k_neg = |x|
  emit 3, 31, x
  0 - key(x)

export fold_fn = |acc, x|
  emit 3, 40, acc, x
  acc * 3 + key(x)

export mk_fail = |v|
  |x|
    emit 3, 10, x
    if x == v
      throw 'boom'
    x

export fold_pair = |acc, x|
  emit 3, 47, acc, x
  (acc, x)

export unbox = |x|
  if type(x) == 'Box' then x.v else x

export mk_box = |v|
  v: v
  @type: 'Box'
  @+: |other|
    o = unbox other
    emit 3, 44, self.v, o
    mk_box((self.v, o))
  @*: |other|
    o = unbox other
    emit 3, 45, self.v, o
    mk_box([self.v, o])
  @<: |other|
    o = unbox other
    emit 3, 46, self.v, o
    key(self.v) < key(o)

export sep_fn = ||
  emit 3, 41
  -1

export gen = |k, xs|
  for i, x in xs.enumerate()
    emit 0, k, i
    yield x
  emit 2, k

export gen_pairs = |k, xs|
  it = xs.iter()
  i = 0
  for a in it
    emit 0, k, i
    i += 1
    b = it.next()
    yield (a, if b then b.get() else null)
  emit 2, k

export mk_genobj = |k, xs|
  @iterator: ||
    for i, x in xs.enumerate()
      emit 0, k, i
      yield x
    emit 2, k

export mk_obj = |k, xs|
  i: 0
  @next: ||
    emit 0, k, self.i
    if self.i < size xs
      self.i += 1
      xs[self.i - 1]
    else
      null

export mk_obj_self = |k, xs|
  i: 0
  @next: ||
    emit 0, k, self.i
    if self.i < size xs
      self.i += 1
      xs[self.i - 1]
    else
      null
  @iterator: || self

export mk_obj_fresh = |k, xs|
  i: 0
  @next: ||
    emit 0, k, self.i
    if self.i < size xs
      self.i += 1
      xs[self.i - 1]
    else
      null
  # ignored because of @next; it would restart the iteration
  @iterator: || mk_obj_fresh(k, xs)

export mk_obj_other = |k, xs|
  i: 0
  @next: ||
    emit 0, k, self.i
    if self.i < size xs
      self.i += 1
      xs[self.i - 1]
    else
      null
  # ignored because of @next
  @iterator: || 'xyz'

export mk_itobj = |k, xs|
  @iterator: || mk_obj(k, xs)

export mk_itlist = |xs|
  @iterator: || xs

export mk_objb = |k, xs|
  i: 0
  j: size xs
  @next: ||
    emit 0, k, self.i
    if self.i < self.j
      self.i += 1
      xs[self.i - 1]
    else
      null
  @next_back: ||
    emit 1, k, self.j
    if self.i < self.j
      self.j -= 1
      xs[self.j]
    else
      null
"#;

struct Runtime {
    koto: Koto,
    trace: Rc<RefCell<Vec<String>>>,
    runs: usize,
}

fn event_text(args: &[KValue]) -> String {
    let code = match args.first() {
        Some(KValue::Number(n)) => i64::from(n),
        _ => -1,
    };
    let num = |v: &KValue| match v {
        KValue::Number(n) => i64::from(n).to_string(),
        other => kvh::canon::value(other),
    };
    match code {
        0 if args.len() == 3 => format!("pull,{},{}", num(&args[1]), num(&args[2])),
        1 if args.len() == 3 => format!("back,{},{}", num(&args[1]), num(&args[2])),
        2 if args.len() == 2 => format!("done,{}", num(&args[1])),
        3 if args.len() >= 2 => {
            let mut s = format!("call,{}", num(&args[1]));
            for a in &args[2..] {
                s.push(',');
                s.push_str(&kvh::canon::value(a));
            }
            s
        }
        9 => "built".to_string(),
        _ => format!("?{}", args.iter().map(kvh::canon::value).collect::<Vec<_>>().join(",")),
    }
}

impl Runtime {
    fn new() -> Runtime {
        let trace: Rc<RefCell<Vec<String>>> = Rc::new(RefCell::new(vec![]));
        let settings = KotoSettings::default().with_execution_limit(std::time::Duration::from_secs(1));
        let mut koto = Koto::with_settings(settings);
        let t2 = trace.clone();
        koto.prelude().add_fn("emit", move |ctx| {
            let s = event_text(ctx.args());
            t2.borrow_mut().push(s);
            Ok(KValue::Null)
        });
        // host API source: `KIterator::with_bytes` over the bytes 97, 98, …
        koto.prelude().add_fn("host_bytes", |ctx| match ctx.args() {
            [KValue::Number(n)] => {
                let n = i64::from(n).max(0) as u8;
                let bytes: Vec<u8> = (0..n).map(|i| 97 + i).collect();
                Ok(KIterator::with_bytes(bytes.into())?.into())
            }
            _ => Ok(KValue::Null),
        });
        koto.compile_and_run(PRELUDE).expect("prelude");
        Runtime { koto, trace, runs: 0 }
    }

    /// returns (result text, trace events)
    fn run(&mut self, script: &str) -> (String, Vec<String>) {
        self.trace.borrow_mut().clear();
        self.runs += 1;
        let r = kvh::catch(|| self.koto.compile_and_run(script));
        let res = match r {
            Ok(Ok(v)) => format!("V {}", kvh::canon::value(&v)),
            Ok(Err(e)) => classify_error(&e.to_string()),
            Err(p) => format!("PANIC {}", p),
        };
        let t = self.trace.borrow().clone();
        (res, t)
    }
}

fn classify_error(msg: &str) -> String {
    let first = msg.lines().next().unwrap_or("");
    if first == "boom" {
        return "E:thrown".into();
    }
    if first.contains("chunk size must be at least 1") {
        "E:chunks".into()
    } else if first.contains("window size must be at least 1") {
        "E:windows".into()
    } else if first.contains("expected a non-negative number") || first.contains("step size must be greater") {
        "E:step".into()
    } else if first.contains("isn't bidirectional") {
        "E:reversed".into()
    } else if first.contains("unable to perform operation") {
        "E:type".into()
    } else if first.contains("only hashable values") {
        "E:key".into()
    } else {
        format!("E:other:{}", first)
    }
}

// ------------------------------------------------------------------------------------------------
// cases

#[derive(Clone, Debug)]
struct Case {
    request: String,
    script: String,
    /// flags used for attribution / the trace clauses
    host_bytes_back: bool,
    is_copy: bool,
    nontrivial: bool,
    label: String,
    /// error cases: the innermost `each` callback throws when it sees this value; the event it logs
    /// just before (see `one`)
    fail_event: Option<String>,
}

/// is the source value an iterator that keeps its position between entries?
fn persistent_src(s: &Src) -> bool {
    matches!(
        s,
        Src::Gen(_)
            | Src::Obj(_)
            | Src::ObjB(_)
            | Src::Bytes(_)
            | Src::Rep(..)
            | Src::Once(_)
            | Src::HostBytes(_)
            | Src::ObjSelf(_)
            | Src::ObjFresh(_)
            | Src::ObjOther(_)
            | Src::GenPairs(_)
    )
}

const ENTRY_PATHS: &[(&str, usize)] = &[
    // VM instruction path (MakeIterator / IteratorNext)
    ("for", 0),
    ("forbreak", 1),
    ("unpack", 2),
    // library path (KotoVm::make_iterator)
    ("tolist", 0),
    ("iter", 0),
    ("skip0", 0),
    ("take2", 1),
];

/// The iterable value consumed through one entry path; all paths of one mode share the request.
fn make_entry_case(src: &Src, via_iter: bool, pre: usize, path: &'static str) -> Case {
    let mode = ENTRY_PATHS.iter().find(|(p, _)| *p == path).unwrap().1;
    let r = render(&Pipe::Src(src.clone()));
    let mut lines = r.defs.clone();
    if via_iter {
        lines.push("s0 = s0.iter()".into());
    }
    lines.push("emit 9".into());
    lines.push("p = []".into());
    for _ in 0..pre {
        lines.push("x = iterator.next(s0)".into());
        lines.push("p.push(if x then x.get() else 'END')".into());
    }
    lines.push("r = []".into());
    match path {
        "for" => {
            lines.push("for x in s0".into());
            lines.push("  r.push x".into());
        }
        "forbreak" => {
            lines.push("for x in s0".into());
            lines.push("  r.push x".into());
            lines.push("  if size(r) == 2".into());
            lines.push("    break".into());
        }
        "unpack" => {
            lines.push("a, b, c = s0".into());
            lines.push("r = [a, b, c]".into());
        }
        "tolist" => lines.push("r = s0.to_list()".into()),
        "iter" => lines.push("r = iterator.iter(s0).to_list()".into()),
        "skip0" => lines.push("r = s0.skip(0).to_list()".into()),
        _ => lines.push("r = s0.take(2).to_list()".into()),
    }
    lines.push("x = iterator.next(s0)".into());
    lines.push("(p, r, if x then x.get() else 'END')".into());
    let persistent = via_iter || persistent_src(src);
    Case {
        request: format!("run {} (entry {} {} {}) {}", FUEL, persistent as u8, pre, mode, r.sexp),
        script: lines.join("\n"),
        host_bytes_back: false,
        is_copy: true, // several independent iterations over one source: the per-source order clause does not apply
        nontrivial: Pipe::Src(src.clone()).nonempty_source(),
        label: format!("entry-path {}", path),
        fail_event: None,
    }
}

/// The case with a *throwing* callback: the `each(f_ident)` directly on the source is replaced by
/// `each(mk_fail(v))`, which logs like `f_ident` and then throws when its argument equals `v`. The
/// request (and so the model run) stays the non-failing pipeline.
fn make_fail_case(p: &Pipe, c: &Cons, v: i64) -> Case {
    let mut k = make_case(p, c);
    k.script = k.script.replacen(".each(f_ident)", &format!(".each(mk_fail({}))", v), 1);
    k.fail_event = Some(format!("call,10,i{}", v));
    k.label = format!("error-case {}", k.label);
    k
}

fn make_case(p: &Pipe, c: &Cons) -> Case {
    let r = render(p);
    let mut lines = r.defs.clone();
    let direct = matches!(c, Cons::Simple("for") | Cons::Simple("unpack"));
    let bare_container = matches!(
        p,
        Pipe::Src(Src::List(_) | Src::Tuple(_) | Src::Map(_) | Src::Str(_) | Src::Range(..) | Src::TupleSlice(_) | Src::StrSlice(_))
    );
    if let Cons::PeekOps(_) | Cons::PeekCopy(..) = c {
        lines.push(format!("it = {}.peekable()", r.expr));
    } else if c.needs_iter() || (bare_container && !direct) {
        // a KIterator that keeps its position / the iterator module's function rather than the
        // container's own method of the same name
        lines.push(format!("it = {}.iter()", r.expr));
    } else {
        lines.push(format!("it = {}", r.expr));
    }
    lines.push("emit 9".into());
    lines.extend(c.koto());
    let script = lines.join("\n");
    let uses_back = p.any(&|q| matches!(q, Pipe::Reversed(_))) || c.uses_back();
    Case {
        request: format!("run {} {} {}", FUEL, c.sexp(), r.sexp),
        script,
        host_bytes_back: uses_back && p.has_src(&|s| matches!(s, Src::HostBytes(_))),
        is_copy: c.is_copy(),
        nontrivial: p.depth() >= 1 && p.nonempty_source(),
        label: format!("depth={}", p.depth()),
        fail_event: None,
    }
}

/// is the case inside the envelope the model covers and that terminates?
fn admissible(p: &Pipe, c: &Cons) -> bool {
    if !p.safe() {
        return false;
    }
    let bounded_consumer = matches!(
        c,
        Cons::Calls(_) | Cons::Simple("unpack") | Cons::PeekOps(_) | Cons::CopyOps(..) | Cons::PeekCopy(..)
    );
    if p.infinite() && !bounded_consumer {
        return false;
    }
    if c.uses_back() && !matches!(c, Cons::PeekOps(_) | Cons::PeekCopy(..)) && back_reaches_obj(p) {
        // `next_back` on a forward-only `@next` object raises an error (MetaIterator::next_back runs
        // the `@next_back` operator unconditionally) where every other forward-only iterator returns
        // null; the property does not speak about it and the model has no failing pulls. A Peekable
        // never passes `next_back` on to a forward-only iterator.
        return false;
    }
    // copies: every shape is generated (F-C13-2 Peekable copies and F-C13-3 copies over @next objects are
    // repaired in /repo and covered like everything else)
    true
}

/// would a `next_back` call on the pipeline arrive at `MetaIterator::next_back` of a forward-only
/// `@next` object? (`Each` and `Skip` pass it on unconditionally; everything else answers itself)
fn back_reaches_obj(p: &Pipe) -> bool {
    match p {
        Pipe::Src(Src::Obj(_) | Src::ObjSelf(_) | Src::ObjFresh(_) | Src::ObjOther(_) | Src::ItObj(_)) => true,
        Pipe::Each(_, q) | Pipe::Skip(_, q) => back_reaches_obj(q),
        _ => false,
    }
}

/// `is_bidirectional()` of the iterator the pipeline builds (mirrors `Pipe.bidir` of the model)
fn bidir_pipe(p: &Pipe) -> bool {
    match p {
        Pipe::Src(s) => matches!(
            s,
            Src::List(_)
                | Src::Tuple(_)
                | Src::Map(_)
                | Src::Range(..)
                | Src::Str(_)
                | Src::ObjB(_)
                | Src::HostBytes(_)
                | Src::TupleSlice(_)
                | Src::StrSlice(_)
        ),
        Pipe::Each(_, q) | Pipe::Skip(_, q) | Pipe::Peekable(q) => bidir_pipe(q),
        Pipe::Reversed(_) => true,
        _ => false,
    }
}

fn elems(flavour: usize, n: usize, base: i64) -> Vec<V> {
    (0..n)
        .map(|i| match flavour {
            0 => V::I(base + i as i64),
            1 => V::S(["a", "bb", "c", "dddd", "ee", "f"][i % 6].to_string()),
            4 => V::L(vec![V::I(base + i as i64), V::I(i as i64)]),
            5 => V::T(vec![V::I(base + i as i64)]),
            6 => V::B(Box::new(V::I(base + (i as i64 * 7) % 3))), // boxes with repeated keys (ties)
            2 => match i % 5 {
                0 => V::T(vec![V::I(base + i as i64), V::I(base + 50 + i as i64)]),
                1 => V::L(vec![V::I(base + i as i64)]),
                2 => V::S("xy".into()),
                3 => V::R(1, 3, i % 2 == 1),
                _ => V::T(vec![]),
            },
            _ => match i % 4 {
                0 => V::I(base + i as i64),
                1 => V::S("bb".into()),
                2 => V::T(vec![V::I(7), V::S("k".into())]),
                _ => V::I(base - i as i64),
            },
        })
        .collect()
}

const SRC_KINDS: usize = 22;

/// Start values of range sources (selected by the flavour index): small, negative, straddling the
/// i32 limits (KRange stores bounds that fit in i32 compactly and everything else in the 64-bit
/// `BoundedLarge` representation; each has its own pop_front / pop_back code), far outside i32, and
/// close to the i64 limits (staying clear of `end + 1` overflow in `as_bounded_range`, which is C06's
/// finding F-C06-5).
const RANGE_BASES: &[i64] = &[
    -1,
    10,
    2147483645,           // i32::MAX - 2: short ranges cross the i32 limit (64-bit representation)
    -2147483650,          // below i32::MIN, crossing it upwards
    2147483648,           // i32::MAX + 1
    1099511627776,        // 2^40
    -1099511627778,       // -(2^40) - 2
    9223372036854775790,  // i64::MAX - 17
    -9223372036854775807, // i64::MIN + 1
    2147483640,           // stays inside i32 (compact representation, large values)
];

/// source of kind `kind` with `n` elements
fn source(kind: usize, n: usize, flavour: usize, base: i64) -> Src {
    let xs = elems(flavour, n, base);
    match kind {
        0 => Src::List(xs),
        1 => Src::Tuple(xs),
        2 => Src::Gen(xs),
        3 => Src::ObjB(xs),
        4 => Src::Obj(xs),
        5 => {
            let b = RANGE_BASES[flavour % RANGE_BASES.len()];
            Src::Range(b, b + n as i64, false)
        }
        6 => {
            let b = RANGE_BASES[flavour % RANGE_BASES.len()];
            if n == 0 {
                Src::Range(b + 2, b, true) // descending: empty
            } else {
                Src::Range(b, b + n as i64 - 1, true)
            }
        }
        7 => Src::Str("abédxy".chars().take(n).collect()),
        8 => Src::Map((0..n).map(|i| (((b'a' + (i % 26) as u8) as char).to_string(), xs[i].clone())).collect()),
        9 => Src::GenObj(xs),
        10 => Src::Bytes("pqrstu".chars().take(n).collect()),
        11 => Src::Rep(V::I(base), n),
        12 => Src::HostBytes(n),
        14 => Src::TupleSlice(xs),
        15 => Src::StrSlice("abédxy".chars().take(n).collect()),
        16 => Src::ObjSelf(xs),
        17 => Src::ObjFresh(xs),
        18 => Src::ObjOther(xs),
        19 => Src::ItObj(xs),
        20 => Src::ItList(xs),
        21 => Src::GenPairs(xs),
        _ => {
            if n == 1 {
                Src::Once(V::I(base))
            } else {
                Src::Range(base + n as i64, base, false) // descending: empty
            }
        }
    }
}

fn adaptor_table() -> Vec<Ad> {
    let mut v = vec![];
    for f in FNS {
        v.push(Ad::Each(f));
    }
    for q in PREDS {
        v.push(Ad::Keep(q));
        v.push(Ad::TakeWhile(q));
    }
    for n in 0..=4 {
        v.push(Ad::Take(n));
        v.push(Ad::Skip(n));
        v.push(Ad::Step(n));
        v.push(Ad::Chunks(n));
        v.push(Ad::Windows(n));
    }
    v.push(Ad::Enumerate);
    v.push(Ad::Flatten);
    v.push(Ad::Intersperse(V::I(0)));
    v.push(Ad::IntersperseWith);
    v.push(Ad::Reversed);
    v.push(Ad::Peekable);
    for n in [0, 3, 5] {
        v.push(Ad::CycleTake(n));
    }
    v.push(Ad::Cycle); // endless: only under bounded consumers (call sequences, copies, unpack)
    let seconds = [
        Pipe::Src(Src::Tuple(vec![V::I(20), V::I(21)])),
        Pipe::Src(Src::Gen(vec![V::I(30), V::I(31), V::I(32)])),
        Pipe::Src(Src::List(vec![])),
    ];
    for s in &seconds {
        v.push(Ad::Chain(s.clone()));
        v.push(Ad::Zip(s.clone()));
    }
    v
}

fn consumer_table() -> Vec<Cons> {
    let mut v: Vec<Cons> = [
        "tolist", "totuple", "tomap", "tostring", "count", "sum", "product", "min", "max", "minmax", "last", "fold",
        "consume", "for", "unpack",
    ]
    .iter()
    .map(|s| Cons::Simple(s))
    .collect();
    // operators with the exact operand order: explicit initial values, non-commutative element types
    v.push(Cons::Simple("foldpair"));
    let bx0 = V::B(Box::new(V::I(0)));
    for init in [V::S(String::new()), V::S(">".into()), V::L(vec![]), V::L(vec![V::I(9)]), V::T(vec![]), V::T(vec![V::I(9)]), V::I(5), bx0.clone()] {
        v.push(Cons::SumInit(init));
    }
    for init in [V::I(2), V::B(Box::new(V::I(1))), V::S("x".into())] {
        v.push(Cons::ProductInit(init));
    }
    for k in KEYFNS {
        v.push(Cons::By("minby", k));
        v.push(Cons::By("maxby", k));
        v.push(Cons::By("minmaxby", k));
    }
    for q in PREDS {
        v.push(Cons::By("find", q));
        v.push(Cons::By("position", q));
        v.push(Cons::By("any", q));
        v.push(Cons::By("all", q));
    }
    v.push(Cons::By("consumef", "num"));
    v.push(Cons::Calls(vec![true; 5]));
    v.push(Cons::Calls(vec![false; 5]));
    v.push(Cons::Calls(vec![true, false, true, false, true, false]));
    v.push(Cons::Calls(vec![false, true, true, false, false, true]));
    for n in [0, 2, 4] {
        v.push(Cons::Advance(n));
    }
    for k in [0, 1, 3] {
        v.push(Cons::Copy(k, true));
        v.push(Cons::Copy(k, false));
    }
    for ops in ["ppnpn", "pnnnnp", "pqnbpq", "qpbnnb", "qqbpnn", "npqbnbq", "bqpnpq"] {
        v.push(Cons::PeekOps(ops.chars().collect()));
    }
    // back end after partial forward consumption and vice versa
    for k in 1..=4 {
        v.push(Cons::Calls(dirs(&format!("{}{}", "n".repeat(k), "b".repeat(5)))));
        v.push(Cons::Calls(dirs(&format!("{}{}", "b".repeat(k), "n".repeat(5)))));
    }
    for k in 0..=3 {
        v.push(Cons::CopyOps(vec![true; k], copy_post(false)));
        v.push(Cons::CopyOps(dirs(&format!("{}b", "n".repeat(k))), copy_post(true)));
    }
    for pre in ["", "p", "q", "pq", "pn", "ppn", "pqn", "pqb", "npq", "pqnb"] {
        let back = pre.contains('q') || pre.contains('b');
        v.push(Cons::PeekCopy(pre.chars().collect(), peek_copy_post(back)));
    }
    v.push(Cons::PeekCopy("pq".chars().collect(), peek_copy_post(false)));
    v
}

fn dirs(s: &str) -> Vec<bool> {
    s.chars().map(|c| c == 'n').collect()
}

/// interleaved calls on copy (true) and original (false) after the copy was taken
fn copy_post(with_back: bool) -> Vec<(bool, bool)> {
    if with_back {
        vec![(true, false), (false, true), (true, true), (false, false), (false, false), (true, false), (true, true), (false, true), (true, true), (false, true)]
    } else {
        vec![(true, true), (false, true), (false, true), (true, true), (true, true), (false, true), (true, true), (false, true), (false, true), (true, true)]
    }
}

fn peek_copy_post(with_back: bool) -> Vec<(bool, char)> {
    if with_back {
        vec![(true, 'n'), (false, 'p'), (false, 'n'), (true, 'q'), (true, 'b'), (false, 'q'), (false, 'b'), (true, 'p'), (true, 'n'), (false, 'n')]
    } else {
        vec![(true, 'p'), (false, 'n'), (false, 'p'), (true, 'n'), (true, 'n'), (false, 'n'), (true, 'p'), (false, 'p'), (true, 'n'), (false, 'n')]
    }
}

fn random_pipe(rng: &mut Rng, depth: usize, max_len: usize, ads: &[Ad]) -> Pipe {
    let n = if rng.chance(1, 8) { max_len + 1 + rng.below(3) } else { rng.below(max_len + 1) };
    let kind = rng.below(SRC_KINDS);
    let flavour = if matches!(kind, 5 | 6) { rng.below(RANGE_BASES.len()) } else { rng.weighted(&[6, 2, 2, 2, 1, 1, 2]) };
    let mut p = Pipe::Src(source(kind, n, flavour, 10));
    if let Pipe::Src(Src::Map(_)) = &p {
        match rng.below(4) {
            0 => p = Pipe::Keys(Box::new(p)),
            1 => p = Pipe::Values(Box::new(p)),
            _ => {}
        }
    }
    for _ in 0..depth {
        let ad = match rng.below(12) {
            0 => {
                let d2 = rng.below(2);
                let q = random_pipe(rng, d2, max_len, ads);
                if rng.chance(1, 2) { Ad::Chain(q) } else { Ad::Zip(q) }
            }
            1 => Ad::Cycle,
            _ => rng.pick(ads).clone(),
        };
        p = apply(&ad, p);
    }
    p
}

// ------------------------------------------------------------------------------------------------
// checking

/// the trace clauses of the property, evaluated on the implementation's events only
fn trace_spec(events: &[String], is_copy: bool) -> Option<String> {
    // 1. nothing is pulled (and no callback runs) while the pipeline is being built
    if let Some(pos) = events.iter().position(|e| e == "built") {
        if let Some(e) = events[..pos].iter().find(|e| !e.starts_with('?')) {
            return Some(format!("event {:?} before the pipeline was consumed", e));
        }
    }
    if is_copy {
        return None;
    }
    // 2. per source: front pulls ask for 0, 1, 2, … one at a time (an exhausted `@next` object may be
    //    asked again for the same index); back pulls count down one at a time
    let mut front: std::collections::BTreeMap<String, i64> = Default::default();
    let mut back: std::collections::BTreeMap<String, i64> = Default::default();
    for e in events {
        let f: Vec<&str> = e.split(',').collect();
        if f.len() == 3 && f[0] == "pull" {
            let i: i64 = f[2].parse().unwrap_or(-1);
            let prev = front.get(f[1]).copied();
            let ok = match prev {
                None => i == 0,
                Some(p) => i == p + 1 || i == p,
            };
            if !ok {
                return Some(format!("source {} pulled element {} after {:?}", f[1], i, prev));
            }
            front.insert(f[1].to_string(), i);
        } else if f.len() == 3 && f[0] == "back" {
            let j: i64 = f[2].parse().unwrap_or(-1);
            let prev = back.get(f[1]).copied();
            let ok = match prev {
                None => true,
                Some(p) => j == p - 1 || j == p,
            };
            if !ok {
                return Some(format!("source {} pulled element {} from the back after {:?}", f[1], j, prev));
            }
            back.insert(f[1].to_string(), j);
        }
    }
    None
}

struct Ctx {
    rep: Report,
    drv: Driver,
    rt: Runtime,
    open: Vec<String>,
    pending: Vec<Case>,
    known_counts: std::collections::BTreeMap<String, u64>,
    k_fail: u64,
    d_fail: u64,
    spec_checked: u64,
    sample_tick: u64,
    skipped_after_failures: u64,
}

impl Ctx {
    fn push(&mut self, c: Case) {
        if self.d_fail > 300 {
            // the property is already refuted many times over; do not spend the budget on more
            self.skipped_after_failures += 1;
            return;
        }
        self.pending.push(c);
        if self.pending.len() >= 4000 {
            self.flush();
        }
    }

    fn flush(&mut self) {
        let cases = std::mem::take(&mut self.pending);
        if cases.is_empty() {
            return;
        }
        let reqs: Vec<String> = cases.iter().map(|c| c.request.clone()).collect();
        let resps = self.drv.batch(&reqs);
        for (c, r) in cases.iter().zip(resps.iter()) {
            self.one(c, r);
        }
    }

    fn one(&mut self, c: &Case, model_resp: &str) {
        if self.rt.runs >= 1500 {
            self.rt = Runtime::new();
        }
        self.rep.case(&c.request, c.nontrivial);
        self.rep.bump(&c.label);
        let parts: Vec<&str> = model_resp.split(" | ").collect();
        if parts.len() != 3 {
            self.k_fail += 1;
            if self.k_fail <= 5 {
                self.rep.violation(
                    "K",
                    "K:C13:driver",
                    json!({"request": c.request, "script": c.script, "model_response": model_resp,
                           "note": "the model driver did not understand the request"}),
                );
            }
            return;
        }
        let (m_res, m_trace, spec) = (parts[0].trim(), parts[1].trim(), parts[2].trim());
        if m_res == "E:unsupported" || m_res == "E:fuel" {
            self.rep.bump("outside_model_envelope");
            return;
        }
        let (i_res, i_events) = self.rt.run(&c.script);
        let i_trace: Vec<&str> = i_events.iter().filter(|e| *e != "built").map(|e| e.as_str()).collect();
        let i_trace = i_trace.join(";");
        self.rep.bump(&format!("result={}", if i_res.starts_with("V ") { "value" } else { i_res.split(':').take(2).collect::<Vec<_>>().join(":").leak() }));
        self.rep.bump(&format!("trace_events={}", match i_events.len() { 0..=1 => "0", 2..=5 => "1-4", 6..=17 => "5-16", _ => "17+" }));
        self.sample_tick += 1;
        if c.nontrivial && self.sample_tick % 1777 == 3 {
            self.rep.sample(json!({"request": c.request, "script": c.script, "impl": {"result": i_res, "trace": i_trace},
                                   "model": {"result": m_res, "trace": m_trace}, "spec": spec}));
        }
        if let Some(fe) = &c.fail_event {
            // A callback throws at one element. Every library consumer stops at the first error, so
            // the property speaks about the run up to that point. If the failing call happened:
            //  * the events up to and including it must be those of the non-failing run (= the
            //    model's run of the same pipeline): faithful and lazy up to the error;
            //  * the result must be the thrown error — the error is not swallowed —, or the whole run
            //    equals the non-failing one (the failing element was only pulled as lookahead, e.g. by
            //    intersperse or step, and the consumer finished without ever consuming it).
            // If the failing element was never reached the run must equal the non-failing one.
            // What is pulled or yielded *after* the error (lookahead of step, a script that catches
            // the error and keeps pulling) is not defined by the guide and not checked (requests/C13.md).
            let impl_ev: Vec<&str> = i_trace.split(';').filter(|e| !e.is_empty()).collect();
            let model_ev: Vec<&str> = m_trace.split(';').filter(|e| !e.is_empty()).collect();
            let same_as_nonfailing = i_res == m_res && i_trace == m_trace;
            let problem = if let Some(idx) = impl_ev.iter().position(|e| e == fe) {
                self.rep.bump("error_cases_reached");
                if idx >= model_ev.len() || impl_ev[..=idx] != model_ev[..=idx] {
                    Some("the events up to the failing call are not those of the non-failing run".to_string())
                } else if i_res == "E:thrown" {
                    self.rep.bump("error_cases_thrown");
                    None
                } else if same_as_nonfailing {
                    // legitimate only when the failing output is still waiting in a lookahead slot:
                    // then nothing more was pulled through the failing callback afterwards
                    if impl_ev[idx + 1..].iter().any(|e| e.starts_with("call,10,")) {
                        Some(format!("the callback threw at {} and the pipeline kept pulling past it, but no error was reported (error swallowed)", fe))
                    } else {
                        self.rep.bump("error_cases_error_never_consumed");
                        None
                    }
                } else {
                    Some(format!("the callback threw at {} but the result is {} (neither the error nor the non-failing result)", fe, i_res))
                }
            } else {
                self.rep.bump("error_cases_not_reached");
                if !same_as_nonfailing {
                    Some("the failing element was never pulled, yet the run differs from the non-failing one".to_string())
                } else {
                    None
                }
            };
            if let Some(pr) = problem {
                self.d_fail += 1;
                if std::env::var("C13_DEBUG").is_ok() {
                    eprintln!("FAIL(error-case) {}\n  impl  {} | {}\n  model {} | {}\n  {}", c.request, i_res, i_trace, m_res, m_trace, pr);
                }
                if self.d_fail <= 8 {
                    self.rep.violation(
                        "D",
                        "C13:error-prefix",
                        json!({"request": c.request, "script": c.script, "fail_event": fe,
                               "impl": {"result": i_res, "trace": i_trace},
                               "model_nonfailing": {"result": m_res, "trace": m_trace}, "direct_check": pr}),
                    );
                }
            }
            return;
        }
        // (K)
        let k_ok = i_res == m_res && i_trace == m_trace;
        // (D) result against the mathematical definition, trace clauses on the implementation's trace
        let mut d_problem: Option<String> = None;
        if spec != "-" && spec != "E:unsupported" && spec != "E:fuel" {
            self.spec_checked += 1;
            if i_res != spec {
                d_problem = Some(format!("result {} but the sequence definition gives {}", i_res, spec));
            }
        }
        if d_problem.is_none() {
            d_problem = trace_spec(&i_events, c.is_copy);
        }
        if k_ok && d_problem.is_none() {
            return;
        }
        // no listed finding is open: every deviation is a violation
        if !k_ok {
            self.k_fail += 1;
        }
        self.d_fail += 1;
        if std::env::var("C13_DEBUG").is_ok() {
            eprintln!("FAIL {}\n  impl  {} | {}\n  model {} | {}\n  spec  {} | {:?}", c.request, i_res, i_trace, m_res, m_trace, spec, d_problem);
        }
        if self.d_fail <= 8 {
            // re-run on a fresh runtime instance: excludes state carried over from earlier scripts
            let mut fresh = Runtime::new();
            let (f_res, f_events) = fresh.run(&c.script);
            let name = if !k_ok { "C13:model-vs-implementation" } else { "C13:sequence-definition" };
            self.rep.violation(
                "D",
                name,
                json!({"request": c.request, "script": c.script,
                       "impl": {"result": i_res, "trace": i_trace},
                       "impl_fresh_runtime": {"result": f_res, "trace": f_events.join(";")},
                       "model": {"result": m_res, "trace": m_trace},
                       "spec_result": spec, "direct_check": d_problem,
                       "note": "replay: run `script` (prelude in harness/src/bin/c13.rs) and send `request` to kv_c13"}),
            );
        }
    }
}

fn replay_witnesses(cx: &mut Ctx) {
    for e in cx.rep.known_entries() {
        let id = e.get("id").and_then(|x| x.as_str()).unwrap_or("").to_string();
        let status_known = e.get("status").and_then(|x| x.as_str()) == Some("known");
        let (Some(w), Some(exp)) = (e.get("witness").and_then(|x| x.as_str()), e.get("expected_canon").and_then(|x| x.as_str())) else {
            continue;
        };
        let mut rt = Runtime::new();
        let (res, _) = rt.run(w);
        let failing = res != exp;
        if status_known && failing {
            let n = cx.known_counts.get(&id).copied().unwrap_or(0);
            cx.rep.known(&id, &format!("witness still fails: got {} expected {} ({} generated cases attributed)", res, exp, n));
        } else if status_known && !failing {
            cx.rep.note(format!("{}: the recorded witness now passes (entry can become status=fixed)", id));
        } else if !status_known && failing {
            cx.d_fail += 1;
            cx.rep.violation(
                "D",
                &format!("C13:regression:{}", id),
                json!({"script": w, "impl": res, "expected": exp, "note": "a finding recorded as fixed fails again"}),
            );
        }
    }
}

fn main() {
    kvh::quiet_panics();
    let args = Args::parse();
    let mut rep = Report::new("C13", &args);
    rep.rule = "case = (pipeline, consumer); pipelines: every adaptor instance (all callbacks, numeric parameters 0..4) at depth 1 and every ordered pair at depth 2 over every source kind and every source length 0..L (L=3 quick, 5 thorough), every consumer on every source kind/length/element flavour, plus seeded random pipelines of depth 1..4; entry-path cases (each source value consumed through the VM path and the library path, partly consumed before); distinct = distinct request lines; non-trivial = at least one adaptor (or an entry-path / consumer-only case) and a non-empty source".into();
    let open: Vec<String> =
        rep.known_open().iter().filter_map(|e| e.get("id").and_then(|x| x.as_str()).map(|s| s.to_string())).collect();
    let drv = Driver::spawn(&args.driver);
    let mut cx = Ctx {
        rep,
        drv,
        rt: Runtime::new(),
        open,
        pending: vec![],
        known_counts: Default::default(),
        k_fail: 0,
        d_fail: 0,
        spec_checked: 0,
        sample_tick: 0,
        skipped_after_failures: 0,
    };

    // --replay: re-run the recorded case
    if let Some(p) = &args.replay {
        let v: serde_json::Value = serde_json::from_str(&std::fs::read_to_string(p).expect("replay file")).unwrap();
        let d = &v["detail"];
        let case = Case {
            request: d["request"].as_str().unwrap_or("").to_string(),
            script: d["script"].as_str().expect("script").to_string(),
            host_bytes_back: false,
            is_copy: ["(copy ", "(copyops ", "(peekcopy ", "(entry "].iter().any(|m| d["request"].as_str().unwrap_or("").contains(m)),
            nontrivial: true,
            label: "replay".into(),
            fail_event: d["fail_event"].as_str().map(|s| s.to_string()),
        };
        let mut rt = Runtime::new();
        let (r, t) = rt.run(&case.script);
        println!("script:\n{}\nimpl  : {} | {}", case.script, r, t.join(";"));
        if !case.request.is_empty() {
            println!("model : {}", cx.drv.ask(&case.request));
            cx.push(case);
            cx.flush();
        } else if let Some(exp) = d["expected"].as_str() {
            if r != exp {
                cx.rep.violation("D", "C13:replay", json!({"script": case.script, "impl": r, "expected": exp}));
            }
        }
        std::process::exit(cx.rep.finish());
    }

    // --emit-corpus: print the hand-picked regression cases (corpus/C13/handpicked.json is this output)
    if args.has_flag("--emit-corpus") {
        let ints = |n: usize| elems(0, n, 10);
        let g = |n: usize| Pipe::Src(Src::Gen(ints(n)));
        let ob = |n: usize| Pipe::Src(Src::ObjB(ints(n)));
        let bx = |p: Pipe| Box::new(p);
        let picks: Vec<(Pipe, Cons)> = vec![
            // Take must not pull once `remaining` is 0
            (Pipe::Take(2, bx(g(4))), Cons::Calls(vec![true; 4])),
            (Pipe::Take(0, bx(g(2))), Cons::Simple("tolist")),
            // Skip::next_back performs the pending forward skip first
            (Pipe::Reversed(bx(Pipe::Skip(2, bx(ob(4))))), Cons::Simple("tolist")),
            (Pipe::Skip(3, bx(ob(4))), Cons::Calls(vec![false, true, false])),
            // Windows: pop_front + refill
            (Pipe::Windows(2, bx(Pipe::Chain(bx(g(2)), bx(Pipe::Src(Src::Tuple(ints(2))))))), Cons::Simple("tolist")),
            (Pipe::Windows(3, bx(g(2))), Cons::Calls(vec![true; 3])),
            // Zip asks a first, b only if a produced a value; unequal lengths
            (Pipe::Zip(bx(g(1)), bx(Pipe::Src(Src::Obj(ints(3))))), Cons::Simple("tolist")),
            (Pipe::Zip(bx(g(3)), bx(Pipe::Src(Src::Obj(ints(1))))), Cons::Calls(vec![true; 4])),
            // take inside cycle, cycle under take, exhausted input asked again on every call
            (Pipe::Take(5, bx(Pipe::Cycle(bx(Pipe::Take(2, bx(Pipe::Src(Src::Obj(ints(3))))))))), Cons::Simple("tolist")),
            // step looks ahead, chunks stop at the first None, intersperse peeks one element
            (Pipe::Step(2, bx(Pipe::Src(Src::Obj(ints(3))))), Cons::Calls(vec![true; 3])),
            (Pipe::Chunks(2, bx(g(3))), Cons::Simple("tolist")),
            (Pipe::IntersperseWith(bx(g(3))), Cons::Simple("tolist")),
            // chain drops a after its first None
            (Pipe::Chain(bx(Pipe::Src(Src::Obj(ints(1)))), bx(g(2))), Cons::Simple("tolist")),
            // double-ended interleaving over a range, reversed twice
            (Pipe::Reversed(bx(Pipe::Reversed(bx(Pipe::Src(Src::Range(-1, 2, true)))))), Cons::Calls(vec![true, false, false, true, true])),
            // consumers: tie-breaks, early exit, copies
            (Pipe::Src(Src::Tuple(vec![V::S("a".into()), V::S("bb".into()), V::S("c".into())])), Cons::By("minby", "mod3")),
            (Pipe::Src(Src::Tuple(vec![V::S("a".into()), V::S("bb".into()), V::S("c".into())])), Cons::By("maxby", "mod3")),
            (Pipe::Each("num", bx(g(4))), Cons::By("find", "even")),
            (Pipe::Enumerate(bx(Pipe::Keep("even", bx(g(4))))), Cons::Copy(1, true)),
            (Pipe::Flatten(bx(Pipe::Src(Src::List(elems(2, 4, 10))))), Cons::Simple("tolist")),
            // Peekable: peeked elements stay part of the sequence, also when reached from the other end
            (Pipe::Skip(1, bx(ob(3))), Cons::PeekOps("pqnbpq".chars().collect())),
            (Pipe::Src(Src::Tuple(ints(1))), Cons::PeekOps("pqbnp".chars().collect())),
            (g(3), Cons::PeekOps("ppnpnnp".chars().collect())),
            // back-end operations on a Peekable over forward-only pipelines (F-C13-4, fixed)
            (g(3), Cons::PeekOps("pqnbnnn".chars().collect())),
            (Pipe::Keep("tt", bx(Pipe::Src(Src::Obj(ints(2))))), Cons::PeekOps("pqbnpnn".chars().collect())),
            (Pipe::Take(2, bx(g(3))), Cons::PeekCopy("pq".chars().collect(), peek_copy_post(true))),
            // operand order of sum / product / min / max (seeded C13-mut6): the accumulator is the left operand
            (Pipe::Src(Src::Tuple(elems(1, 3, 10))), Cons::SumInit(V::S(">".into()))),
            (Pipe::Src(Src::Tuple(elems(4, 3, 10))), Cons::SumInit(V::L(vec![]))),
            (Pipe::Src(Src::Tuple(elems(5, 3, 10))), Cons::SumInit(V::T(vec![V::I(9)]))),
            (g(3), Cons::SumInit(V::B(Box::new(V::I(0))))),
            (g(2), Cons::ProductInit(V::B(Box::new(V::I(1))))),
            (Pipe::Src(Src::List(elems(6, 4, 10))), Cons::Simple("minmax")),
            (Pipe::Src(Src::List(elems(6, 4, 10))), Cons::Simple("max")),
            (g(3), Cons::Simple("foldpair")),
            // host bytes from the back (F-C13-1, fixed) and a copied peekable (F-C13-2, fixed)
            (Pipe::Reversed(bx(Pipe::Src(Src::HostBytes(3)))), Cons::Simple("tolist")),
            (Pipe::Peekable(bx(g(3))), Cons::Copy(1, true)),
            // 64-bit range representation from the back (seeded C13-mut1), mixed ends
            (Pipe::Src(Src::Range(1099511627776, 1099511627778, true)), Cons::Calls(dirs("nbbnn"))),
            (Pipe::Reversed(bx(Pipe::Src(Src::Range(2147483645, 2147483649, true)))), Cons::Simple("tolist")),
            // copy of a cycle taken in the middle of its second repetition (seeded C13-mut2)
            (Pipe::Cycle(bx(Pipe::Src(Src::Tuple(ints(3))))), Cons::CopyOps(vec![true; 5], copy_post(false))),
            (Pipe::Cycle(bx(g(4))), Cons::CopyOps(vec![true; 7], copy_post(false))),
            // copy of a generator that uses one iterator through two registers (F-C13-6, fixed)
            (Pipe::Src(Src::GenPairs(ints(6))), Cons::CopyOps(vec![true; 1], copy_post(false))),
            (Pipe::Windows(2, bx(Pipe::Src(Src::GenPairs(ints(7))))), Cons::CopyOps(vec![true; 2], copy_post(false))),
            // copies of other adaptor states: filled window cache, pending separator, cached peeks
            (Pipe::Windows(2, bx(g(4))), Cons::CopyOps(vec![true; 2], copy_post(false))),
            (Pipe::Intersperse(V::I(0), bx(g(3))), Cons::CopyOps(vec![true; 2], copy_post(false))),
            (Pipe::Src(Src::Tuple(ints(4))), Cons::PeekCopy("pqn".chars().collect(), peek_copy_post(true))),
        ];
        let mut arr: Vec<serde_json::Value> = picks
            .iter()
            .map(|(p, c)| {
                let k = make_case(p, c);
                json!({"request": k.request, "script": k.script, "host_bytes_back": k.host_bytes_back})
            })
            .collect();
        // entry paths over objects with both @next and @iterator (seeded C13-mut11): @next wins everywhere
        for (src, pre, path) in [
            (Src::ObjFresh(ints(5)), 2usize, "for"),
            (Src::ObjFresh(ints(5)), 2, "tolist"),
            (Src::ObjOther(ints(3)), 0, "for"),
            (Src::ObjOther(ints(3)), 1, "unpack"),
            (Src::ObjSelf(ints(4)), 1, "forbreak"),
            (Src::ItObj(ints(3)), 1, "for"),
            (Src::ItList(ints(3)), 2, "unpack"),
            (Src::Gen(ints(4)), 1, "forbreak"),
        ] {
            let k = make_entry_case(&src, false, pre, path);
            arr.push(json!({"request": k.request, "script": k.script}));
        }
        // error cases: the callback on the source throws at one element
        let e = |p: Pipe| Pipe::Each("ident", Box::new(p));
        let fails: Vec<(Pipe, Cons, i64)> = vec![
            (Pipe::Windows(2, bx(e(Pipe::Src(Src::Tuple(ints(5)))))), Cons::Simple("tolist"), 12),
            (Pipe::Chunks(3, bx(e(g(5)))), Cons::Simple("tolist"), 12),
            (Pipe::Step(2, bx(e(Pipe::Src(Src::Tuple(ints(3)))))), Cons::Simple("tolist"), 11),
            (Pipe::Skip(2, bx(e(g(3)))), Cons::Simple("count"), 10),
            (Pipe::Reversed(bx(Pipe::Skip(2, bx(e(Pipe::Src(Src::Tuple(ints(4)))))))), Cons::Simple("tolist"), 11),
            (Pipe::Zip(bx(Pipe::Intersperse(V::I(0), bx(e(Pipe::Src(Src::Tuple(ints(3))))))), bx(Pipe::Src(Src::Gen(vec![V::I(30), V::I(31), V::I(32)])))), Cons::Simple("tolist"), 12),
            (Pipe::Take(1, bx(e(g(3)))), Cons::Simple("tolist"), 11),
        ];
        for (p, c, v) in &fails {
            let k = make_fail_case(p, c, *v);
            arr.push(json!({"request": k.request, "script": k.script, "fail_event": k.fail_event}));
        }
        println!("{}", serde_json::to_string_pretty(&arr).unwrap());
        return;
    }

    let thorough = args.thorough();
    let max_len = if thorough { 5 } else { 3 };
    let ads = adaptor_table();
    let conss = consumer_table();

    // 0. corpus: JSON files {"request": …, "script": …}
    if let Some(dir) = &args.corpus {
        if let Ok(rd) = std::fs::read_dir(dir) {
            let mut ps: Vec<_> = rd.filter_map(|e| e.ok()).map(|e| e.path()).filter(|p| p.extension().is_some_and(|e| e == "json")).collect();
            ps.sort();
            for p in ps {
                let Ok(txt) = std::fs::read_to_string(&p) else { continue };
                let Ok(v) = serde_json::from_str::<serde_json::Value>(&txt) else { continue };
                for c in v.as_array().cloned().unwrap_or_else(|| vec![v.clone()]) {
                    if let (Some(rq), Some(sc)) = (c["request"].as_str(), c["script"].as_str()) {
                        cx.rep.bump("corpus_cases");
                        cx.push(Case {
                            request: rq.to_string(),
                            script: sc.to_string(),
                            host_bytes_back: c["host_bytes_back"].as_bool().unwrap_or(false),
                            is_copy: ["(copy ", "(copyops ", "(peekcopy ", "(entry "].iter().any(|m| rq.contains(m)),
                            nontrivial: true,
                            label: "corpus".into(),
                            fail_event: c["fail_event"].as_str().map(|s| s.to_string()),
                        });
                    }
                }
            }
        }
    }
    cx.flush();

    // 1. depth 0: every consumer × every source kind × every length × element flavours
    for kind in 0..SRC_KINDS {
        for n in 0..=max_len {
            for flavour in 0..RANGE_BASES.len() {
                // element flavours for sources that carry arbitrary elements, start values for ranges
                let ok = flavour == 0
                    || (flavour < 7 && matches!(kind, 0 | 1 | 2 | 3 | 4 | 8 | 9 | 14 | 16 | 19 | 21))
                    || matches!(kind, 5 | 6);
                if !ok {
                    continue;
                }
                let src = source(kind, n, flavour, 10);
                let mut pipes = vec![Pipe::Src(src.clone())];
                if let Src::Map(_) = src {
                    pipes.push(Pipe::Keys(Box::new(Pipe::Src(src.clone()))));
                    pipes.push(Pipe::Values(Box::new(Pipe::Src(src.clone()))));
                }
                for p in &pipes {
                    for c in &conss {
                        if admissible(p, c) {
                            cx.push(make_case(p, c));
                        }
                    }
                }
            }
        }
    }
    cx.flush();

    // 1b. entry paths: every source kind consumed as a *value* through the VM instruction path (`for`,
    //     `for` with `break`, multi-assignment unpacking) and through the library path (consumer, `iterator.iter`,
    //     adaptor), untouched and partly consumed before, as it is and after `.iter()`; the element sequence and
    //     the position of the value afterwards must be the same on every path (one model answer per mode)
    for kind in 0..SRC_KINDS {
        for n in 0..=max_len {
            for flavour in [0usize, 5] {
                if flavour != 0 && !matches!(kind, 5 | 6) {
                    continue;
                }
                let src = source(kind, n, flavour, 10);
                for via_iter in [false, true] {
                    for pre in 0..=(n + 1).min(3) {
                        for (path, _) in ENTRY_PATHS {
                            cx.push(make_entry_case(&src, via_iter, pre, path));
                        }
                    }
                }
            }
        }
    }
    cx.flush();

    // 2. depth 1: every adaptor instance × every source kind × every length; a set of consumers
    let d1_cons = [
        Cons::Simple("tolist"),
        Cons::Calls(vec![true; 6]),
        Cons::Calls(vec![true, false, true, false, false, true]),
        Cons::Simple("count"),
        Cons::By("find", "even"),
        Cons::Copy(1, true),
        Cons::Simple("unpack"),
        Cons::PeekOps("pnpqbnq".chars().collect()),
        Cons::PeekOps("ppnnpn".chars().collect()),
        Cons::Calls(dirs("nbbbb")),
        Cons::Calls(dirs("nnbbbb")),
        Cons::Calls(dirs("nnnbbn")),
        Cons::Calls(dirs("bnnnn")),
        Cons::Calls(dirs("bbnnnb")),
        Cons::PeekCopy("pq".chars().collect(), peek_copy_post(true)),
        Cons::PeekCopy("pn".chars().collect(), peek_copy_post(false)),
        // an order-logging accumulator: records every element and the operand order of `+` / `*`
        Cons::SumInit(V::B(Box::new(V::I(0)))),
        Cons::ProductInit(V::B(Box::new(V::I(1)))),
        Cons::Simple("foldpair"),
        Cons::Simple("minmax"),
    ];
    for kind in 0..SRC_KINDS {
        for n in 0..=max_len {
            for flavour in [0, 1, 2, 5, 6, 7] {
                let ok = flavour == 0
                    || (matches!(flavour, 1 | 2 | 6) && matches!(kind, 0 | 2 | 3))
                    || (matches!(flavour, 2 | 5 | 7) && matches!(kind, 5 | 6));
                if !ok {
                    continue;
                }
                for ad in &ads {
                    let p = apply(ad, Pipe::Src(source(kind, n, flavour, 10)));
                    for c in &d1_cons {
                        if admissible(&p, c) {
                            cx.push(make_case(&p, c));
                        }
                    }
                }
            }
        }
    }
    cx.flush();

    // 2b. copy sweep: for every adaptor instance (all of them carry state or wrap a stateful input), the
    //     copy is taken after k = 0..2n+1 advances — during the first pass, exactly at the end, and past
    //     the end of the source (second repetition of `cycle`, drained `chain` halves, emptied window
    //     caches …) — optionally after a call from the back, and then copy and original are advanced
    //     in an interleaved order, from both ends
    let sweep_sources: [(usize, usize); 19] = [
        (1, 0), (2, 0), (0, 2), (5, 2), (6, 5), (7, 0), (12, 0), (9, 0), (8, 0), (10, 0), (11, 0), (13, 0), (14, 0), (15, 0),
        (21, 0), (4, 0), (3, 0), (17, 0), (19, 0),
    ];
    for (kind, flavour) in sweep_sources {
        for n in 0..=max_len {
            for ad in &ads {
                let p = apply(ad, Pipe::Src(source(kind, n, flavour, 10)));
                for k in 0..=(2 * n + 1) {
                    for c in [
                        Cons::CopyOps(vec![true; k], copy_post(false)),
                        Cons::CopyOps(dirs(&format!("{}b", "n".repeat(k))), copy_post(true)),
                    ] {
                        if admissible(&p, &c) {
                            cx.push(make_case(&p, &c));
                        }
                    }
                }
            }
        }
    }
    cx.flush();

    // 2c. the same copy sweep over ordered pairs of the adaptors with internal state
    let stateful: Vec<Ad> = vec![
        Ad::Cycle,
        Ad::Chunks(2),
        Ad::Windows(2),
        Ad::Intersperse(V::I(0)),
        Ad::Peekable,
        Ad::Skip(1),
        Ad::Step(2),
        Ad::Take(3),
        Ad::Zip(Pipe::Src(Src::Gen(vec![V::I(30), V::I(31), V::I(32)]))),
        Ad::Chain(Pipe::Src(Src::Tuple(vec![V::I(20), V::I(21)]))),
        Ad::Flatten,
        Ad::Enumerate,
        Ad::Keep("even"),
        Ad::Reversed,
    ];
    for (kind, flavour) in [(2usize, 0usize), (1, 0), (0, 2), (21, 0)] {
        for n in [2usize, 3] {
            for a1 in &stateful {
                for a2 in &stateful {
                    let p = apply(a2, apply(a1, Pipe::Src(source(kind, n, flavour, 10))));
                    for k in 0..=(2 * n + 1) {
                        for c in [
                            Cons::CopyOps(vec![true; k], copy_post(false)),
                            Cons::CopyOps(dirs(&format!("{}b", "n".repeat(k))), copy_post(true)),
                        ] {
                            if admissible(&p, &c) {
                                cx.push(make_case(&p, &c));
                            }
                        }
                    }
                }
            }
        }
    }
    cx.flush();

    // 2d. back end after partial forward consumption (and vice versa) through every ordered pair of the
    //     adaptors that pass `next_back` on, over every bidirectional source kind
    let mut bidi_ads: Vec<Ad> = vec![Ad::Reversed, Ad::Peekable];
    for f in FNS {
        bidi_ads.push(Ad::Each(f));
    }
    for n in 0..=4 {
        bidi_ads.push(Ad::Skip(n));
    }
    for (kind, flavour) in [(1usize, 0usize), (6, 2), (5, 5), (7, 0), (12, 0), (3, 0), (8, 0), (14, 0), (15, 0)] {
        for n in 0..=max_len {
            for a1 in &bidi_ads {
                for a2 in &bidi_ads {
                    let p = apply(a2, apply(a1, Pipe::Src(source(kind, n, flavour, 10))));
                    for k in 0..=3 {
                        for c in [
                            Cons::Calls(dirs(&format!("{}{}", "n".repeat(k), "b".repeat(4)))),
                            Cons::Calls(dirs(&format!("{}{}", "b".repeat(k), "n".repeat(4)))),
                        ] {
                            if admissible(&p, &c) {
                                cx.push(make_case(&p, &c));
                            }
                        }
                    }
                }
            }
        }
    }
    cx.flush();

    // 2e. error cases: a callback directly on the source throws at element k (k = 0..n; k = n: never);
    //     every adaptor instance, and ordered pairs of the stateful adaptors, on top of it
    let err_cons = |n: usize| -> Vec<Cons> {
        vec![
            Cons::Simple("tolist"),
            Cons::Calls(vec![true; n + 2]),
            Cons::Calls(dirs("nbnbnb")),
            Cons::Simple("count"),
            Cons::By("find", "ff"),
            Cons::SumInit(V::B(Box::new(V::I(0)))),
        ]
    };
    for (kind, flavour) in [(1usize, 0usize), (2, 0), (4, 0), (3, 0), (5, 1)] {
        for n in [1usize, 2, 3, 5] {
            for ad in &ads {
                let p = apply(ad, Pipe::Each("ident", Box::new(Pipe::Src(source(kind, n, flavour, 10)))));
                for k in 0..=n {
                    for c in err_cons(n) {
                        if admissible(&p, &c) {
                            cx.push(make_fail_case(&p, &c, 10 + k as i64));
                        }
                    }
                }
            }
        }
    }
    for kind in [1usize, 2] {
        for n in [3usize, 5] {
            for a1 in &stateful {
                for a2 in &stateful {
                    let p = apply(a2, apply(a1, Pipe::Each("ident", Box::new(Pipe::Src(source(kind, n, 0, 10))))));
                    for k in 0..n {
                        for c in [Cons::Simple("tolist"), Cons::SumInit(V::B(Box::new(V::I(0))))] {
                            if admissible(&p, &c) {
                                cx.push(make_fail_case(&p, &c, 10 + k as i64));
                            }
                        }
                    }
                }
            }
        }
    }
    cx.flush();

    // 3. depth 2: every ordered pair of adaptor instances; sources that log their pulls (and the
    //    plain list); in the thorough tier every source kind
    let d2_kinds: Vec<usize> = if thorough { (0..SRC_KINDS).collect() } else { vec![2, 3, 0] };
    let d2_lens: Vec<usize> = if thorough { (0..=max_len).collect() } else { vec![0, 1, 2, 3] };
    for kind in &d2_kinds {
        for n in &d2_lens {
            for a1 in &ads {
                for a2 in &ads {
                    let p = apply(a2, apply(a1, Pipe::Src(source(*kind, *n, 0, 10))));
                    let c = Cons::Simple("tolist");
                    if admissible(&p, &c) {
                        cx.push(make_case(&p, &c));
                    }
                }
            }
        }
    }
    cx.flush();
    cx.rep.exhaustive = true;
    cx.rep.extra.insert(
        "exhaustive_space".into(),
        json!({"adaptor_instances": ads.len(), "consumer_instances": conss.len(), "source_kinds": SRC_KINDS,
               "source_lengths": format!("0..={}", max_len),
               "depth0": "consumers x kinds x lengths x flavours",
               "depth1": "adaptor instances x kinds x lengths x 20 consumers; copy sweep: adaptor instances x 19 sources x lengths x copy position k=0..2n+1 x {forward, with back calls}",
               "depth2": format!("adaptor instances^2 x kinds {:?} x lengths {:?} x to_list", d2_kinds, d2_lens)}),
    );

    // 4. seeded random pipelines of depth 1..4 with random consumers
    let mut rng = Rng::new(args.seed);
    let n_random = if thorough { 400_000 } else { 9_000 };
    let mut made = 0;
    let mut tries = 0;
    while made < n_random && tries < n_random * 20 {
        tries += 1;
        let depth = 1 + rng.weighted(&[1, 3, 4, 4]);
        let p = random_pipe(&mut rng, depth, max_len, &ads);
        let c = if rng.chance(2, 5) {
            Cons::Simple("tolist")
        } else if rng.chance(1, 8) {
            let n = 3 + rng.below(6);
            Cons::PeekOps((0..n).map(|_| *rng.pick(&['n', 'b', 'p', 'q', 'p', 'n'])).collect())
        } else if rng.chance(1, 5) {
            let k = rng.below(9);
            let pre: Vec<bool> = (0..k).map(|_| rng.chance(4, 5)).collect();
            let m = 4 + rng.below(8);
            let post: Vec<(bool, bool)> = (0..m).map(|_| (rng.chance(1, 2), rng.chance(3, 4))).collect();
            Cons::CopyOps(pre, post)
        } else if rng.chance(1, 10) {
            let k = rng.below(5);
            let pre: Vec<char> = (0..k).map(|_| *rng.pick(&['n', 'b', 'p', 'q', 'p'])).collect();
            let m = 4 + rng.below(6);
            let post: Vec<(bool, char)> = (0..m).map(|_| (rng.chance(1, 2), *rng.pick(&['n', 'b', 'p', 'q', 'n']))).collect();
            Cons::PeekCopy(pre, post)
        } else {
            rng.pick(&conss).clone()
        };
        if p.depth() > 4 || !admissible(&p, &c) {
            continue;
        }
        made += 1;
        cx.push(make_case(&p, &c));
    }
    cx.flush();

    replay_witnesses(&mut cx);
    let kc = cx.known_counts.clone();
    for (id, n) in kc {
        cx.rep.bump_by(&format!("attributed_to_{}", id), n);
    }
    let (k, d, s) = (cx.k_fail, cx.d_fail, cx.spec_checked);
    cx.rep.extra.insert("k_disagreements".into(), json!(k));
    cx.rep.extra.insert("d_failures".into(), json!(d));
    cx.rep.extra.insert("cases_with_sequence_definition_check".into(), json!(s));
    cx.rep.extra.insert("driver_requests".into(), json!(cx.drv.requests));
    if cx.skipped_after_failures > 0 {
        let n = cx.skipped_after_failures;
        cx.rep.note(format!("{} cases were not run after more than 300 failures had been collected", n));
        cx.rep.exhaustive = false;
    }
    std::process::exit(cx.rep.finish());
}
