//! AST-level shrinking: candidate programs that are strictly smaller than the input.
use super::ast::*;

fn simplest(e: &Expr) -> Vec<Expr> {
    match e {
        Expr::Lit(Lit::Int(n)) if *n != 0 && *n != 1 => vec![int(0), int(1)],
        Expr::Lit(Lit::Float(f)) if *f != 0.5 => vec![Expr::Lit(Lit::Float(0.5))],
        Expr::Lit(Lit::Str(s)) if !s.is_empty() => vec![Expr::Lit(Lit::Str(String::new()))],
        Expr::Lit(_) | Expr::Var(_) | Expr::Break(None) | Expr::Continue | Expr::RangeFull => vec![],
        _ => vec![int(0), Expr::Lit(Lit::Null)],
    }
}

/// all programs obtained by one local simplification somewhere in `e`
pub fn candidates(e: &Expr) -> Vec<Expr> {
    let mut out = vec![];
    // 1. at the root: drop list elements / statements, replace by a child, replace by a constant
    match e {
        Expr::Block(es) | Expr::List(es) | Expr::Tuple(es) | Expr::Interp(es) => {
            let mk = |v: Vec<Expr>| match e {
                Expr::Block(_) => Expr::Block(v),
                Expr::List(_) => Expr::List(v),
                Expr::Tuple(_) => Expr::Tuple(v),
                _ => Expr::Interp(v),
            };
            if es.len() > 1 || !matches!(e, Expr::Block(_) | Expr::Tuple(_)) {
                // halves first, then single removals
                if es.len() >= 4 {
                    out.push(mk(es[..es.len() / 2].to_vec()));
                    out.push(mk(es[es.len() / 2..].to_vec()));
                }
                for i in 0..es.len() {
                    let mut v = es.clone();
                    v.remove(i);
                    if v.is_empty() && matches!(e, Expr::Block(_) | Expr::Tuple(_)) {
                        continue;
                    }
                    out.push(mk(v));
                }
            }
        }
        Expr::Map(es) => {
            for i in 0..es.len() {
                let mut v = es.clone();
                v.remove(i);
                out.push(Expr::Map(v));
            }
        }
        Expr::Cmp(a, rest) if rest.len() > 1 => {
            for i in 0..rest.len() {
                let mut v = rest.clone();
                v.remove(i);
                out.push(Expr::Cmp(a.clone(), v));
            }
        }
        Expr::Switch(arms, els) => {
            for i in 0..arms.len() {
                if arms.len() > 1 {
                    let mut v = arms.clone();
                    v.remove(i);
                    out.push(Expr::Switch(v, els.clone()));
                }
            }
            if els.is_some() {
                out.push(Expr::Switch(arms.clone(), None));
            }
        }
        Expr::If(c, t, Some(_)) => out.push(Expr::If(c.clone(), t.clone(), None)),
        _ => {}
    }
    if !matches!(e, Expr::Block(_)) {
        for c in e.children() {
            out.push(c.clone());
        }
    } else if let Expr::Block(es) = e {
        if es.len() == 1 {
            out.push(es[0].clone());
        }
    }
    out.extend(simplest(e));
    // 2. the same inside each child
    let n = e.children().len();
    for i in 0..n {
        let child = e.children()[i].clone();
        for cand in candidates(&child) {
            let mut copy = e.clone();
            *copy.children_mut()[i] = cand;
            out.push(copy);
        }
    }
    out
}
