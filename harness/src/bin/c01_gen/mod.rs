//! Reusable program generator / renderer for the modelled core of Koto (C01; also usable by C10, C11,
//! C16 …): `ast` (mirror of `Model/CoreSyntax.lean` + the S-expression the model driver reads),
//! `render` (Koto source in several surrounding contexts), `generator` (seeded typed-ish generator),
//! `envelope` (defect-shape filters and model envelope), `shrink` (AST-level shrinking).
//!
//! Use from another harness binary with `#[path = "c01_gen/mod.rs"] mod c01_gen;`.
#![allow(dead_code)]
pub mod ast;
pub mod envelope;
pub mod generator;
pub mod render;
pub mod shrink;
