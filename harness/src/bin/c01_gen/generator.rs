//! Seeded, typed-ish program generator with a live-variable environment.
//!
//! Every variable has one static kind for its whole life (`Ty`); reads only use live variables, so
//! almost all programs are well-formed; a small share of deliberately ill-typed operands exercises
//! the error paths. Loops terminate by construction: `while`/`until`/`loop` are driven by a fresh
//! counter that is incremented as the first statement of the body and that nothing else assigns;
//! `for` iterates finite containers / small ranges. Inside loops, string/container variables are
//! never rebuilt from themselves (no exponential growth).
use super::ast::*;
use kvh::Rng;

#[derive(Clone, Copy, PartialEq, Eq, Debug)]
pub enum Ty {
    /// integer known to be small (loop counters, sizes, small literals): usable as range bound / index
    Small,
    Int,
    Float,
    Bool,
    Str,
    List,
    Tuple,
    Map,
    Range,
    Null,
    Any,
}

const VALUE_TYS: [Ty; 10] = [Ty::Small, Ty::Int, Ty::Float, Ty::Bool, Ty::Str, Ty::List, Ty::Tuple, Ty::Map, Ty::Range, Ty::Null];

#[derive(Clone, Debug)]
struct VarInfo {
    id: u32,
    ty: Ty,
    live: bool,
    /// may not be assigned (loop counters, iterated lists)
    frozen: bool,
    /// is (or may become) the target of an index assignment: only fresh lists are assigned to it
    /// and its bare value is never copied
    mutable_list: bool,
}

#[derive(Clone, Debug)]
pub struct Limits {
    pub max_nodes: usize,
    pub max_depth: usize,
}

#[derive(Default, Debug, Clone)]
pub struct GenStats {
    pub conditions: u64,
    pub conditions_with_variable: u64,
    pub ill_typed_injected: u64,
}

pub struct Gen<'a> {
    pub rng: &'a mut Rng,
    vars: Vec<VarInfo>,
    next_id: u32,
    budget: isize,
    max_depth: usize,
    loop_depth: usize,
    /// value of the innermost loop is used (so `break <value>` is allowed)
    loop_valued: Vec<bool>,
    pub stats: GenStats,
}

const INT_POOL: [i64; 22] = [
    0, 1, 2, 3, 5, 7, 10, -1, -2, -7, 100, 255, 65536, 4294967296, 3037000500, -3037000500, 4611686018427387904,
    9223372036854775807, 9223372036854775806, -9223372036854775807, 1000000007, 12345678901,
];
const FLOAT_POOL: [f64; 10] = [0.0, 0.5, 1.5, 2.0, -2.5, 3.25, 100.125, 1e10, -0.75, 1e-3];
const STR_POOL: [&str; 10] = ["", "a", "b", "ab", "abc", "hello", "Koto", "x y", "zz top", "0"];
const KEY_POOL: [&str; 5] = ["ka", "kb", "kc", "kd", "ke"];

impl<'a> Gen<'a> {
    pub fn new(rng: &'a mut Rng, limits: &Limits) -> Gen<'a> {
        Gen {
            rng,
            vars: vec![],
            next_id: 0,
            budget: limits.max_nodes as isize,
            max_depth: limits.max_depth,
            loop_depth: 0,
            loop_valued: vec![],
            stats: GenStats::default(),
        }
    }

    fn spend(&mut self, n: isize) {
        self.budget -= n;
    }
    fn tight(&self, depth: usize) -> bool {
        self.budget <= 0 || depth >= self.max_depth
    }

    fn fresh(&mut self, ty: Ty) -> u32 {
        let id = self.next_id;
        self.next_id += 1;
        self.vars.push(VarInfo { id, ty, live: false, frozen: false, mutable_list: (ty == Ty::List || ty == Ty::Map) && self.rng.chance(1, 2) });
        id
    }
    fn set_live(&mut self, id: u32) {
        if let Some(v) = self.vars.iter_mut().find(|v| v.id == id) {
            v.live = true;
        }
    }
    fn live_of(&self, pred: impl Fn(&VarInfo) -> bool) -> Vec<VarInfo> {
        self.vars.iter().filter(|v| v.live && pred(v)).cloned().collect()
    }
    fn pick_var(&mut self, ty: Ty) -> Option<VarInfo> {
        let c = self.live_of(|v| v.ty == ty || (ty == Ty::Int && v.ty == Ty::Small) || ty == Ty::Any);
        if c.is_empty() { None } else { Some(c[self.rng.below(c.len())].clone()) }
    }
    fn random_ty(&mut self) -> Ty {
        let w = [10u32, 22, 10, 10, 12, 10, 6, 6, 3, 3];
        VALUE_TYS[self.rng.weighted(&w)]
    }

    // ---- literals -------------------------------------------------------------------------

    fn literal(&mut self, ty: Ty) -> Expr {
        match ty {
            Ty::Small => int(self.rng.range(0, 6)),
            Ty::Int => {
                if self.rng.chance(3, 5) {
                    int(self.rng.range(-9, 12))
                } else {
                    int(*self.rng.pick(&INT_POOL))
                }
            }
            Ty::Float => Expr::Lit(Lit::Float(*self.rng.pick(&FLOAT_POOL))),
            Ty::Bool => Expr::Lit(Lit::Bool(self.rng.chance(1, 2))),
            Ty::Str => Expr::Lit(Lit::Str(self.rng.pick(&STR_POOL).to_string())),
            Ty::Null => Expr::Lit(Lit::Null),
            Ty::List => {
                let n = self.rng.below(4);
                Expr::List((0..n).map(|_| self.scalar_literal()).collect())
            }
            Ty::Tuple => {
                let n = 1 + self.rng.below(3);
                Expr::Tuple((0..n).map(|_| self.scalar_literal()).collect())
            }
            Ty::Map => {
                let n = self.rng.below(3);
                Expr::Map((0..n).map(|i| (KEY_POOL[i].to_string(), self.scalar_literal())).collect())
            }
            Ty::Range => {
                let a = self.rng.range(-1, 3);
                let c = self.rng.range(0, 6);
                Expr::Range(b(int(a)), b(int(c)), self.rng.chance(1, 3))
            }
            Ty::Any => {
                let t = self.random_ty();
                self.literal(t)
            }
        }
    }
    fn scalar_literal(&mut self) -> Expr {
        let t = *self.rng.pick(&[Ty::Small, Ty::Int, Ty::Int, Ty::Float, Ty::Bool, Ty::Str, Ty::Null]);
        self.literal(t)
    }

    fn leaf(&mut self, ty: Ty) -> Expr {
        self.spend(1);
        if self.rng.chance(7, 10) {
            if let Some(v) = self.pick_var(ty) {
                return self.read_var(&v);
            }
        }
        self.literal(ty)
    }

    /// a read of a variable; a mutable list is read through a copying slice when `copy` positions
    /// could retain it — the caller decides by using `read_var_retained`
    fn read_var(&mut self, v: &VarInfo) -> Expr {
        Expr::Var(v.id)
    }
    fn protect(&self, e: Expr) -> Expr {
        // bare mutable list in a position that keeps the reference → copy it (`v[..]`)
        if let Expr::Var(x) = &e {
            if self.vars.iter().any(|v| v.id == *x && v.mutable_list) {
                return Expr::Index(b(e), b(Expr::RangeFull));
            }
        }
        e
    }

    // ---- expressions ------------------------------------------------------------------------

    /// expression whose value is kept by the surrounding construct (assignment rhs, container
    /// element, break value): bare mutable lists are copied
    pub fn retained(&mut self, ty: Ty, depth: usize) -> Expr {
        let e = self.expr(ty, depth);
        self.protect_deep(e)
    }
    fn protect_deep(&self, e: Expr) -> Expr {
        match e {
            Expr::Var(_) => self.protect(e),
            Expr::And(a, c) => Expr::And(b(self.protect_deep(*a)), b(self.protect_deep(*c))),
            Expr::Or(a, c) => Expr::Or(b(self.protect_deep(*a)), b(self.protect_deep(*c))),
            Expr::If(c, t, e2) => Expr::If(c, b(self.protect_deep(*t)), e2.map(|x| b(self.protect_deep(*x)))),
            Expr::Emit(a) => Expr::Emit(b(self.protect_deep(*a))),
            Expr::Block(mut es) => {
                if let Some(l) = es.pop() {
                    es.push(self.protect_deep(l));
                }
                Expr::Block(es)
            }
            other => other,
        }
    }

    pub fn expr(&mut self, ty: Ty, depth: usize) -> Expr {
        if self.rng.chance(1, 150) && ty != Ty::Small && ty != Ty::Range {
            // deliberately ill-typed operand
            self.stats.ill_typed_injected += 1;
            let t = self.random_ty();
            return self.expr_of(t, depth);
        }
        self.expr_of(ty, depth)
    }

    fn expr_of(&mut self, ty: Ty, depth: usize) -> Expr {
        if self.tight(depth) {
            return self.leaf(ty);
        }
        self.spend(1);
        let d = depth + 1;
        // forms available for every kind
        if self.rng.chance(1, 14) {
            // inline if / else of that kind
            let c = self.cond(d);
            let t = self.expr(ty, d);
            let e = self.expr(ty, d);
            return Expr::If(b(c), b(t), Some(b(e)));
        }
        if self.rng.chance(1, 16) {
            let a = self.expr(ty, d);
            return Expr::Emit(b(a));
        }
        if self.rng.chance(1, 30) {
            // assignment as an expression
            if let Some(v) = self.assignable(ty) {
                let rhs = self.retained(ty, d);
                return Expr::Assign(v, b(rhs));
            }
        }
        match ty {
            Ty::Small => match self.rng.below(6) {
                0 => {
                    let t = *self.rng.pick(&[Ty::List, Ty::Tuple, Ty::Str, Ty::Map]);
                    Expr::Size(b(self.expr(t, d)))
                }
                1 => {
                    let a = self.expr(Ty::Small, d);
                    let c = self.expr(Ty::Small, d);
                    Expr::Arith(*self.rng.pick(&[ArithOp::Add, ArithOp::Sub]), b(a), b(c))
                }
                _ => self.leaf(Ty::Small),
            },
            Ty::Int => match self.rng.below(12) {
                0..=5 => {
                    let op = *self.rng.pick(&[ArithOp::Add, ArithOp::Add, ArithOp::Sub, ArithOp::Sub, ArithOp::Mul, ArithOp::Mul, ArithOp::Rem, ArithOp::Pow]);
                    let a = self.expr(Ty::Int, d);
                    let c = if op == ArithOp::Pow {
                        // small exponents mostly; sometimes exponents around / beyond 2^32 and 2^63
                        // (F-C01-5, fixed: the power wraps for every non-negative exponent)
                        if self.rng.chance(1, 6) {
                            int(*self.rng.pick(&[63, 64, 65, 4294967295, 4294967296, 4294967297, 8589934593, 9223372036854775807]))
                        } else {
                            int(self.rng.range(0, 5))
                        }
                    } else {
                        self.expr(Ty::Int, d)
                    };
                    Expr::Arith(op, b(a), b(c))
                }
                6 => Expr::Neg(b(self.expr(Ty::Int, d))),
                7 => {
                    // value semantics of and/or
                    let a = self.expr(Ty::Int, d);
                    let c = self.expr(Ty::Int, d);
                    if self.rng.chance(1, 2) { Expr::And(b(a), b(c)) } else { Expr::Or(b(a), b(c)) }
                }
                8 => {
                    if let Some(v) = self.live_numeric_unfrozen() {
                        let op = *self.rng.pick(&[ArithOp::Add, ArithOp::Sub, ArithOp::Mul]);
                        let rhs = self.expr(Ty::Int, d);
                        Expr::OpAssign(op, v, b(rhs))
                    } else {
                        self.leaf(Ty::Int)
                    }
                }
                9 => self.expr_of(Ty::Small, d),
                _ => self.leaf(Ty::Int),
            },
            Ty::Float => match self.rng.below(8) {
                0 | 1 => {
                    let a = self.expr(Ty::Int, d);
                    let c = self.expr(Ty::Int, d);
                    Expr::Arith(ArithOp::Div, b(a), b(c))
                }
                2..=4 => {
                    let op = *self.rng.pick(&[ArithOp::Add, ArithOp::Sub, ArithOp::Mul, ArithOp::Div]);
                    let ta = *self.rng.pick(&[Ty::Float, Ty::Int]);
                    let a = self.expr(ta, d);
                    let c = self.expr(Ty::Float, d);
                    if self.rng.chance(1, 2) { Expr::Arith(op, b(a), b(c)) } else { Expr::Arith(op, b(c), b(a)) }
                }
                5 => Expr::Neg(b(self.expr(Ty::Float, d))),
                _ => self.leaf(Ty::Float),
            },
            Ty::Bool => self.bool_expr(d),
            Ty::Str => match self.rng.below(8) {
                0 | 1 => {
                    let a = self.expr(Ty::Str, d);
                    let c = self.expr(Ty::Str, d);
                    Expr::Arith(ArithOp::Add, b(a), b(c))
                }
                2 | 3 => {
                    let n = 1 + self.rng.below(3);
                    let mut parts = vec![];
                    for _ in 0..n {
                        if self.rng.chance(1, 2) {
                            parts.push(Expr::Lit(Lit::Str(self.rng.pick(&STR_POOL).to_string())));
                        } else {
                            let t = *self.rng.pick(&[Ty::Int, Ty::Small, Ty::Str, Ty::Bool, Ty::Null]);
                            // placeholders hold small expressions (no nested placeholders / maps)
                            let e = self.expr(t, self.max_depth.saturating_sub(1).max(d));
                            let e = if e.any(&|x| matches!(x, Expr::Interp(_) | Expr::Map(_))) { self.literal(t) } else { e };
                            parts.push(e);
                        }
                    }
                    Expr::Interp(parts)
                }
                4 => {
                    let s = self.expr(Ty::Str, d);
                    let i = if self.rng.chance(1, 2) { self.expr(Ty::Small, d) } else { self.range_expr(d, true) };
                    Expr::Index(b(s), b(i))
                }
                _ => self.leaf(Ty::Str),
            },
            Ty::List => match self.rng.below(8) {
                0..=2 => {
                    let n = self.rng.below(4);
                    Expr::List((0..n).map(|_| { let t = self.elem_ty(); self.retained(t, d) }).collect())
                }
                3 => {
                    let a = self.expr(Ty::List, d);
                    let c = self.expr(Ty::List, d);
                    Expr::Arith(ArithOp::Add, b(a), b(c))
                }
                4 => {
                    let a = self.expr(Ty::List, d);
                    let r = self.range_expr(d, true);
                    Expr::Index(b(a), b(r))
                }
                _ => self.leaf(Ty::List),
            },
            Ty::Tuple => match self.rng.below(8) {
                0..=2 => {
                    let n = 1 + self.rng.below(3);
                    Expr::Tuple((0..n).map(|_| { let t = self.elem_ty(); self.retained(t, d) }).collect())
                }
                3 => {
                    let a = self.expr(Ty::Tuple, d);
                    let c = self.expr(Ty::Tuple, d);
                    Expr::Arith(ArithOp::Add, b(a), b(c))
                }
                4 => {
                    let a = self.expr(Ty::Tuple, d);
                    let r = self.range_expr(d, true);
                    Expr::Index(b(a), b(r))
                }
                _ => self.leaf(Ty::Tuple),
            },
            Ty::Map => match self.rng.below(6) {
                0..=2 => {
                    let n = self.rng.below(4);
                    let mut es = vec![];
                    for _ in 0..n {
                        let k = self.rng.pick(&KEY_POOL).to_string();
                        let t = self.elem_ty();
                        es.push((k, self.retained(t, d)));
                    }
                    Expr::Map(es)
                }
                3 => {
                    let a = self.expr(Ty::Map, d);
                    let c = self.expr(Ty::Map, d);
                    Expr::Arith(ArithOp::Add, b(a), b(c))
                }
                _ => self.leaf(Ty::Map),
            },
            Ty::Range => {
                if self.rng.chance(1, 3) { self.leaf(Ty::Range) } else { self.range_expr(d, false) }
            }
            Ty::Null => match self.rng.below(4) {
                0 => {
                    let c = self.cond(d);
                    let t = self.expr(Ty::Any, d);
                    Expr::If(b(c), b(t), None)
                }
                _ => self.leaf(Ty::Null),
            },
            Ty::Any => match self.rng.below(10) {
                0 | 1 => {
                    // element of a container
                    let t = *self.rng.pick(&[Ty::List, Ty::Tuple, Ty::Str, Ty::Range, Ty::Map]);
                    let a = self.expr(t, d);
                    let i = self.expr(Ty::Small, d);
                    Expr::Index(b(a), b(i))
                }
                2 => {
                    let a = self.expr(Ty::Map, d);
                    Expr::Access(b(a), self.rng.pick(&KEY_POOL).to_string())
                }
                3 | 4 => {
                    // value semantics of and/or over mixed kinds (0, '' and [] are truthy)
                    let ta = self.random_ty();
                    let tb = self.random_ty();
                    let a = self.expr(ta, d);
                    let c = self.expr(tb, d);
                    if self.rng.chance(1, 2) { Expr::And(b(a), b(c)) } else { Expr::Or(b(a), b(c)) }
                }
                5 => {
                    let c = self.cond(d);
                    let t = self.expr(Ty::Any, d);
                    Expr::If(b(c), b(t), None)
                }
                _ => {
                    let t = self.random_ty();
                    self.expr(t, d)
                }
            },
        }
    }

    fn elem_ty(&mut self) -> Ty {
        *self.rng.pick(&[Ty::Int, Ty::Int, Ty::Small, Ty::Str, Ty::Float, Ty::Bool, Ty::Null, Ty::List, Ty::Tuple])
    }

    fn range_expr(&mut self, d: usize, allow_open: bool) -> Expr {
        self.spend(1);
        let k = if allow_open { self.rng.below(6) } else { 0 };
        match k {
            3 => Expr::RangeFrom(b(self.expr_of(Ty::Small, d))),
            4 => Expr::RangeTo(b(self.expr_of(Ty::Small, d)), self.rng.chance(1, 2)),
            5 => Expr::RangeFull,
            _ => {
                let a = self.expr_of(Ty::Small, d);
                let c = self.expr_of(Ty::Small, d);
                Expr::Range(b(a), b(c), self.rng.chance(1, 3))
            }
        }
    }

    fn cmp_operands_ty(&mut self) -> Ty {
        *self.rng.pick(&[Ty::Int, Ty::Int, Ty::Int, Ty::Small, Ty::Float, Ty::Str])
    }

    fn bool_expr(&mut self, d: usize) -> Expr {
        match self.rng.below(14) {
            0..=4 => {
                // ordering comparison, possibly a chain
                let t = self.cmp_operands_ty();
                let n = if self.rng.chance(1, 3) { 2 + self.rng.below(2) } else { 1 };
                let first = self.num_or(t, d);
                let mut rest = vec![];
                // equality operators may only come first in a chain
                let mut rel_seen = false;
                for _ in 0..n {
                    let op = if !rel_seen && self.rng.chance(1, 5) {
                        *self.rng.pick(&[CmpOp::Eq, CmpOp::Ne])
                    } else {
                        rel_seen = true;
                        *self.rng.pick(&[CmpOp::Lt, CmpOp::Le, CmpOp::Gt, CmpOp::Ge])
                    };
                    let o = self.num_or(t, d);
                    rest.push((op, o));
                }
                Expr::Cmp(b(first), rest)
            }
            5 | 6 => {
                let ta = self.random_ty();
                let tb = if self.rng.chance(2, 3) { ta } else { self.random_ty() };
                let a = self.expr(ta, d);
                let c = self.expr(tb, d);
                Expr::Cmp(b(a), vec![(*self.rng.pick(&[CmpOp::Eq, CmpOp::Ne]), c)])
            }
            7 => {
                let t = if self.rng.chance(1, 2) { Ty::Bool } else { self.random_ty() };
                Expr::Not(b(self.expr(t, d)))
            }
            8 | 9 => {
                let a = self.expr(Ty::Bool, d);
                let c = self.expr(Ty::Bool, d);
                if self.rng.chance(1, 2) { Expr::And(b(a), b(c)) } else { Expr::Or(b(a), b(c)) }
            }
            _ => self.leaf(Ty::Bool),
        }
    }

    fn num_or(&mut self, t: Ty, d: usize) -> Expr {
        // operands of one comparison share a kind (numbers mix freely)
        let t = if t != Ty::Str && self.rng.chance(1, 4) { *self.rng.pick(&[Ty::Int, Ty::Float, Ty::Small]) } else { t };
        let e = self.expr(t, d);
        // observable operand evaluation
        if self.rng.chance(1, 5) { Expr::Emit(b(e)) } else { e }
    }

    /// condition of `if`/`while`/`switch`: mostly a comparison that involves a variable; sometimes
    /// a bare value (truthiness of 0, '', [] …)
    pub fn cond(&mut self, d: usize) -> Expr {
        let e = if self.rng.chance(1, 8) {
            let t = self.random_ty();
            if self.rng.chance(1, 3) {
                self.literal_truthiness()
            } else {
                // truthiness of a variable of any kind (0, '' and [] are truthy)
                match self.pick_var(Ty::Any) {
                    Some(v) => {
                        self.spend(1);
                        Expr::Var(v.id)
                    }
                    None => self.expr(t, d + 1),
                }
            }
        } else if self.rng.chance(4, 5) {
            // comparison with a variable on one side
            match self.pick_numeric_or_str() {
                Some((v, t)) => {
                    self.spend(2);
                    let other = self.expr(t, d + 1);
                    let op = *self.rng.pick(&CMP_OPS);
                    if self.rng.chance(1, 2) { Expr::Cmp(b(Expr::Var(v)), vec![(op, other)]) } else { Expr::Cmp(b(other), vec![(op, Expr::Var(v))]) }
                }
                None => self.bool_expr(d + 1),
            }
        } else {
            self.bool_expr(d + 1)
        };
        self.stats.conditions += 1;
        if e.any(&|x| matches!(x, Expr::Var(_) | Expr::OpAssign(..))) {
            self.stats.conditions_with_variable += 1;
        }
        e
    }

    fn literal_truthiness(&mut self) -> Expr {
        self.spend(1);
        match self.rng.below(6) {
            0 => int(0),
            1 => Expr::Lit(Lit::Str(String::new())),
            2 => Expr::List(vec![]),
            3 => Expr::Lit(Lit::Null),
            4 => Expr::Lit(Lit::Float(0.0)),
            _ => Expr::Lit(Lit::Bool(false)),
        }
    }

    fn pick_numeric_or_str(&mut self) -> Option<(u32, Ty)> {
        let c = self.live_of(|v| matches!(v.ty, Ty::Int | Ty::Small | Ty::Float | Ty::Str));
        if c.is_empty() {
            return None;
        }
        let v = &c[self.rng.below(c.len())];
        let t = match v.ty {
            Ty::Str => Ty::Str,
            Ty::Float => *self.rng.pick(&[Ty::Float, Ty::Int]),
            _ => *self.rng.pick(&[Ty::Int, Ty::Small, Ty::Small, Ty::Float]),
        };
        Some((v.id, t))
    }

    /// effect-free small integer (literal, variable, or a sum of those)
    fn pure_small(&mut self, _d: usize) -> Expr {
        self.spend(1);
        let leaf = |g: &mut Self| match g.pick_var(Ty::Small) {
            Some(v) if g.rng.chance(1, 2) => Expr::Var(v.id),
            _ => int(g.rng.range(0, 4)),
        };
        let a = leaf(self);
        if self.rng.chance(1, 4) {
            let c = leaf(self);
            Expr::Arith(ArithOp::Add, b(a), b(c))
        } else {
            a
        }
    }
    /// effect-free number (sometimes of another kind, for the error class)
    fn pure_number(&mut self, _d: usize) -> Expr {
        self.spend(1);
        match self.rng.below(8) {
            0 => self.literal(Ty::Float),
            1 => self.literal(Ty::Str),
            2 | 3 => match self.pick_var(Ty::Int) {
                Some(v) => Expr::Var(v.id),
                None => self.literal(Ty::Int),
            },
            _ => self.literal(Ty::Int),
        }
    }

    fn live_numeric_unfrozen(&mut self) -> Option<u32> {
        let c = self.live_of(|v| matches!(v.ty, Ty::Int) && !v.frozen);
        if c.is_empty() { None } else { Some(c[self.rng.below(c.len())].id) }
    }

    /// a variable of kind `ty` that may be (re)assigned: an existing unfrozen one or a fresh one
    fn assignable(&mut self, ty: Ty) -> Option<u32> {
        if ty == Ty::Small {
            return None;
        }
        let c: Vec<VarInfo> = self.vars.iter().filter(|v| v.ty == ty && !v.frozen).cloned().collect();
        if !c.is_empty() && self.rng.chance(2, 3) {
            return Some(c[self.rng.below(c.len())].id);
        }
        Some(self.fresh(ty))
    }

    // ---- statements -------------------------------------------------------------------------

    fn rhs_for(&mut self, v: u32, ty: Ty, d: usize) -> Expr {
        let info = self.vars.iter().find(|x| x.id == v).cloned().unwrap();
        let in_loop = self.loop_depth > 0;
        if info.mutable_list && info.ty == Ty::Map {
            // only fresh maps (distinct keys, up to 6 entries)
            self.spend(1);
            let n = self.rng.below(7);
            let keys = ["ka", "kb", "kc", "kd", "ke", "kf"];
            return Expr::Map((0..n).map(|i| { let t = self.elem_ty(); (keys[i].to_string(), self.retained(t, d + 1)) }).collect());
        }
        if info.mutable_list {
            // only fresh lists
            self.spend(1);
            let n = self.rng.below(4);
            return Expr::List((0..n).map(|_| { let t = self.elem_ty(); self.retained(t, d + 1) }).collect());
        }
        if in_loop && matches!(ty, Ty::Str | Ty::List | Ty::Tuple | Ty::Map | Ty::Any) {
            // no growth inside loops: build from literals only
            self.spend(2);
            return self.literal(ty);
        }
        self.retained(ty, d)
    }

    fn assign_stmt(&mut self, d: usize) -> Expr {
        let ty = self.random_ty();
        let ty = if ty == Ty::Small { Ty::Int } else { ty };
        let v = self.assignable(ty).unwrap();
        self.spend(1);
        let rhs = self.rhs_for(v, ty, d);
        self.set_live(v);
        Expr::Assign(v, b(rhs))
    }

    /// `x = <construct whose "no value" case must yield null>` on an `Any` variable that usually
    /// already holds something else
    fn valued_construct_stmt(&mut self, d: usize) -> Expr {
        let v = self.assignable(Ty::Any).unwrap();
        // make sure the register held something else before
        let mut pre = vec![];
        if !self.vars.iter().any(|x| x.id == v && x.live) || self.rng.chance(1, 3) {
            let t = self.random_ty();
            let e = if self.loop_depth > 0 { self.literal(t) } else { self.retained(t, d + 1) };
            pre.push(Expr::Assign(v, b(e)));
            self.set_live(v);
        }
        // the construct must not read v (F-C01-1 shape): freeze and hide it while generating
        let was_live = self.hide(v);
        self.spend(1);
        let c = match self.rng.below(7) {
            0 | 1 => {
                let c = self.cond(d);
                let t = self.block_or_expr(d + 1, true);
                if self.rng.chance(2, 3) { Expr::If(b(c), b(t), None) } else { Expr::If(b(c), b(t), Some(b(self.block_or_expr(d + 1, true)))) }
            }
            2 => self.switch_stmt(d, true),
            3 | 4 => {
                let (init, lp) = self.counted_loop(d, true);
                pre.push(init);
                lp
            }
            _ => self.for_loop(d, true),
        };
        self.unhide(v, was_live);
        self.set_live(v);
        pre.push(Expr::Assign(v, b(c)));
        if pre.len() == 1 { pre.pop().unwrap() } else { Expr::Block(pre) }
    }

    fn hide(&mut self, v: u32) -> (bool, bool) {
        let x = self.vars.iter_mut().find(|x| x.id == v).unwrap();
        let r = (x.live, x.frozen);
        x.live = false;
        x.frozen = true;
        r
    }
    fn unhide(&mut self, v: u32, was: (bool, bool)) {
        let x = self.vars.iter_mut().find(|x| x.id == v).unwrap();
        x.live = was.0;
        x.frozen = was.1;
    }

    /// a block of statements (value = last) or a single expression
    fn block_or_expr(&mut self, d: usize, valued: bool) -> Expr {
        if self.tight(d) || self.rng.chance(1, 3) {
            let t = self.random_ty();
            // a variable first assigned in a branch is not live after it
            let snapshot: Vec<(u32, bool)> = self.vars.iter().map(|v| (v.id, v.live)).collect();
            let e = if valued { self.retained(t, d) } else { self.simple_stmt(d) };
            for v in self.vars.iter_mut() {
                match snapshot.iter().find(|(id, _)| *id == v.id) {
                    Some((_, live)) => v.live = *live,
                    None => v.live = false,
                }
            }
            return e;
        }
        self.block(d, valued)
    }

    fn block(&mut self, d: usize, valued: bool) -> Expr {
        let snapshot: Vec<(u32, bool)> = self.vars.iter().map(|v| (v.id, v.live)).collect();
        let n = 1 + self.rng.below(3);
        let mut es = vec![];
        for _ in 0..n {
            es.push(self.stmt(d));
            if self.budget <= 0 {
                break;
            }
        }
        if valued {
            let t = self.random_ty();
            es.push(self.retained(t, d + 1));
        }
        // variables first assigned inside are not live outside (the block may not run)
        for v in self.vars.iter_mut() {
            match snapshot.iter().find(|(id, _)| *id == v.id) {
                Some((_, live)) => v.live = *live,
                None => v.live = false,
            }
        }
        Expr::Block(es)
    }

    fn simple_stmt(&mut self, d: usize) -> Expr {
        match self.rng.below(10) {
            0..=2 => self.assign_stmt(d),
            3 | 4 => {
                let t = self.random_ty();
                self.spend(1);
                Expr::Emit(b(self.expr(t, d + 1)))
            }
            5 => match self.live_numeric_unfrozen() {
                Some(v) => {
                    self.spend(1);
                    let op = *self.rng.pick(&[ArithOp::Add, ArithOp::Sub, ArithOp::Mul, ArithOp::Div, ArithOp::Rem, ArithOp::Pow]);
                    // `/=` turns the variable into a float: keep Int variables integral
                    let (op, rhs) = match op {
                        ArithOp::Div => (ArithOp::Sub, self.expr(Ty::Int, d + 1)),
                        ArithOp::Rem => (op, int(*self.rng.pick(&[2, 3, 7, -5, 10]))),
                        ArithOp::Pow => (op, int(self.rng.range(0, 3))),
                        _ => (op, self.expr(Ty::Int, d + 1)),
                    };
                    Expr::OpAssign(op, v, b(rhs))
                }
                None => self.assign_stmt(d),
            },
            6 => {
                let c = self.live_of(|v| v.ty == Ty::Float && !v.frozen);
                if c.is_empty() {
                    self.assign_stmt(d)
                } else {
                    let v = c[self.rng.below(c.len())].id;
                    self.spend(1);
                    let op = *self.rng.pick(&[ArithOp::Add, ArithOp::Sub, ArithOp::Mul, ArithOp::Div]);
                    let t = *self.rng.pick(&[Ty::Float, Ty::Int]);
                    Expr::OpAssign(op, v, b(self.expr(t, d + 1)))
                }
            }
            7 => {
                let c = self.live_of(|v| v.mutable_list && !v.frozen);
                if c.is_empty() {
                    self.assign_stmt(d)
                } else {
                    let (v, vty) = {
                        let x = &c[self.rng.below(c.len())];
                        (x.id, x.ty)
                    };
                    self.spend(1);
                    if vty == Ty::Map {
                        // `m[i] = (key, value)`: replace the entry at position i
                        let i = self.expr(Ty::Small, d + 1);
                        let key = *self.rng.pick(&["ka", "kb", "kc", "kd", "ke", "kf", "kx", "ky"]);
                        let t = self.elem_ty();
                        let val = self.retained(t, d + 1);
                        let entry = if self.rng.chance(1, 12) { val } else { Expr::Tuple(vec![Expr::Lit(Lit::Str(key.to_string())), val]) };
                        return Expr::IndexAssign(v, b(i), b(entry));
                    }
                    let i = if self.rng.chance(1, 4) { self.range_expr(d + 1, true) } else { self.expr(Ty::Small, d + 1) };
                    if self.rng.chance(1, 3) {
                        // compound assignment to an element (pure index and operand: F-C01-4)
                        let op = *self.rng.pick(&[ArithOp::Add, ArithOp::Sub, ArithOp::Mul, ArithOp::Div, ArithOp::Rem, ArithOp::Pow]);
                        let i = self.pure_small(d + 1);
                        let rhs = if op == ArithOp::Pow { int(self.rng.range(0, 3)) } else { self.pure_number(d + 1) };
                        return Expr::IndexOpAssign(op, v, b(i), b(rhs));
                    }
                    let t = self.elem_ty();
                    let rhs = self.retained(t, d + 1);
                    Expr::IndexAssign(v, b(i), b(rhs))
                }
            }
            8 => {
                self.spend(1);
                let t = *self.rng.pick(&[Ty::Str, Ty::Int, Ty::Small, Ty::Bool, Ty::Null]);
                Expr::Print(b(self.expr(t, d + 1)))
            }
            _ => {
                let t = self.random_ty();
                self.expr(t, d + 1)
            }
        }
    }

    fn if_stmt(&mut self, d: usize) -> Expr {
        self.spend(1);
        let c = self.cond(d);
        let t = self.block_or_expr(d + 1, false);
        let e = match self.rng.below(4) {
            0 | 1 => None,
            2 => Some(b(self.block_or_expr(d + 1, false))),
            _ => {
                // else if
                let c2 = self.cond(d);
                let t2 = self.block_or_expr(d + 1, false);
                let e2 = if self.rng.chance(1, 2) { Some(b(self.block_or_expr(d + 1, false))) } else { None };
                Some(b(Expr::If(b(c2), b(t2), e2)))
            }
        };
        Expr::If(b(c), b(t), e)
    }

    fn switch_stmt(&mut self, d: usize, valued: bool) -> Expr {
        self.spend(1);
        let n = 1 + self.rng.below(3);
        let mut arms = vec![];
        for _ in 0..n {
            let c = self.cond(d);
            let a = self.block_or_expr(d + 1, valued);
            arms.push((c, a));
        }
        let els = if self.rng.chance(2, 5) { Some(b(self.block_or_expr(d + 1, valued))) } else { None };
        Expr::Switch(arms, els)
    }

    fn loop_body(&mut self, d: usize, valued: bool, prefix: Vec<Expr>) -> Expr {
        self.loop_depth += 1;
        self.loop_valued.push(valued);
        let snapshot: Vec<(u32, bool)> = self.vars.iter().map(|v| (v.id, v.live)).collect();
        let mut es = prefix;
        let n = 1 + self.rng.below(3);
        for _ in 0..n {
            if self.rng.chance(1, 4) {
                es.push(self.jump_stmt(d + 1));
            } else {
                es.push(self.stmt(d + 1));
            }
            if self.budget <= 0 {
                break;
            }
        }
        if valued && self.rng.chance(2, 3) {
            let t = self.random_ty();
            let e = if matches!(t, Ty::Str | Ty::List | Ty::Tuple | Ty::Map) { self.literal(t) } else { self.retained(t, d + 1) };
            es.push(e);
        }
        for v in self.vars.iter_mut() {
            match snapshot.iter().find(|(id, _)| *id == v.id) {
                Some((_, live)) => v.live = *live,
                None => v.live = false,
            }
        }
        self.loop_valued.pop();
        self.loop_depth -= 1;
        Expr::Block(es)
    }

    /// `if <cond> then break [value] | continue` (inline or block form is the renderer's choice)
    fn jump_stmt(&mut self, d: usize) -> Expr {
        self.spend(2);
        let c = self.cond(d);
        let valued = *self.loop_valued.last().unwrap_or(&false);
        let j = match self.rng.below(5) {
            0 | 1 => Expr::Continue,
            2 => Expr::Break(None),
            _ => {
                if valued {
                    let t = self.random_ty();
                    let v = if matches!(t, Ty::Str | Ty::List | Ty::Tuple | Ty::Map) { self.literal(t) } else { self.retained(t, d + 1) };
                    Expr::Break(Some(b(v)))
                } else {
                    Expr::Break(None)
                }
            }
        };
        if self.rng.chance(1, 4) {
            // something observable before the jump
            let t = self.random_ty();
            let e = Expr::Emit(b(self.expr(t, d + 1)));
            Expr::If(b(c), b(Expr::Block(vec![e, j])), None)
        } else {
            Expr::If(b(c), b(j), None)
        }
    }

    /// `while` / `until` / `loop` driven by a fresh counter
    fn counted_loop(&mut self, d: usize, valued: bool) -> (Expr, Expr) {
        self.spend(6);
        let c = self.fresh(Ty::Small);
        {
            let x = self.vars.iter_mut().find(|x| x.id == c).unwrap();
            x.live = true;
            x.frozen = true;
        }
        let k = self.rng.range(0, 5);
        let init = Expr::Assign(c, b(int(0)));
        let inc = Expr::OpAssign(ArithOp::Add, c, b(int(1)));
        let kind = self.rng.below(3);
        let lp = match kind {
            0 => {
                // while c < k [and cond]
                let mut cond = Expr::Cmp(b(Expr::Var(c)), vec![(CmpOp::Lt, int(k))]);
                if self.rng.chance(1, 3) {
                    let extra = self.cond(d + 1);
                    cond = Expr::And(b(cond), b(extra));
                } else {
                    self.stats.conditions += 1;
                    self.stats.conditions_with_variable += 1;
                }
                let body = self.loop_body(d, valued, vec![inc]);
                Expr::While(b(cond), b(body))
            }
            1 => {
                let mut cond = Expr::Cmp(b(Expr::Var(c)), vec![(CmpOp::Ge, int(k))]);
                if self.rng.chance(1, 3) {
                    let extra = self.cond(d + 1);
                    cond = Expr::Or(b(cond), b(extra));
                } else {
                    self.stats.conditions += 1;
                    self.stats.conditions_with_variable += 1;
                }
                let body = self.loop_body(d, valued, vec![inc]);
                Expr::Until(b(cond), b(body))
            }
            _ => {
                let guard_cond = Expr::Cmp(b(Expr::Var(c)), vec![(CmpOp::Gt, int(k))]);
                self.stats.conditions += 1;
                self.stats.conditions_with_variable += 1;
                let brk = if valued && self.rng.chance(1, 2) { Expr::Break(Some(b(Expr::Var(c)))) } else { Expr::Break(None) };
                let guard = Expr::If(b(guard_cond), b(brk), None);
                let body = self.loop_body(d, valued, vec![inc, guard]);
                Expr::Loop(b(body))
            }
        };
        // the counter stays live and frozen (re-running the loop construct re-initialises it)
        (init, lp)
    }

    fn for_loop(&mut self, d: usize, valued: bool) -> Expr {
        self.spend(3);
        let (it, elem_ty, frozen_list) = match self.rng.below(6) {
            0 | 1 => (self.range_expr(d + 1, false), Ty::Small, None),
            2 => {
                // literal list of ints
                let n = self.rng.below(4);
                (Expr::List((0..n).map(|_| self.literal(Ty::Int)).collect()), Ty::Int, None)
            }
            3 => match self.pick_var(Ty::List) {
                Some(v) => (Expr::Var(v.id), Ty::Any, Some(v.id)),
                None => (self.literal(Ty::List), Ty::Any, None),
            },
            4 => {
                let t = *self.rng.pick(&[Ty::Tuple, Ty::Map, Ty::Range]);
                (self.expr(t, d + 1), Ty::Any, None)
            }
            _ => (self.expr(Ty::List, d + 1), Ty::Any, None),
        };
        // iterating a list variable: it is not assigned / index-assigned in the body
        let was = frozen_list.map(|v| {
            let x = self.vars.iter_mut().find(|x| x.id == v).unwrap();
            let w = (x.frozen, x.mutable_list);
            x.frozen = true;
            w
        });
        let x = self.fresh(elem_ty);
        self.set_live(x);
        let body = self.loop_body(d, valued, vec![]);
        if let (Some(v), Some(w)) = (frozen_list, was) {
            let y = self.vars.iter_mut().find(|y| y.id == v).unwrap();
            y.frozen = w.0;
        }
        // after the loop the variable is null (exhaustion) or the item of the round that broke out
        if let Some(y) = self.vars.iter_mut().find(|y| y.id == x) {
            y.live = true;
            y.ty = Ty::Any;
            y.frozen = true;
        }
        Expr::For(x, b(it), b(body))
    }

    pub fn stmt(&mut self, d: usize) -> Expr {
        if self.tight(d) {
            return self.simple_stmt(d);
        }
        let w = [46u32, 10, 4, 7, 7, 12];
        match self.rng.weighted(&w) {
            0 => self.simple_stmt(d),
            1 => self.if_stmt(d),
            2 => self.switch_stmt(d, false),
            3 => {
                let (init, lp) = self.counted_loop(d, false);
                Expr::Block(vec![init, lp])
            }
            4 => self.for_loop(d, false),
            _ => self.valued_construct_stmt(d),
        }
    }

    pub fn program(&mut self) -> Expr {
        let mut es = vec![];
        // a few initial variables of different kinds
        // an integer variable first (conditions compare against it), then a few of random kinds
        {
            let v = self.fresh(Ty::Int);
            self.spend(2);
            let rhs = self.literal(Ty::Int);
            self.set_live(v);
            es.push(Expr::Assign(v, b(rhs)));
        }
        let n_init = 1 + self.rng.below(4);
        for _ in 0..n_init {
            es.push(self.assign_stmt(1));
        }
        while self.budget > 0 && es.len() < 12 {
            es.push(self.stmt(1));
        }
        // the program's value: often an expression over the live variables
        if self.rng.chance(2, 3) {
            let t = self.random_ty();
            self.budget = self.budget.max(4);
            es.push(self.expr(t, 2));
        }
        Expr::Block(flatten(es))
    }
}

/// splice nested statement blocks produced by multi-statement productions into the parent block
pub fn flatten(es: Vec<Expr>) -> Vec<Expr> {
    let mut out = vec![];
    for e in es {
        match e {
            Expr::Block(inner) if inner.len() != 1 => out.extend(flatten(inner)),
            other => out.push(other),
        }
    }
    out
}

/// recursively splice statement-position blocks (bodies keep their own `Block`)
pub fn normalise(e: Expr) -> Expr {
    fn body(e: Expr) -> Expr {
        match normalise(e) {
            Expr::Block(es) => Expr::Block(flatten(es)),
            other => other,
        }
    }
    match e {
        Expr::Block(es) => Expr::Block(flatten(es.into_iter().map(normalise).collect())),
        Expr::If(c, t, e2) => Expr::If(c, b(body(*t)), e2.map(|x| b(body(*x)))),
        Expr::Switch(arms, els) => Expr::Switch(arms.into_iter().map(|(c, a)| (c, body(a))).collect(), els.map(|x| b(body(*x)))),
        Expr::While(c, x) => Expr::While(c, b(body(*x))),
        Expr::Until(c, x) => Expr::Until(c, b(body(*x))),
        Expr::Loop(x) => Expr::Loop(b(body(*x))),
        Expr::For(v, it, x) => Expr::For(v, it, b(body(*x))),
        Expr::Assign(v, x) => Expr::Assign(v, b(normalise(*x))),
        other => other,
    }
}
