//! The generation envelope of C01: structural predicates over programs.
//!
//! * `known_shape` — the two *defect shapes* of the unchanged tree (F-C01-1, F-C01-2). They are
//!   generation filters only: a program matching one is not run; a failure of a program that
//!   matches neither is a VIOLATION.
//! * `outside_model` — shapes the reference semantics deliberately does not model (aliasing of a
//!   mutated list — property C14's subject —, `%=` with a possibly-zero integer divisor —
//!   F-C06-1 —, comparison sequences the parser does not chain) and Koto's static rules
//!   (`break <value>` needs a loop whose value is used; loops/switch/blocks only where the renderer
//!   can place them).
use super::ast::*;
use super::render::inline_ok;
use std::collections::HashSet;

/// the local whose *register* holds the value of `e` when `e` is compiled with "any register":
/// a bare local, an assignment to a local, a compound assignment, an index assignment whose value
/// is one of those
pub fn reg_valued(e: &Expr) -> Option<u32> {
    match e {
        Expr::Var(x) | Expr::Assign(x, _) | Expr::OpAssign(_, x, _) => Some(*x),
        Expr::IndexAssign(_, _, a) => reg_valued(a),
        Expr::Block(es) if es.len() == 1 => reg_valued(&es[0]),
        _ => None,
    }
}

/// F-C01-1: `x = E` where evaluating `E` writes a partial result into `x`'s register (the assignment
/// target is used as the result register of `E`) and a later part of `E` reads `x`.
pub fn early_write_then_read(x: u32, e: &Expr) -> bool {
    // a jump (break / continue) that abandons the evaluation of E after the partial result was
    // written leaves that partial result in x
    let jumps = |o: &Expr| o.any(&|y| matches!(y, Expr::Break(_) | Expr::Continue));
    match e {
        Expr::And(a, c) | Expr::Or(a, c) => c.reads(x) || jumps(c) || early_write_then_read(x, a) || early_write_then_read(x, c),
        Expr::Cmp(_, rest) if rest.len() >= 2 => {
            // the first comparison's result goes to x's register; the middle operand is read from
            // its register afterwards, later operands are evaluated afterwards
            reg_valued(&rest[0].1) == Some(x)
                || rest[1..].iter().any(|(_, o)| o.reads(x) || jumps(o))
                || rest[..rest.len() - 1].iter().skip(1).any(|(_, o)| reg_valued(o) == Some(x))
        }
        Expr::If(_, t, e) => early_write_then_read(x, t) || e.as_ref().is_some_and(|e| early_write_then_read(x, e)),
        Expr::Switch(arms, els) => {
            arms.iter().any(|(_, a)| early_write_then_read(x, a)) || els.as_ref().is_some_and(|e| early_write_then_read(x, e))
        }
        Expr::Block(es) => es.last().is_some_and(|l| early_write_then_read(x, l)),
        Expr::While(..) | Expr::Until(..) | Expr::For(..) | Expr::Loop(_) => e.reads(x),
        // the map is created in x's register first: an entry value that reads x sees the new
        // (empty) map, one that assigns x replaces the map under construction
        Expr::Map(entries) => entries.iter().any(|(_, v)| v.reads(x) || v.assigns(x) || jumps(v)),
        _ => false,
    }
}

/// operands of `e` that are compiled into registers first and used by one instruction afterwards
fn register_operands(e: &Expr) -> Option<Vec<&Expr>> {
    match e {
        Expr::Arith(_, a, c) | Expr::Index(a, c) | Expr::Range(a, c, _) => Some(vec![a, c]),
        Expr::Cmp(a, rest) => Some(std::iter::once(&**a).chain(rest.iter().map(|(_, o)| o)).collect()),
        _ => None,
    }
}

/// F-C01-2 at node `e`: an operand whose value lives in local `x`'s register, and a later operand
/// that assigns `x` (also `x op= e` where `e` assigns `x`: the guide reads `x` first)
pub fn late_read_here(e: &Expr) -> bool {
    if let Expr::OpAssign(_, x, a) = e {
        return a.assigns(*x);
    }
    if let Some(ops) = register_operands(e) {
        for i in 0..ops.len() {
            if let Some(x) = reg_valued(ops[i]) {
                if ops[i + 1..].iter().any(|o| o.assigns(x)) {
                    return true;
                }
            }
        }
    }
    false
}

/// F-C01-3: an operator in a position whose value is unused is not executed (its operands are
/// compiled "for side effects" only), so the error it would raise is lost: arithmetic, unary minus,
/// the last comparison of a chain, range construction — also inside list / tuple / map literals and
/// string interpolation whose value is unused. `used` = the value of `e` is used.
pub fn unused_operator(e: &Expr, used: bool) -> bool {
    let u = |c: &Expr, used: bool| unused_operator(c, used);
    match e {
        Expr::Arith(_, a, c) => !used || u(a, true) || u(c, true),
        Expr::Neg(a) => !used || u(a, true),
        Expr::Cmp(..) => !used || e.children().iter().any(|c| u(c, true)),
        Expr::Range(a, c, _) => !used || u(a, true) || u(c, true),
        Expr::RangeFrom(a) | Expr::RangeTo(a, _) => !used || u(a, true),
        Expr::List(_) | Expr::Tuple(_) | Expr::Map(_) | Expr::Interp(_) => e.children().iter().any(|c| u(c, used)),
        Expr::Block(es) => es.iter().enumerate().any(|(i, c)| u(c, used && i + 1 == es.len())),
        Expr::If(c, t, el) => u(c, true) || u(t, used) || el.as_ref().is_some_and(|x| u(x, used)),
        Expr::Switch(arms, els) => arms.iter().any(|(c, a)| u(c, true) || u(a, used)) || els.as_ref().is_some_and(|x| u(x, used)),
        Expr::While(c, body) | Expr::Until(c, body) => u(c, true) || u(body, used),
        Expr::Loop(body) => u(body, used),
        Expr::For(_, it, body) => u(it, true) || u(body, used),
        _ => e.children().iter().any(|c| u(c, true)),
    }
}

fn has_effect(e: &Expr) -> bool {
    e.any(&|x| {
        matches!(
            x,
            Expr::Emit(_) | Expr::Print(_) | Expr::Assign(..) | Expr::OpAssign(..) | Expr::IndexAssign(..) | Expr::IndexOpAssign(..)
        )
    })
}

/// F-C01-4: `x[i] op= e` evaluates `e` before `i` (and before reading `x[i]`): the order is
/// observable as soon as the index or the right-hand side has an effect (output, assignment) — the
/// other side may fail or depend on it. Pure index and pure right-hand side are generated and compared.
pub fn index_op_assign_order(e: &Expr) -> bool {
    matches!(e, Expr::IndexOpAssign(_, _, i, a) if has_effect(i) || has_effect(a))
}

/// id of the known finding whose shape the program contains (`root_used`: the surrounding context
/// uses the program's value)
pub fn known_shape(p: &Expr, root_used: bool) -> Option<&'static str> {
    if p.any(&|e| matches!(e, Expr::Assign(x, rhs) if early_write_then_read(*x, rhs))) {
        return Some("F-C01-1");
    }
    if p.any(&late_read_here) {
        return Some("F-C01-2");
    }
    if unused_operator(p, root_used) {
        return Some("F-C01-3");
    }
    if p.any(&index_op_assign_order) {
        return Some("F-C01-4");
    }
    None
}

fn mutated_lists(p: &Expr) -> HashSet<u32> {
    let mut m = HashSet::new();
    p.walk(&mut |e| {
        if let Expr::IndexAssign(x, _, _) = e {
            m.insert(*x);
        }
    });
    m
}

fn fresh_list(e: &Expr) -> bool {
    match e {
        Expr::List(_) | Expr::Map(_) => true,
        Expr::Arith(ArithOp::Add, ..) => true,
        Expr::Index(_, i) => matches!(**i, Expr::Range(..) | Expr::RangeFrom(_) | Expr::RangeTo(..) | Expr::RangeFull),
        _ => false,
    }
}

/// alias rule: a variable that is index-assigned anywhere (set `m`) holds a uniquely referenced
/// list: it is only ever assigned fresh lists, its bare value never flows into a position that
/// retains the reference, it is not iterated while mutated, and it is not an operand whose later
/// sibling mutates it.
fn alias_violation(e: &Expr, retained: bool, m: &HashSet<u32>) -> bool {
    let ch = |c: &Expr, r: bool| alias_violation(c, r, m);
    match e {
        Expr::Var(x) => retained && m.contains(x),
        Expr::Assign(x, a) => (m.contains(x) && !fresh_list(a)) || ch(a, true),
        Expr::List(es) | Expr::Tuple(es) => es.iter().any(|c| ch(c, true)),
        Expr::Map(es) => es.iter().any(|(_, c)| ch(c, true)),
        Expr::Emit(a) => ch(a, retained),
        Expr::And(a, c) | Expr::Or(a, c) => ch(a, retained) || ch(c, retained),
        Expr::Block(es) => es.iter().enumerate().any(|(i, c)| ch(c, retained && i + 1 == es.len())),
        Expr::If(c, t, el) => ch(c, false) || ch(t, retained) || el.as_ref().is_some_and(|x| ch(x, retained)),
        Expr::Switch(arms, els) => {
            arms.iter().any(|(c, a)| ch(c, false) || ch(a, retained)) || els.as_ref().is_some_and(|x| ch(x, retained))
        }
        Expr::While(c, body) | Expr::Until(c, body) => ch(c, false) || ch(body, retained),
        Expr::Loop(body) => ch(body, retained),
        Expr::For(_, it, body) => {
            let iterated_mutated = match &**it {
                Expr::Var(x) => m.contains(x) && body.index_assigns(*x),
                _ => false,
            };
            iterated_mutated || ch(it, false) || ch(body, retained)
        }
        Expr::Break(Some(v)) => ch(v, true),
        Expr::IndexAssign(_, i, a) => ch(i, false) || ch(a, true),
        Expr::IndexOpAssign(_, _, i, a) => ch(i, false) || ch(a, false),
        // an Index result may be a reference to an inner list: retained inner lists are fine as long
        // as they are never index-assigned — they are not in `m` unless assigned to an `m` variable,
        // which `fresh_list` excludes
        _ => {
            let kids = e.children();
            for (i, c) in kids.iter().enumerate() {
                if let Expr::Var(x) = c {
                    if m.contains(x) && kids[i + 1..].iter().any(|o| o.index_assigns(*x)) {
                        return true;
                    }
                }
            }
            kids.iter().any(|c| ch(c, false))
        }
    }
}

/// static placement rules: `valued` = the innermost loop's value is used, `in_loop`, `stmt` = `e` is in
/// statement position (or the rhs of a statement-level assignment when `rhs`)
fn placement_violation(e: &Expr, stmt: bool, in_loop: bool, valued: bool, val_here: bool) -> Option<&'static str> {
    let sub = |c: &Expr, stmt: bool, val: bool| placement_violation(c, stmt, in_loop, valued, val);
    match e {
        Expr::Break(v) => {
            if !in_loop || !stmt {
                return Some("break-placement");
            }
            if let Some(v) = v {
                if !valued {
                    return Some("break-value-in-unvalued-loop");
                }
                if !inline_ok(v) {
                    return Some("multi-line-in-expression");
                }
                return sub(v, false, true);
            }
            None
        }
        Expr::Continue => {
            if !in_loop || !stmt {
                Some("continue-placement")
            } else {
                None
            }
        }
        Expr::Block(es) => {
            if !stmt && es.len() != 1 {
                return Some("multi-line-in-expression");
            }
            for (i, c) in es.iter().enumerate() {
                let last = i + 1 == es.len();
                if let Some(r) = sub(c, stmt, val_here && last) {
                    return Some(r);
                }
            }
            None
        }
        Expr::If(c, t, el) => {
            if !stmt && !inline_ok(e) {
                return Some("multi-line-in-expression");
            }
            sub(c, false, true).or_else(|| sub(t, stmt, val_here)).or_else(|| el.as_ref().and_then(|x| sub(x, stmt, val_here)))
        }
        Expr::Switch(arms, els) => {
            if !stmt {
                return Some("multi-line-in-expression");
            }
            for (c, a) in arms {
                if let Some(r) = sub(c, false, true).or_else(|| sub(a, true, val_here)) {
                    return Some(r);
                }
            }
            els.as_ref().and_then(|x| sub(x, true, val_here))
        }
        Expr::While(c, body) | Expr::Until(c, body) => {
            if !stmt {
                return Some("multi-line-in-expression");
            }
            placement_violation(c, false, in_loop, valued, true).or_else(|| placement_violation(body, true, true, val_here, val_here))
        }
        Expr::Loop(body) => {
            if !stmt {
                return Some("multi-line-in-expression");
            }
            placement_violation(body, true, true, val_here, val_here)
        }
        Expr::For(_, it, body) => {
            if !stmt {
                return Some("multi-line-in-expression");
            }
            placement_violation(it, false, in_loop, valued, true).or_else(|| placement_violation(body, true, true, val_here, val_here))
        }
        Expr::Assign(_, a) => {
            // a statement-level assignment may have a multi-line right-hand side; its value is used
            if stmt {
                match &**a {
                    Expr::Block(es) if es.len() != 1 => Some("multi-line-in-expression"),
                    Expr::Break(_) | Expr::Continue => Some("break-placement"),
                    _ => sub(a, true, true),
                }
            } else {
                sub(a, false, true)
            }
        }
        Expr::Cmp(_, rest) => {
            // the parser chains `a op1 b op2 c` only when equality operators come first
            let mut seen_rel = false;
            for (op, _) in rest {
                if op.is_equality() && seen_rel {
                    return Some("unchainable-comparison-sequence");
                }
                if !op.is_equality() {
                    seen_rel = true;
                }
            }
            if rest.is_empty() {
                return Some("empty-comparison");
            }
            e.children().iter().find_map(|c| sub(c, false, true))
        }
        Expr::Tuple(es) if es.is_empty() => Some("empty-tuple"),
        Expr::Interp(parts) => {
            // layout limits of string placeholders (the lexer's subject, C09/C10/C15): no nested
            // interpolated string and no map literal inside a placeholder
            for p in parts {
                if p.any(&|x| matches!(x, Expr::Interp(_) | Expr::Map(_))) {
                    return Some("nested-interpolation-or-map-in-placeholder");
                }
            }
            e.children().iter().find_map(|c| sub(c, false, val_here))
        }
        _ => e.children().iter().find_map(|c| sub(c, false, val_here)),
    }
}

/// reason why the program is outside the modelled envelope / Koto's static rules, if any
pub fn outside_model(p: &Expr) -> Option<&'static str> {
    // top level: the program's own value may be ignored by the context ⇒ not "valued"
    if let Some(r) = placement_violation(p, true, false, false, false) {
        return Some(r);
    }
    let m = mutated_lists(p);
    if !m.is_empty() && alias_violation(p, false, &m) {
        return Some("alias-of-mutated-list");
    }
    None
}
