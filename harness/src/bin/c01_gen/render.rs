//! Renderer: `Expr` → Koto source, with the fewest parentheses the *guide's* (conventional) operator
//! precedence allows — the table below is the harness's own statement of that precedence (same
//! numbers as `operator_precedence()` today); if the parser's table changes, rendered programs parse
//! differently and (K1) reports it.
//!
//! Layout: one statement per line, 2-space indentation, binary operators with a space on both
//! sides, unary minus attached to its operand, calls with parentheses. Loops, `switch` and
//! multi-statement blocks only exist in statement position or as the right-hand side of a
//! statement-level assignment (`x = while …`); everything else is an inline expression.
use super::ast::*;
use std::cell::Cell;

/// deterministic layout choices (inline vs block `if`, `else if` vs nested `if`)
pub struct Style {
    state: Cell<u64>,
}
impl Style {
    pub fn new(seed: u64) -> Style {
        Style { state: Cell::new(seed ^ 0x5DEECE66D) }
    }
    pub fn flip(&self) -> bool {
        let mut z = self.state.get().wrapping_add(0x9E3779B97F4A7C15);
        self.state.set(z);
        z = (z ^ (z >> 30)).wrapping_mul(0xBF58476D1CE4E5B9);
        z = (z ^ (z >> 27)).wrapping_mul(0x94D049BB133111EB);
        (z ^ (z >> 31)) & 1 == 1
    }
}

// (left priority, right priority) — the guide's "conventional order of precedence"
pub const P_OPASSIGN: (u8, u8) = (4, 3);
pub const P_OR: (u8, u8) = (5, 6);
pub const P_AND: (u8, u8) = (7, 8);
pub const P_EQ: (u8, u8) = (10, 9);
pub const P_REL: (u8, u8) = (12, 11);
pub const P_ADD: (u8, u8) = (13, 14);
pub const P_MUL: (u8, u8) = (15, 16);
pub const P_POW: (u8, u8) = (17, 18);

pub fn arith_prec(op: ArithOp) -> (u8, u8) {
    match op {
        ArithOp::Add | ArithOp::Sub => P_ADD,
        ArithOp::Mul | ArithOp::Div | ArithOp::Rem => P_MUL,
        ArithOp::Pow => P_POW,
    }
}
pub fn cmp_prec(op: CmpOp) -> (u8, u8) {
    if op.is_equality() { P_EQ } else { P_REL }
}

/// can `e` be written on one line inside another expression?
pub fn inline_ok(e: &Expr) -> bool {
    match e {
        Expr::While(..) | Expr::Until(..) | Expr::Loop(_) | Expr::For(..) | Expr::Switch(..) => false,
        Expr::Block(es) => es.len() == 1 && inline_ok(&es[0]),
        Expr::Break(_) | Expr::Continue => false,
        Expr::If(c, t, e) => {
            inline_ok(c)
                && (inline_ok(t) || (e.is_none() && matches!(**t, Expr::Break(_) | Expr::Continue) && t.children().iter().all(|c| inline_ok(c))))
                && e.as_ref().is_none_or(|e| inline_ok(e))
        }
        _ => e.children().iter().all(|c| inline_ok(c)),
    }
}

pub fn str_lit(s: &str) -> String {
    let mut o = String::from("'");
    for c in s.chars() {
        match c {
            '\'' => o.push_str("\\'"),
            '\\' => o.push_str("\\\\"),
            '{' => o.push_str("\\{"),
            '\n' => o.push_str("\\n"),
            c => o.push(c),
        }
    }
    o.push('\'');
    o
}

fn lit_text(l: &Lit) -> String {
    match l {
        Lit::Null => "null".into(),
        Lit::Bool(true) => "true".into(),
        Lit::Bool(false) => "false".into(),
        Lit::Int(n) => format!("{}", n),
        Lit::Float(f) => format!("{:?}", f),
        Lit::Str(s) => str_lit(s),
    }
}

fn paren(s: String) -> String {
    format!("({})", s)
}

fn is_simple_atom(e: &Expr) -> bool {
    match e {
        Expr::Var(_) => true,
        Expr::Lit(Lit::Int(n)) => *n >= 0,
        Expr::Lit(Lit::Float(f)) => *f >= 0.0 && !f.is_sign_negative(),
        _ => false,
    }
}

/// operand of `..`: atoms bare, everything else parenthesised
fn range_operand(e: &Expr) -> String {
    if is_simple_atom(e) { inline(e, 0, 0) } else { paren(inline(e, 0, 0)) }
}

/// `a..b` without surrounding parentheses (for-iterable, index brackets, statement-level rhs)
pub fn range_bare(e: &Expr) -> Option<String> {
    match e {
        Expr::Range(a, c, incl) => Some(format!("{}..{}{}", range_operand(a), if *incl { "=" } else { "" }, range_operand(c))),
        Expr::RangeFrom(a) => Some(format!("{}..", range_operand(a))),
        Expr::RangeTo(c, incl) => Some(format!("..{}{}", if *incl { "=" } else { "" }, range_operand(c))),
        Expr::RangeFull => Some("..".into()),
        _ => None,
    }
}

/// base of `e[i]` / `e.k`
fn chain_base(e: &Expr) -> String {
    match e {
        Expr::Var(_) | Expr::List(_) | Expr::Tuple(_) | Expr::Map(_) | Expr::Lit(Lit::Str(_)) | Expr::Interp(_) => inline(e, 0, 0),
        Expr::Index(..) | Expr::Access(..) => inline(e, 0, 0),
        _ => paren(inline(e, 0, 0)),
    }
}

fn binop(m: u8, f: u8, p: (u8, u8), a: &Expr, op: &str, c: &Expr) -> String {
    if m <= p.0 && f < p.1 {
        format!("{} {} {}", inline(a, m, p.0), op, inline(c, p.1, f))
    } else {
        paren(format!("{} {} {}", inline(a, 0, p.0), op, inline(c, p.1, 0)))
    }
}

fn cmp_operand(e: &Expr, m: u8, f: u8) -> String {
    // a comparison that is an operand of a comparison is always parenthesised (a bare one would
    // join the chain)
    if matches!(e, Expr::Cmp(..)) { paren(inline(e, 0, 0)) } else { inline(e, m, f) }
}

fn chain(m: u8, f: u8, a: &Expr, rest: &[(CmpOp, Expr)]) -> String {
    let mut s = String::new();
    let first = cmp_prec(rest[0].0);
    s.push_str(&cmp_operand(a, m, first.0));
    for (i, (op, e)) in rest.iter().enumerate() {
        let p = cmp_prec(*op);
        s.push(' ');
        s.push_str(op.text());
        s.push(' ');
        let follow = if i + 1 < rest.len() { cmp_prec(rest[i + 1].0).0 } else { f };
        s.push_str(&cmp_operand(e, p.1, follow));
    }
    s
}

fn comma_list(es: &[Expr]) -> String {
    es.iter().map(|e| inline(e, 0, 1)).collect::<Vec<_>>().join(", ")
}

fn inline_if(c: &Expr, t: &Expr, e: &Option<Box<Expr>>) -> String {
    // (there is no inline `else if`: a nested `if` in else position is parenthesised)
    let mut s = format!("if {} then {}", inline(c, 0, 1), inline(t, 0, 1));
    if let Some(e) = e {
        s.push_str(" else ");
        s.push_str(&inline(e, 0, 1));
    }
    s
}

/// `e` on one line, at a place where the parser runs with minimum precedence `m` and the next
/// token is no operator (`f = 0`) or an operator / separator of left priority ≤ `f`
/// (`f = 1`: a `,`, `)`, `]`, `then`, `else` … follows — anything that must not be swallowed by an
/// open-ended form).
pub fn inline(e: &Expr, m: u8, f: u8) -> String {
    match e {
        Expr::Lit(l) => lit_text(l),
        Expr::Var(x) => var_name(*x),
        Expr::Neg(a) => match &**a {
            Expr::Var(x) => format!("-{}", var_name(*x)),
            other => format!("-({})", inline(other, 0, 0)),
        },
        Expr::Not(a) => {
            let s = format!("not {}", inline(a, 0, 0));
            if f == 0 { s } else { paren(s) }
        }
        Expr::Arith(op, a, c) => binop(m, f, arith_prec(*op), a, op.text(), c),
        Expr::And(a, c) => binop(m, f, P_AND, a, "and", c),
        Expr::Or(a, c) => binop(m, f, P_OR, a, "or", c),
        Expr::Cmp(a, rest) => {
            let first = cmp_prec(rest[0].0);
            if m <= first.0 && f < first.1 { chain(m, f, a, rest) } else { paren(chain(0, 0, a, rest)) }
        }
        Expr::Assign(x, a) => {
            let s = format!("{} = {}", var_name(*x), inline(a, 0, 0));
            if f == 0 { s } else { paren(s) }
        }
        Expr::OpAssign(op, x, a) => {
            if m <= P_OPASSIGN.0 && f < P_OPASSIGN.1 {
                format!("{} {}= {}", var_name(*x), op.text(), inline(a, P_OPASSIGN.1, f))
            } else {
                paren(format!("{} {}= {}", var_name(*x), op.text(), inline(a, P_OPASSIGN.1, 0)))
            }
        }
        Expr::List(es) => format!("[{}]", comma_list(es)),
        Expr::Tuple(es) => {
            if es.len() == 1 {
                format!("({},)", inline(&es[0], 0, 1))
            } else {
                format!("({})", comma_list(es))
            }
        }
        Expr::Map(es) => {
            format!("{{{}}}", es.iter().map(|(k, e)| format!("{}: {}", k, inline(e, 0, 1))).collect::<Vec<_>>().join(", "))
        }
        Expr::Range(..) | Expr::RangeFrom(_) | Expr::RangeTo(..) | Expr::RangeFull => paren(range_bare(e).unwrap()),
        Expr::Index(a, i) => {
            let idx = range_bare(i).unwrap_or_else(|| inline(i, 0, 1));
            format!("{}[{}]", chain_base(a), idx)
        }
        Expr::IndexAssign(x, i, a) => {
            let idx = range_bare(i).unwrap_or_else(|| inline(i, 0, 1));
            let s = format!("{}[{}] = {}", var_name(*x), idx, inline(a, 0, 0));
            if f == 0 { s } else { paren(s) }
        }
        Expr::IndexOpAssign(op, x, i, a) => {
            let idx = range_bare(i).unwrap_or_else(|| inline(i, 0, 1));
            if m <= P_OPASSIGN.0 && f < P_OPASSIGN.1 {
                format!("{}[{}] {}= {}", var_name(*x), idx, op.text(), inline(a, P_OPASSIGN.1, f))
            } else {
                paren(format!("{}[{}] {}= {}", var_name(*x), idx, op.text(), inline(a, P_OPASSIGN.1, 0)))
            }
        }
        Expr::Access(a, k) => format!("{}.{}", chain_base(a), k),
        Expr::Size(a) => format!("size({})", inline(a, 0, 1)),
        Expr::Interp(parts) => {
            let mut s = String::from("'");
            for p in parts {
                match p {
                    Expr::Lit(Lit::Str(t)) => {
                        let q = str_lit(t);
                        s.push_str(&q[1..q.len() - 1]);
                    }
                    other => {
                        s.push('{');
                        s.push_str(&inline(other, 0, 1));
                        s.push('}');
                    }
                }
            }
            s.push('\'');
            s
        }
        Expr::Emit(a) => format!("emit({})", inline(a, 0, 1)),
        Expr::Print(a) => format!("print({})", inline(a, 0, 1)),
        Expr::Block(es) if es.len() == 1 => inline(&es[0], m, f),
        Expr::If(c, t, e) => {
            let s = inline_if(c, t, e);
            if m == 0 && f == 0 { s } else { paren(s) }
        }
        Expr::Break(None) => "break".into(),
        Expr::Break(Some(v)) => format!("break {}", inline(v, 0, 0)),
        Expr::Continue => "continue".into(),
        other => panic!("c01 render: not an inline expression: {}", other.kind()),
    }
}

fn pad(indent: usize) -> String {
    " ".repeat(indent)
}

fn body(e: &Expr, indent: usize, st: &Style, out: &mut Vec<String>) {
    match e {
        Expr::Block(es) if !es.is_empty() => {
            for s in es {
                stmt(s, indent, st, out);
            }
        }
        other => stmt(other, indent, st, out),
    }
}

fn block_if(c: &Expr, t: &Expr, e: &Option<Box<Expr>>, indent: usize, st: &Style, out: &mut Vec<String>, head: &str) {
    out.push(format!("{}{} {}", pad(indent), head, inline(c, 0, 1)));
    body(t, indent + 2, st, out);
    if let Some(e) = e {
        match &**e {
            Expr::If(c2, t2, e2) if st.flip() => block_if(c2, t2, e2, indent, st, out, "else if"),
            other => {
                out.push(format!("{}else", pad(indent)));
                body(other, indent + 2, st, out);
            }
        }
    }
}

/// one statement, possibly several lines
pub fn stmt(e: &Expr, indent: usize, st: &Style, out: &mut Vec<String>) {
    match e {
        Expr::Block(es) if es.len() != 1 => {
            if es.is_empty() {
                out.push(format!("{}null", pad(indent)));
            }
            for s in es {
                stmt(s, indent, st, out);
            }
        }
        Expr::If(c, t, els) => {
            if inline_ok(e) && st.flip() {
                out.push(format!("{}{}", pad(indent), inline(e, 0, 0)));
            } else {
                block_if(c, t, els, indent, st, out, "if");
            }
        }
        Expr::Switch(arms, els) => {
            out.push(format!("{}switch", pad(indent)));
            for (c, a) in arms {
                if inline_ok(a) && st.flip() {
                    out.push(format!("{}{} then {}", pad(indent + 2), inline(c, 0, 1), inline(a, 0, 0)));
                } else {
                    out.push(format!("{}{} then", pad(indent + 2), inline(c, 0, 1)));
                    body(a, indent + 4, st, out);
                }
            }
            if let Some(a) = els {
                if inline_ok(a) && st.flip() {
                    // (`else if` is one token: an inline `if` after `else` must be parenthesised)
                    out.push(format!("{}else {}", pad(indent + 2), inline(a, 0, 1)));
                } else {
                    out.push(format!("{}else", pad(indent + 2)));
                    body(a, indent + 4, st, out);
                }
            }
        }
        Expr::While(c, b) => {
            out.push(format!("{}while {}", pad(indent), inline(c, 0, 1)));
            body(b, indent + 2, st, out);
        }
        Expr::Until(c, b) => {
            out.push(format!("{}until {}", pad(indent), inline(c, 0, 1)));
            body(b, indent + 2, st, out);
        }
        Expr::Loop(b) => {
            out.push(format!("{}loop", pad(indent)));
            body(b, indent + 2, st, out);
        }
        Expr::For(x, it, b) => {
            let its = range_bare(it).unwrap_or_else(|| inline(it, 0, 1));
            out.push(format!("{}for {} in {}", pad(indent), var_name(*x), its));
            body(b, indent + 2, st, out);
        }
        Expr::Assign(x, rhs) if !inline_ok(rhs) || (matches!(**rhs, Expr::If(..)) && st.flip()) => {
            // `x = <multi-line construct>`: the construct's first line follows the `=`
            let start = out.len();
            match &**rhs {
                Expr::If(c, t, els) => block_if(c, t, els, indent, st, out, "if"),
                Expr::Block(es) if es.len() != 1 => panic!("c01 render: block as assignment rhs"),
                other => stmt(other, indent, st, out),
            }
            let first = out[start].trim_start().to_string();
            out[start] = format!("{}{} = {}", pad(indent), var_name(*x), first);
        }
        Expr::Assign(x, rhs) if range_bare(rhs).is_some() && st.flip() => {
            out.push(format!("{}{} = {}", pad(indent), var_name(*x), range_bare(rhs).unwrap()));
        }
        other => {
            let s = inline(other, 0, 0);
            // a line that starts with `-` would continue the previous line's expression
            let s = if s.starts_with('-') { paren(s) } else { s };
            out.push(format!("{}{}", pad(indent), s));
        }
    }
}

/// the statements of a program (a `Block` or a single expression)
pub fn statements(p: &Expr) -> Vec<Expr> {
    match p {
        Expr::Block(es) if es.len() != 1 => es.clone(),
        Expr::Block(es) => statements(&es[0]),
        other => vec![other.clone()],
    }
}

/// How the program is embedded in surrounding code (DESIGN §6 C01: "the outcome of an expression does
/// not depend on the code that surrounds it").
#[derive(Clone, Debug, PartialEq)]
pub enum Context {
    /// the script is the program
    Top,
    /// body of a function that is called immediately
    Function,
    /// `k` additional live locals assigned before the program (top level / in a function body)
    Locals(usize, bool),
    /// whole program is the body of `for zz in (7,)`: an iterator temporary and a loop local are
    /// live, the program's value is the loop's value
    InLoop(bool),
    /// the last expression is assigned to a fresh local, which is then the result
    Assigned,
    /// the last expression is the third argument of a call (two argument temporaries live)
    Argument,
    /// the last expression is the right operand of `null or …` (fixed result register of a logic op)
    Operand,
    /// the last expression's value is ignored (a further expression follows)
    Ignored,
    /// `n` distinct constants (ints beyond i16, floats, strings, identifiers) are placed in the
    /// chunk's constant pool before the program (a literal data table assigned to a local), so
    /// that the program's own literals and non-local identifiers (`emit`, `print`, `size`) get
    /// constant indices around / beyond `n` — the varint boundaries 2^7, 2^14, 2^21 of the
    /// instruction encoding; top level or in a function body
    ConstPool(usize, bool),
}

impl Context {
    pub fn name(&self) -> String {
        match self {
            Context::Top => "top".into(),
            Context::Function => "function".into(),
            Context::Locals(k, f) => format!("locals{}{}", k, if *f { "-in-function" } else { "" }),
            Context::InLoop(f) => format!("in-loop{}", if *f { "-in-function" } else { "" }),
            Context::Assigned => "assigned".into(),
            Context::Argument => "argument".into(),
            Context::Operand => "operand".into(),
            Context::Ignored => "ignored".into(),
            Context::ConstPool(n, f) => format!("const-pool{}{}", n, if *f { "-in-function" } else { "" }),
        }
    }
    pub fn family(&self) -> &'static str {
        match self {
            Context::Top => "top",
            Context::Function => "function",
            Context::Locals(..) => "extra-locals",
            Context::InLoop(_) => "in-loop",
            Context::Assigned => "assigned",
            Context::Argument => "argument",
            Context::Operand => "operand",
            Context::Ignored => "ignored",
            Context::ConstPool(..) => "const-pool",
        }
    }
    /// does the script's result equal the program's value in this context?
    pub fn keeps_value(&self) -> bool {
        !matches!(self, Context::Ignored)
    }
}

fn in_function(lines: Vec<String>) -> Vec<String> {
    let mut out = vec!["zf = ||".to_string()];
    for l in lines {
        out.push(format!("  {}", l));
    }
    out.push("zf()".into());
    out
}

/// Koto source of program `p` in context `ctx`; `None` when the context does not apply (the last
/// expression cannot be written inline).
pub fn render(p: &Expr, ctx: &Context, style_seed: u64) -> Option<String> {
    let st = Style::new(style_seed);
    let stmts = statements(p);
    let mut lines = vec![];
    let all = |st: &Style, lines: &mut Vec<String>| {
        for s in &stmts {
            stmt(s, 0, st, lines);
        }
    };
    let lines = match ctx {
        Context::Top => {
            all(&st, &mut lines);
            lines
        }
        Context::Function => {
            all(&st, &mut lines);
            in_function(lines)
        }
        Context::Locals(k, f) => {
            for i in 0..*k {
                lines.push(format!("q{} = {}", i, 1000 + i));
            }
            all(&st, &mut lines);
            if *f { in_function(lines) } else { lines }
        }
        Context::InLoop(f) => {
            lines.push("for zz in (7,)".into());
            for s in &stmts {
                stmt(s, 2, &st, &mut lines);
            }
            if *f { in_function(lines) } else { lines }
        }
        Context::Assigned => {
            let (last, init) = stmts.split_last().unwrap();
            for s in init {
                stmt(s, 0, &st, &mut lines);
            }
            // reuse the statement renderer through a synthetic assignment to a reserved variable
            stmt(&Expr::Assign(RESULT_VAR, b(last.clone())), 0, &st, &mut lines);
            lines.push(var_name(RESULT_VAR));
            lines
        }
        Context::Argument | Context::Operand => {
            let (last, init) = stmts.split_last().unwrap();
            if !inline_ok(last) || matches!(last, Expr::Break(_) | Expr::Continue) {
                return None;
            }
            if matches!(ctx, Context::Argument) {
                lines.push("zpick = |a, b, c| c".into());
            }
            for s in init {
                stmt(s, 0, &st, &mut lines);
            }
            if matches!(ctx, Context::Argument) {
                lines.push(format!("zpick(10, 20, {})", inline(last, 0, 1)));
            } else {
                lines.push(format!("null or {}", inline(last, P_OR.1, 0)));
            }
            lines
        }
        Context::Ignored => {
            all(&st, &mut lines);
            lines.push("null".into());
            lines
        }
        Context::ConstPool(n, f) => {
            lines.extend(const_pool_prelude(*n));
            let mut body = vec![];
            all(&st, &mut body);
            lines.extend(if *f { in_function(body) } else { body });
            lines
        }
    };
    Some(lines.join("\n") + "\n")
}

/// source lines that put `n` distinct constants into the constant pool, in this order: the
/// identifier `zc`, then per element `i` an int `7000000 + i` (beyond i16, so a pool entry), a float
/// `7000000 + i + 0.25`, a string `'zc<i>'` or — every fourth — an identifier `zk<i>` (a map key);
/// nothing in the generator's literal pools collides with them
pub fn const_pool_prelude(n: usize) -> Vec<String> {
    if n == 0 {
        return vec![];
    }
    let mut list = String::from("zc = [");
    let mut map = String::from("zm = {");
    let (mut nl, mut nm) = (0, 0);
    for i in 0..n.saturating_sub(1) {
        match i % 4 {
            3 => {
                if nm > 0 {
                    map.push_str(", ");
                }
                map.push_str(&format!("zk{}: 0", i));
                nm += 1;
            }
            k => {
                if nl > 0 {
                    list.push_str(", ");
                }
                match k {
                    0 => list.push_str(&format!("{}", 7_000_000 + i)),
                    1 => list.push_str(&format!("{}.25", 7_000_000 + i)),
                    _ => list.push_str(&format!("'zc{}'", i)),
                }
                nl += 1;
            }
        }
    }
    list.push(']');
    map.push('}');
    vec![list, map]
}

/// variable number reserved for the `Assigned` context (`v9999`)
pub const RESULT_VAR: u32 = 9999;
