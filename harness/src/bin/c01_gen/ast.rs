//! Rust mirror of `lean/KotoVerif/Model/CoreSyntax.lean` + the S-expression the model driver reads.

#[derive(Clone, Debug, PartialEq)]
pub enum Lit {
    Null,
    Bool(bool),
    Int(i64),
    Float(f64),
    Str(String),
}

#[derive(Clone, Copy, Debug, PartialEq, Eq, Hash)]
pub enum ArithOp {
    Add,
    Sub,
    Mul,
    Div,
    Rem,
    Pow,
}

#[derive(Clone, Copy, Debug, PartialEq, Eq, Hash)]
pub enum CmpOp {
    Lt,
    Le,
    Gt,
    Ge,
    Eq,
    Ne,
}

pub const ARITH_OPS: [ArithOp; 6] = [ArithOp::Add, ArithOp::Sub, ArithOp::Mul, ArithOp::Div, ArithOp::Rem, ArithOp::Pow];
pub const CMP_OPS: [CmpOp; 6] = [CmpOp::Lt, CmpOp::Le, CmpOp::Gt, CmpOp::Ge, CmpOp::Eq, CmpOp::Ne];

impl ArithOp {
    pub fn name(self) -> &'static str {
        match self {
            ArithOp::Add => "add",
            ArithOp::Sub => "sub",
            ArithOp::Mul => "mul",
            ArithOp::Div => "div",
            ArithOp::Rem => "rem",
            ArithOp::Pow => "pow",
        }
    }
    pub fn text(self) -> &'static str {
        match self {
            ArithOp::Add => "+",
            ArithOp::Sub => "-",
            ArithOp::Mul => "*",
            ArithOp::Div => "/",
            ArithOp::Rem => "%",
            ArithOp::Pow => "^",
        }
    }
}

impl CmpOp {
    pub fn name(self) -> &'static str {
        match self {
            CmpOp::Lt => "lt",
            CmpOp::Le => "le",
            CmpOp::Gt => "gt",
            CmpOp::Ge => "ge",
            CmpOp::Eq => "eq",
            CmpOp::Ne => "ne",
        }
    }
    pub fn text(self) -> &'static str {
        match self {
            CmpOp::Lt => "<",
            CmpOp::Le => "<=",
            CmpOp::Gt => ">",
            CmpOp::Ge => ">=",
            CmpOp::Eq => "==",
            CmpOp::Ne => "!=",
        }
    }
    pub fn is_equality(self) -> bool {
        matches!(self, CmpOp::Eq | CmpOp::Ne)
    }
}

#[derive(Clone, Debug, PartialEq)]
pub enum Expr {
    Lit(Lit),
    Var(u32),
    Neg(Box<Expr>),
    Not(Box<Expr>),
    Arith(ArithOp, Box<Expr>, Box<Expr>),
    /// comparison chain `a op1 b op2 c …` (at least one op)
    Cmp(Box<Expr>, Vec<(CmpOp, Expr)>),
    And(Box<Expr>, Box<Expr>),
    Or(Box<Expr>, Box<Expr>),
    Assign(u32, Box<Expr>),
    OpAssign(ArithOp, u32, Box<Expr>),
    List(Vec<Expr>),
    Tuple(Vec<Expr>),
    Map(Vec<(String, Expr)>),
    Range(Box<Expr>, Box<Expr>, bool),
    RangeFrom(Box<Expr>),
    RangeTo(Box<Expr>, bool),
    RangeFull,
    Index(Box<Expr>, Box<Expr>),
    /// `x[i] = e`
    IndexAssign(u32, Box<Expr>, Box<Expr>),
    /// `x[i] op= e` — no constructor of its own in `CoreSyntax.lean`: `sexp` prints the guide's reading
    /// `t = i; u = x[t]; u op= e; x[t] = u` over two model-only temporaries (index first, then the
    /// element, then `e`; compound-assignment operator semantics; value = the new element)
    IndexOpAssign(ArithOp, u32, Box<Expr>, Box<Expr>),
    Access(Box<Expr>, String),
    Size(Box<Expr>),
    Interp(Vec<Expr>),
    Emit(Box<Expr>),
    Print(Box<Expr>),
    Block(Vec<Expr>),
    If(Box<Expr>, Box<Expr>, Option<Box<Expr>>),
    Switch(Vec<(Expr, Expr)>, Option<Box<Expr>>),
    While(Box<Expr>, Box<Expr>),
    Until(Box<Expr>, Box<Expr>),
    Loop(Box<Expr>),
    For(u32, Box<Expr>, Box<Expr>),
    Break(Option<Box<Expr>>),
    Continue,
}

pub fn b(e: Expr) -> Box<Expr> {
    Box::new(e)
}
pub fn int(n: i64) -> Expr {
    Expr::Lit(Lit::Int(n))
}

impl Expr {
    pub fn kind(&self) -> &'static str {
        match self {
            Expr::Lit(Lit::Null) => "lit-null",
            Expr::Lit(Lit::Bool(_)) => "lit-bool",
            Expr::Lit(Lit::Int(_)) => "lit-int",
            Expr::Lit(Lit::Float(_)) => "lit-float",
            Expr::Lit(Lit::Str(_)) => "lit-str",
            Expr::Var(_) => "var",
            Expr::Neg(_) => "neg",
            Expr::Not(_) => "not",
            Expr::Arith(..) => "arith",
            Expr::Cmp(_, r) => {
                if r.len() > 1 {
                    "cmp-chain"
                } else {
                    "cmp"
                }
            }
            Expr::And(..) => "and",
            Expr::Or(..) => "or",
            Expr::Assign(..) => "assign",
            Expr::OpAssign(..) => "op-assign",
            Expr::List(_) => "list",
            Expr::Tuple(_) => "tuple",
            Expr::Map(_) => "map",
            Expr::Range(..) => "range",
            Expr::RangeFrom(_) => "range-from",
            Expr::RangeTo(..) => "range-to",
            Expr::RangeFull => "range-full",
            Expr::Index(..) => "index",
            Expr::IndexAssign(..) => "index-assign",
            Expr::IndexOpAssign(..) => "index-op-assign",
            Expr::Access(..) => "access",
            Expr::Size(_) => "size",
            Expr::Interp(_) => "interp",
            Expr::Emit(_) => "emit",
            Expr::Print(_) => "print",
            Expr::Block(_) => "block",
            Expr::If(_, _, None) => "if",
            Expr::If(_, _, Some(_)) => "if-else",
            Expr::Switch(_, None) => "switch",
            Expr::Switch(_, Some(_)) => "switch-else",
            Expr::While(..) => "while",
            Expr::Until(..) => "until",
            Expr::Loop(_) => "loop",
            Expr::For(..) => "for",
            Expr::Break(None) => "break",
            Expr::Break(Some(_)) => "break-value",
            Expr::Continue => "continue",
        }
    }

    /// direct children, in evaluation-independent syntactic order
    pub fn children(&self) -> Vec<&Expr> {
        match self {
            Expr::Lit(_) | Expr::Var(_) | Expr::RangeFull | Expr::Continue | Expr::Break(None) => vec![],
            Expr::Neg(a)
            | Expr::Not(a)
            | Expr::Assign(_, a)
            | Expr::OpAssign(_, _, a)
            | Expr::RangeFrom(a)
            | Expr::RangeTo(a, _)
            | Expr::Access(a, _)
            | Expr::Size(a)
            | Expr::Emit(a)
            | Expr::Print(a)
            | Expr::Loop(a)
            | Expr::Break(Some(a)) => vec![a],
            Expr::Arith(_, a, c)
            | Expr::And(a, c)
            | Expr::Or(a, c)
            | Expr::Range(a, c, _)
            | Expr::Index(a, c)
            | Expr::IndexAssign(_, a, c)
            | Expr::IndexOpAssign(_, _, a, c)
            | Expr::While(a, c)
            | Expr::Until(a, c)
            | Expr::For(_, a, c) => vec![a, c],
            Expr::Cmp(a, rest) => std::iter::once(&**a).chain(rest.iter().map(|(_, e)| e)).collect(),
            Expr::List(es) | Expr::Tuple(es) | Expr::Interp(es) | Expr::Block(es) => es.iter().collect(),
            Expr::Map(es) => es.iter().map(|(_, e)| e).collect(),
            Expr::If(c, t, e) => {
                let mut v = vec![&**c, &**t];
                if let Some(e) = e {
                    v.push(e);
                }
                v
            }
            Expr::Switch(arms, els) => {
                let mut v = vec![];
                for (c, e) in arms {
                    v.push(c);
                    v.push(e);
                }
                if let Some(e) = els {
                    v.push(e);
                }
                v
            }
        }
    }

    pub fn children_mut(&mut self) -> Vec<&mut Expr> {
        match self {
            Expr::Lit(_) | Expr::Var(_) | Expr::RangeFull | Expr::Continue | Expr::Break(None) => vec![],
            Expr::Neg(a)
            | Expr::Not(a)
            | Expr::Assign(_, a)
            | Expr::OpAssign(_, _, a)
            | Expr::RangeFrom(a)
            | Expr::RangeTo(a, _)
            | Expr::Access(a, _)
            | Expr::Size(a)
            | Expr::Emit(a)
            | Expr::Print(a)
            | Expr::Loop(a)
            | Expr::Break(Some(a)) => vec![a],
            Expr::Arith(_, a, c)
            | Expr::And(a, c)
            | Expr::Or(a, c)
            | Expr::Range(a, c, _)
            | Expr::Index(a, c)
            | Expr::IndexAssign(_, a, c)
            | Expr::IndexOpAssign(_, _, a, c)
            | Expr::While(a, c)
            | Expr::Until(a, c)
            | Expr::For(_, a, c) => vec![a, c],
            Expr::Cmp(a, rest) => std::iter::once(&mut **a).chain(rest.iter_mut().map(|(_, e)| e)).collect(),
            Expr::List(es) | Expr::Tuple(es) | Expr::Interp(es) | Expr::Block(es) => es.iter_mut().collect(),
            Expr::Map(es) => es.iter_mut().map(|(_, e)| e).collect(),
            Expr::If(c, t, e) => {
                let mut v = vec![&mut **c, &mut **t];
                if let Some(e) = e {
                    v.push(e);
                }
                v
            }
            Expr::Switch(arms, els) => {
                let mut v = vec![];
                for (c, e) in arms {
                    v.push(c);
                    v.push(e);
                }
                if let Some(e) = els {
                    v.push(e);
                }
                v
            }
        }
    }

    pub fn size(&self) -> usize {
        1 + self.children().iter().map(|c| c.size()).sum::<usize>()
    }
    pub fn depth(&self) -> usize {
        1 + self.children().iter().map(|c| c.depth()).max().unwrap_or(0)
    }
    pub fn walk(&self, f: &mut impl FnMut(&Expr)) {
        f(self);
        for c in self.children() {
            c.walk(f);
        }
    }
    pub fn any(&self, p: &impl Fn(&Expr) -> bool) -> bool {
        p(self) || self.children().iter().any(|c| c.any(p))
    }
    /// does the expression read variable `x` (as `Var`, or as the implicit read of `x op= e` / `x[i] = e`)?
    pub fn reads(&self, x: u32) -> bool {
        self.any(&|e| match e {
            Expr::Var(y) | Expr::OpAssign(_, y, _) | Expr::IndexAssign(y, _, _) | Expr::IndexOpAssign(_, y, _, _) => *y == x,
            _ => false,
        })
    }
    /// does the expression (re)bind variable `x`?
    pub fn assigns(&self, x: u32) -> bool {
        self.any(&|e| match e {
            Expr::Assign(y, _) | Expr::OpAssign(_, y, _) | Expr::For(y, _, _) => *y == x,
            _ => false,
        })
    }
    /// does the expression mutate the list held by `x` in place?
    pub fn index_assigns(&self, x: u32) -> bool {
        self.any(&|e| matches!(e, Expr::IndexAssign(y, _, _) | Expr::IndexOpAssign(_, y, _, _) if *y == x))
    }
}

/// variable numbers ≥ this only exist in the model request (never in Koto source)
pub const MODEL_TEMP_BASE: u32 = 100_000;

impl Expr {
    /// nesting depth of `IndexOpAssign` constructs inside `self` (0 = none below)
    pub fn any_depth_of_index_op_assign(&self) -> u32 {
        let below = self.children().iter().map(|c| c.any_depth_of_index_op_assign()).max().unwrap_or(0);
        if matches!(self, Expr::IndexOpAssign(..)) { below + 1 } else { below }
    }
}

pub fn var_name(x: u32) -> String {
    format!("v{}", x)
}

fn lit_sexp(l: &Lit) -> String {
    match l {
        Lit::Null => "null".into(),
        Lit::Bool(true) => "b1".into(),
        Lit::Bool(false) => "b0".into(),
        Lit::Int(n) => format!("i{}", n),
        Lit::Float(f) => kvh::canon::float(*f),
        Lit::Str(s) => format!("s{}", kvh::hex(s.as_bytes())),
    }
}

/// the program text the model driver parses (`Drivers/C01.lean parseExpr`)
pub fn sexp(e: &Expr) -> String {
    let mut s = String::new();
    write_sexp(e, &mut s);
    s
}

fn list_sexp(head: &str, es: &[&Expr], out: &mut String) {
    out.push('(');
    out.push_str(head);
    for e in es {
        out.push(' ');
        write_sexp(e, out);
    }
    out.push(')');
}

fn write_sexp(e: &Expr, out: &mut String) {
    match e {
        Expr::Lit(l) => {
            out.push_str("(lit ");
            out.push_str(&lit_sexp(l));
            out.push(')');
        }
        Expr::Var(x) => out.push_str(&format!("(var {})", x)),
        Expr::Neg(a) => list_sexp("neg", &[a], out),
        Expr::Not(a) => list_sexp("not", &[a], out),
        Expr::Arith(op, a, c) => list_sexp(&format!("ar {}", op.name()), &[a, c], out),
        Expr::Cmp(a, rest) => {
            out.push_str("(cmp ");
            write_sexp(a, out);
            for (op, e) in rest {
                out.push_str(&format!(" ({} ", op.name()));
                write_sexp(e, out);
                out.push(')');
            }
            out.push(')');
        }
        Expr::And(a, c) => list_sexp("and", &[a, c], out),
        Expr::Or(a, c) => list_sexp("or", &[a, c], out),
        Expr::Assign(x, a) => list_sexp(&format!("set {}", x), &[a], out),
        Expr::OpAssign(op, x, a) => list_sexp(&format!("opset {} {}", op.name(), x), &[a], out),
        Expr::List(es) => list_sexp("list", &es.iter().collect::<Vec<_>>(), out),
        Expr::Tuple(es) => list_sexp("tuple", &es.iter().collect::<Vec<_>>(), out),
        Expr::Map(es) => {
            out.push_str("(map");
            for (k, e) in es {
                out.push_str(&format!(" ({} ", kvh::hex(k.as_bytes())));
                write_sexp(e, out);
                out.push(')');
            }
            out.push(')');
        }
        Expr::Range(a, c, incl) => {
            out.push_str("(range ");
            write_sexp(a, out);
            out.push(' ');
            write_sexp(c, out);
            out.push_str(if *incl { " 1)" } else { " 0)" });
        }
        Expr::RangeFrom(a) => list_sexp("rfrom", &[a], out),
        Expr::RangeTo(a, incl) => {
            out.push_str("(rto ");
            write_sexp(a, out);
            out.push_str(if *incl { " 1)" } else { " 0)" });
        }
        Expr::RangeFull => out.push_str("(rfull)"),
        Expr::Index(a, i) => list_sexp("idx", &[a, i], out),
        Expr::IndexAssign(x, i, a) => list_sexp(&format!("idxset {}", x), &[i, a], out),
        Expr::IndexOpAssign(op, x, i, a) => {
            // model-only temporaries: unique per nesting depth of this construct
            let depth = e.any_depth_of_index_op_assign();
            let (t, u) = (MODEL_TEMP_BASE + 2 * depth, MODEL_TEMP_BASE + 2 * depth + 1);
            let desugared = Expr::Block(vec![
                Expr::Assign(t, i.clone()),
                Expr::Assign(u, Box::new(Expr::Index(Box::new(Expr::Var(*x)), Box::new(Expr::Var(t))))),
                Expr::OpAssign(*op, u, a.clone()),
                Expr::IndexAssign(*x, Box::new(Expr::Var(t)), Box::new(Expr::Var(u))),
            ]);
            write_sexp(&desugared, out);
        }
        Expr::Access(a, k) => {
            out.push_str("(acc ");
            write_sexp(a, out);
            out.push_str(&format!(" {})", kvh::hex(k.as_bytes())));
        }
        Expr::Size(a) => list_sexp("size", &[a], out),
        Expr::Interp(es) => list_sexp("interp", &es.iter().collect::<Vec<_>>(), out),
        Expr::Emit(a) => list_sexp("emit", &[a], out),
        Expr::Print(a) => list_sexp("print", &[a], out),
        Expr::Block(es) => list_sexp("block", &es.iter().collect::<Vec<_>>(), out),
        Expr::If(c, t, None) => list_sexp("if", &[c, t], out),
        Expr::If(c, t, Some(e)) => list_sexp("ife", &[c, t, e], out),
        Expr::Switch(arms, els) => {
            out.push_str("(switch");
            for (c, e) in arms {
                out.push_str(" (");
                write_sexp(c, out);
                out.push(' ');
                write_sexp(e, out);
                out.push(')');
            }
            if let Some(e) = els {
                out.push_str(" (else ");
                write_sexp(e, out);
                out.push(')');
            }
            out.push(')');
        }
        Expr::While(c, body) => list_sexp("while", &[c, body], out),
        Expr::Until(c, body) => list_sexp("until", &[c, body], out),
        Expr::Loop(body) => list_sexp("loop", &[body], out),
        Expr::For(x, it, body) => list_sexp(&format!("for {}", x), &[it, body], out),
        Expr::Break(None) => out.push_str("(brk)"),
        Expr::Break(Some(a)) => list_sexp("brkv", &[a], out),
        Expr::Continue => out.push_str("(cont)"),
    }
}
