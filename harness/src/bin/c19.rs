//! C19 — rc and arc runtimes behave identically; shared containers are atomic under arc.
//!
//! This binary is built twice by `./check` (default features = rc; `--features arc` into
//! `target-arc`). The rc build is the harness; it spawns itself and the arc build in `--runner`
//! mode (one request line → one response line) and compares:
//!
//! (K1a) program differential: corpus scripts, documentation examples and seeded generated programs
//!       run by the rc runner and by the arc runner: (result, stdout, error) must be identical.
//! (K1b) lock protocol: random borrow scripts driven against the real `koto_memory::PtrMut` of
//!       both builds vs `Cell.run` of the Lean model (blocking calls only where the model says they
//!       succeed, or — rc — panic under `catch`; arc conflicts are probed with `try_*`).
//! (K1c) sequential container semantics: random operation sequences on a real list / map in both
//!       builds vs the model's bracket scripts (`rc_arc_equiv_brackets`).
//! (K2)  arc runner only: N ∈ {2,3,4,8} OS threads, each with its own `Koto` runtime, run scripts of
//!       *single-bracket* container operations on one shared `KList` / `KMap` (handle cloned into
//!       every runtime as the argument of its exported `run` function):
//!         small histories → exact check: a linearization is searched and then *validated by the
//!                           Lean model* (`Cell.seqAll` / `resOf`, the objects of `linearizable`);
//!         large histories → counting invariants (conservation of pushed tags, no duplicate pop,
//!                           per-thread order, per-owner map keys exact, sizes in range, entry pairs
//!                           consistent, `fill`/`reverse` snapshots never torn).
//!       A request timeout is the deadlock watchdog.
//! Operations that are *several* brackets at script level are not "single container operations" and
//! are excluded from (K2): `l[i] = l[i] + 1`, `map.update`, `list.retain/resize_with/sort(f)`,
//! iteration. Three operations that *look* single but are check-then-act over two guards
//! (`l[i]`, `list.insert`, `list.remove`) are genuine defects under arc (F-C19-2..4): replayed, and
//! kept out of the generated mixes by a shape filter (never together with a shrinking operation).
use koto::prelude::*;
use kvh::{Args, Driver, Report, Rng};
use serde_json::{json, Value};
use std::collections::{BTreeMap, HashMap, HashSet};
use std::io::{BufRead, BufReader, Write};
use std::process::{Command, Stdio};
#[cfg(feature = "arc")]
use std::sync::atomic::{AtomicUsize, Ordering};
use std::sync::mpsc::{channel, Receiver, RecvTimeoutError};
use std::sync::{Arc, Mutex};
use std::time::Duration;

#[cfg(feature = "arc")]
const FEATURE: &str = "arc";
#[cfg(not(feature = "arc"))]
const FEATURE: &str = "rc";

// =================================================================================================
// runner mode (both builds)

#[derive(Clone, Default)]
struct Capture(Arc<Mutex<String>>);

impl KotoFile for Capture {
    fn id(&self) -> KString {
        "_capture_".into()
    }
}
impl KotoRead for Capture {}
impl KotoWrite for Capture {
    fn write(&self, bytes: &[u8]) -> koto::runtime::Result<()> {
        self.0.lock().unwrap().push_str(&String::from_utf8_lossy(bytes));
        Ok(())
    }
    fn write_line(&self, output: &str) -> koto::runtime::Result<()> {
        let mut g = self.0.lock().unwrap();
        g.push_str(output);
        g.push('\n');
        Ok(())
    }
    fn flush(&self) -> koto::runtime::Result<()> {
        Ok(())
    }
}

fn new_koto(cap: &Capture, limit_ms: u64) -> Koto {
    let koto = Koto::with_settings(
        KotoSettings::default()
            .with_stdout(cap.clone())
            .with_stderr(cap.clone())
            .with_execution_limit(Duration::from_millis(limit_ms)),
    );
    // serde path (koto_serde::SerializableKValue) reachable from scripts
    koto.prelude().insert("json", koto_json::make_module());
    koto.prelude().insert("yaml", koto_yaml::make_module());
    koto.prelude().insert("toml", koto_toml::make_module());
    add_host_objects(koto.prelude());
    koto
}

/// `prog <hexsrc> [<hexpath>]` → `<result> | <hex stdout> | <error class> <hex message>`
fn run_prog(src: &str, path: Option<&str>) -> String {
    let cap = Capture::default();
    let r = kvh::catch(|| {
        let mut koto = new_koto(&cap, 4000);
        let mut args = CompileArgs::new(src);
        if let Some(p) = path {
            args = args.script_path(p);
        }
        match koto.compile_and_run(args) {
            Ok(v) => {
                // display through the runtime as well (exercises @display and nested borrows)
                let shown = match koto.value_to_string(v.clone()) {
                    Ok(s) => kvh::hex(s.as_bytes()),
                    Err(e) => format!("DE{}", kvh::hex(e.to_string().as_bytes())),
                };
                (format!("{} {}", kvh::canon::value(&v), shown), "ok -".to_string())
            }
            Err(e) => {
                let msg = e.to_string();
                let class = if matches!(e, koto::Error::CompileError { .. }) {
                    "compile"
                } else if msg.contains("execution timed out") {
                    "timeout"
                } else {
                    "runtime"
                };
                ("E".to_string(), format!("{} {}", class, kvh::hex(msg.as_bytes())))
            }
        }
    });
    let out = cap.0.lock().map(|g| g.clone()).unwrap_or_default();
    match r {
        Ok((res, err)) => format!("{} | {} | {}", res, kvh::hex(out.as_bytes()), err),
        Err(p) => format!("E | {} | panic {}", kvh::hex(out.as_bytes()), kvh::hex(p.as_bytes())),
    }
}

/// Drive the real `PtrMut` cell. Tokens: `b bm` (blocking call; the model says it succeeds),
/// `b! bm!` (the model says conflict: rc → call under catch, expect the panic; arc → never call the
/// blocking function, probe with try_*), `tb tbm dr dw`, `r` (read through a guard), `w<n>` (add n
/// through the exclusive guard, returns the old value), `probe`.
fn run_cell(tokens: &[&str]) -> String {
    use koto::runtime::{Borrow, BorrowMut, PtrMut};
    let cell: PtrMut<i64> = PtrMut::from(0i64);
    let mut reads: Vec<Borrow<'_, i64>> = vec![];
    let mut write: Option<BorrowMut<'_, i64>> = None;
    let mut out: Vec<String> = vec![];
    for t in tokens {
        match *t {
            "b" => {
                reads.push(cell.borrow());
                out.push("ok".into());
            }
            "bm" => {
                write = Some(cell.borrow_mut());
                out.push("ok".into());
            }
            "b!" | "bm!" => {
                if FEATURE == "rc" {
                    let r = if *t == "b!" {
                        kvh::catch(|| {
                            let _g = cell.borrow();
                        })
                    } else {
                        kvh::catch(|| {
                            let _g = cell.borrow_mut();
                        })
                    };
                    out.push(if r.is_err() { "panic".into() } else { "ok".into() });
                } else {
                    // arc: the blocking call would park this thread forever; the non-blocking
                    // twin takes the same decision (`try_read`/`try_write` vs `read`/`write`)
                    let free = if *t == "b!" { cell.try_borrow().is_some() } else { cell.try_borrow_mut().is_some() };
                    out.push(if free { "ok".into() } else { "block".into() });
                }
                break;
            }
            "tb" => match cell.try_borrow() {
                Some(g) => {
                    reads.push(g);
                    out.push("ok".into());
                }
                None => out.push("none".into()),
            },
            "tbm" => match cell.try_borrow_mut() {
                Some(g) => {
                    write = Some(g);
                    out.push("ok".into());
                }
                None => out.push("none".into()),
            },
            "dr" => {
                if reads.pop().is_some() {
                    out.push("ok".into());
                } else {
                    out.push("noguard".into());
                }
            }
            "dw" => {
                if write.take().is_some() {
                    out.push("ok".into());
                } else {
                    out.push("noguard".into());
                }
            }
            "r" => {
                if let Some(g) = &write {
                    out.push(format!("v{}", **g));
                } else if let Some(g) = reads.last() {
                    out.push(format!("v{}", **g));
                } else {
                    out.push("fault".into());
                }
            }
            w if w.starts_with('w') => {
                let n: i64 = w[1..].parse().unwrap_or(0);
                if let Some(g) = &mut write {
                    let old = **g;
                    **g = old + n;
                    out.push(format!("v{}", old));
                } else {
                    out.push("fault".into());
                }
            }
            _ => out.push("bad".into()),
        }
    }
    // state of the real cell as far as it can be observed from outside
    let held_r = reads.len();
    let held_w = write.is_some();
    drop(write);
    let after_w = if cell.try_borrow_mut().is_some() { "free" } else if cell.try_borrow().is_some() { "shared" } else { "excl" };
    drop(reads);
    let after_all = if cell.try_borrow_mut().is_some() { "free" } else { "busy" };
    format!("{} | {} {} {} {}", out.join(" "), held_r, if held_w { 1 } else { 0 }, after_w, after_all)
}

const NULLV_R: i64 = -999999;

/// all integers in a rendered container (`[1, 2]`, `{k1: 10, k2: null}`), keys `k<n>` as n,
/// `null` as the model's null value
fn ints_in_text(s: &str) -> Vec<i64> {
    let t = s.replace("null", "-999999");
    let b = t.as_bytes();
    let mut out = vec![];
    let mut i = 0;
    while i < b.len() {
        if b[i].is_ascii_digit() || (b[i] == b'-' && i + 1 < b.len() && b[i + 1].is_ascii_digit()) {
            let st = i;
            i += 1;
            while i < b.len() && b[i].is_ascii_digit() {
                i += 1;
            }
            if let Ok(v) = t[st..i].parse::<i64>() {
                out.push(v);
            }
        } else {
            i += 1;
        }
    }
    out
}

fn int_of(x: &KValue) -> Option<i64> {
    match x {
        KValue::Number(KNumber::I64(n)) => Some(*n),
        KValue::Number(KNumber::F64(f)) => Some(*f as i64),
        KValue::Null => Some(NULLV_R),
        KValue::Str(s) => s.as_str().strip_prefix('k').and_then(|d| d.parse().ok()),
        _ => None,
    }
}

fn res_token(v: &KValue) -> String {
    match v {
        KValue::Null => "null".into(),
        KValue::Bool(b) => if *b { "b1".into() } else { "b0".into() },
        KValue::Number(n) => match n {
            KNumber::I64(i) => format!("i{}", i),
            KNumber::F64(f) => format!("i{}", *f as i64),
        },
        KValue::Str(s) if s.as_str() == "u" => "u".into(),
        KValue::Str(s) if s.as_str() == "E" => "E".into(),
        KValue::Str(s) if s.starts_with('[') || s.starts_with('{') => {
            let v = ints_in_text(s.as_str());
            format!("({})", v.iter().map(|x| x.to_string()).collect::<Vec<_>>().join(" "))
        }
        KValue::Tuple(t) => ints_token(t.iter()),
        KValue::List(l) => {
            let d = l.data().clone();
            ints_token(d.iter())
        }
        KValue::Map(m) => {
            let d = m.data().clone();
            let mut flat = vec![];
            for (k, x) in d.iter() {
                flat.push(k.value().clone());
                flat.push(x.clone());
            }
            ints_token(flat.iter())
        }
        other => format!("?{}", kvh::canon::value(other).replace(' ', "_")),
    }
}

fn ints_token<'a>(it: impl Iterator<Item = &'a KValue>) -> String {
    let mut s = String::from("(");
    for (i, x) in it.enumerate() {
        if i > 0 {
            s.push(' ');
        }
        match int_of(x) {
            Some(n) => s.push_str(&n.to_string()),
            None => s.push_str(&format!("?{}", kvh::canon::value(x).replace(' ', "_"))),
        }
    }
    s.push(')');
    s
}

fn contents_token(v: &KValue) -> String {
    match v {
        KValue::List(l) => {
            let d = l.data().clone();
            ints_token(d.iter())
        }
        KValue::Map(m) => {
            let mut s = String::from("(");
            for (i, (k, x)) in m.data().iter().enumerate() {
                if i > 0 {
                    s.push(' ');
                }
                let kk = int_of(k.value()).map(|n| n.to_string()).unwrap_or_else(|| format!("?{}", kvh::canon::value(k.value())));
                let vv = int_of(x).map(|n| n.to_string()).unwrap_or_else(|| format!("?{}", kvh::canon::value(x)));
                s.push_str(&format!("({} {})", kk, vv));
            }
            s.push(')');
            s
        }
        other => format!("?{}", kvh::canon::value(other)),
    }
}

fn make_container(kind: &str, init: &Value) -> KValue {
    match kind {
        "m" => {
            let m = KMap::new();
            for e in init.as_array().cloned().unwrap_or_default() {
                let k = e[0].as_i64().unwrap_or(0);
                let v = e[1].as_i64().unwrap_or(0);
                let val = if v == NULLV_R { KValue::Null } else { KValue::from(v) };
                m.insert(format!("k{}", k).as_str(), val);
            }
            KValue::Map(m)
        }
        _ => {
            let xs: Vec<KValue> =
                init.as_array().cloned().unwrap_or_default().iter().map(|x| KValue::from(x.as_i64().unwrap_or(0))).collect();
            KValue::List(KList::from_slice(&xs))
        }
    }
}

/// `ops <hex json {kind, init, script}>`: one thread, the script's exported `run` applied to the
/// container → `<res>* | <final>` (the format of the model driver's `seq` answer).
fn run_ops(spec: &Value) -> String {
    let kind = spec["kind"].as_str().unwrap_or("l");
    let script = spec["script"].as_str().unwrap_or("");
    let r = kvh::catch(|| {
        let cap = Capture::default();
        let mut koto = new_koto(&cap, 4000);
        if let Err(e) = koto.compile_and_run(script) {
            return format!("SCRIPT-ERROR {}", e.to_string().replace('\n', " "));
        }
        let c = make_container(kind, &spec["init"]);
        match koto.call_exported_function("run", &[c.clone()]) {
            Ok(KValue::List(rs)) => {
                let d = rs.data().clone();
                format!("{} | {}", d.iter().map(res_token).collect::<Vec<_>>().join(" "), contents_token(&c))
            }
            Ok(o) => format!("BAD-RESULT {}", kvh::canon::value(&o)),
            Err(e) => format!("RUN-ERROR {}", e.to_string().replace('\n', " ")),
        }
    });
    r.unwrap_or_else(|p| format!("PANIC {}", p.replace('\n', " ")))
}

/// One host-API operation (no script, no VM): the crate's own helpers on `KMap` / `KList`.
/// `["ins",k,v]` KMap::insert · `["rem",k]` KMap::remove · `["rempath",k]` KMap::remove_path ·
/// `["get",k]` KMap::get · `["has",k]` data().contains_key · `["size"]` len() · `["isempty"]` ·
/// `["clear"]` KMap::clear / data_mut().clear() · `["geti",i]` data().get_index ·
/// `["push",x]` / `["pop"]` / `["first"]` / `["last"]` / `["geth",i]` / `["snap"]` on KList data.
#[allow(dead_code)]
fn host_apply(c: &KValue, op: &Value) -> String {
    let name = op[0].as_str().unwrap_or("");
    let a = op[1].as_i64().unwrap_or(0);
    let b = op[2].as_i64().unwrap_or(0);
    let key = |k: i64| format!("k{}", k);
    let opt = |v: Option<KValue>| v.map(|x| res_token(&x)).unwrap_or_else(|| "null".to_string());
    match c {
        KValue::Map(m) => match name {
            "ins" => {
                m.insert(key(a).as_str(), KValue::from(b));
                "u".into()
            }
            "rem" => opt(m.remove(key(a).as_str())),
            "rempath" => opt(m.remove_path(&key(a))),
            "get" => opt(m.get(key(a).as_str())),
            "has" => if m.data().contains_key(key(a).as_str()) { "b1".into() } else { "b0".into() },
            "size" => format!("i{}", m.len()),
            "isempty" => if m.is_empty() { "b1".into() } else { "b0".into() },
            "clear" => {
                let mut m2 = m.clone();
                m2.clear();
                "u".into()
            }
            "geti" => match m.data().get_index(a as usize) {
                Some((k, v)) => ints_token([k.value().clone(), v.clone()].iter()),
                None => "null".into(),
            },
            _ => "bad-host-op".into(),
        },
        KValue::List(l) => match name {
            "push" => {
                l.data_mut().push(KValue::from(a));
                "u".into()
            }
            "pop" => opt(l.data_mut().pop()),
            "size" => format!("i{}", l.len()),
            "isempty" => if l.is_empty() { "b1".into() } else { "b0".into() },
            "first" => opt(l.data().first().cloned()),
            "last" => opt(l.data().last().cloned()),
            "geth" => opt(l.data().get(a as usize).cloned()),
            "clear" => {
                l.data_mut().clear();
                "u".into()
            }
            "snap" => {
                let d = l.data().clone();
                ints_token(d.iter())
            }
            _ => "bad-host-op".into(),
        },
        _ => "bad-host-container".into(),
    }
}

/// `stress <hex json {kind, init, scripts[], rounds, dedupe, max_out}>` — arc build only.
/// Persistent threads (one `Koto` each); per round one fresh shared container, a spin barrier, then
/// every thread calls its `run(shared)`. Answer: JSON `{outcomes:[{n, threads:[..], final}], rounds,
/// distinct, panics}`.
#[cfg(feature = "arc")]
fn run_stress(spec: &Value) -> String {
    let kind = spec["kind"].as_str().unwrap_or("l").to_string();
    let scripts: Vec<String> =
        spec["scripts"].as_array().cloned().unwrap_or_default().iter().map(|s| s.as_str().unwrap_or("").to_string()).collect();
    let rounds = spec["rounds"].as_u64().unwrap_or(1) as usize;
    let dedupe = spec["dedupe"].as_bool().unwrap_or(true);
    let max_out = spec["max_out"].as_u64().unwrap_or(400) as usize;
    let n = scripts.len();
    // host-API threads: `host_progs[t]` non-empty → thread t runs these operations in Rust
    let host_progs: Vec<Vec<Value>> = (0..n).map(|t| spec["host_progs"][t].as_array().cloned().unwrap_or_default()).collect();
    let containers: Arc<Vec<KValue>> = Arc::new((0..rounds).map(|_| make_container(&kind, &spec["init"])).collect());
    let arrived: Arc<Vec<AtomicUsize>> = Arc::new((0..rounds).map(|_| AtomicUsize::new(0)).collect());
    let mut handles = vec![];
    for (ti, script) in scripts.iter().enumerate() {
        let script = script.clone();
        let containers = containers.clone();
        let arrived = arrived.clone();
        let host = host_progs[ti].clone();
        handles.push(std::thread::spawn(move || -> Vec<String> {
            if !host.is_empty() {
                let mut out = Vec::with_capacity(rounds);
                for round in 0..rounds {
                    arrived[round].fetch_add(1, Ordering::SeqCst);
                    let mut spins = 0u64;
                    while arrived[round].load(Ordering::SeqCst) < n {
                        spins += 1;
                        if spins % 4096 == 0 {
                            std::thread::yield_now();
                        } else {
                            std::hint::spin_loop();
                        }
                    }
                    let c = containers[round].clone();
                    let r = kvh::catch(|| host.iter().map(|op| host_apply(&c, op)).collect::<Vec<_>>().join(" "));
                    out.push(r.unwrap_or_else(|p| format!("PANIC:{}", p.replace([' ', '\n'], "_"))));
                }
                return out;
            }
            let cap = Capture::default();
            let mut koto = new_koto(&cap, 20000);
            let setup = koto.compile_and_run(script.as_str()).map(|_| ()).map_err(|e| e.to_string());
            let f = koto.exports().get("run");
            let mut out = Vec::with_capacity(rounds);
            for round in 0..rounds {
                // spin barrier: all threads start the round together
                arrived[round].fetch_add(1, Ordering::SeqCst);
                let mut spins = 0u64;
                while arrived[round].load(Ordering::SeqCst) < n {
                    spins += 1;
                    if spins % 4096 == 0 {
                        std::thread::yield_now();
                    } else {
                        std::hint::spin_loop();
                    }
                }
                if let Err(e) = &setup {
                    out.push(format!("SCRIPT-ERROR:{}", e.replace([' ', '\n'], "_")));
                    continue;
                }
                let c = containers[round].clone();
                let f = f.clone();
                let r = kvh::catch(|| match f {
                    Some(f) => match koto.call_function(f, &[c]) {
                        Ok(KValue::List(rs)) => {
                            let d = rs.data().clone();
                            d.iter().map(res_token).collect::<Vec<_>>().join(" ")
                        }
                        Ok(o) => format!("BAD-RESULT:{}", kvh::canon::value(&o).replace(' ', "_")),
                        Err(e) => format!("RUN-ERROR:{}", e.to_string().replace([' ', '\n'], "_")),
                    },
                    None => "NO-RUN-FN".to_string(),
                });
                out.push(r.unwrap_or_else(|p| format!("PANIC:{}", p.replace([' ', '\n'], "_"))));
            }
            out
        }));
    }
    let per_thread: Vec<Vec<String>> = handles.into_iter().map(|h| h.join().unwrap_or_default()).collect();
    let mut panics = 0u64;
    let mut counts: HashMap<String, (u64, usize)> = HashMap::new();
    let mut order: Vec<String> = vec![];
    let mut outcomes: Vec<Value> = vec![];
    for round in 0..rounds {
        let threads: Vec<String> = per_thread.iter().map(|t| t.get(round).cloned().unwrap_or_else(|| "MISSING".into())).collect();
        panics += threads.iter().filter(|s| s.starts_with("PANIC:")).count() as u64;
        let fin = contents_token(&containers[round]);
        if dedupe {
            let key = format!("{}#{}", threads.join(";"), fin);
            match counts.get_mut(&key) {
                Some(e) => e.0 += 1,
                None => {
                    counts.insert(key.clone(), (1, round));
                    order.push(key);
                    outcomes.push(json!({"threads": threads, "final": fin}));
                }
            }
        } else {
            outcomes.push(json!({"n": 1, "threads": threads, "final": fin}));
        }
    }
    let distinct = outcomes.len();
    if dedupe {
        for (i, k) in order.iter().enumerate() {
            outcomes[i]["n"] = json!(counts[k].0);
        }
    }
    // a panicking outcome is always reported, whatever the cap
    let mut kept: Vec<Value> = vec![];
    for o in outcomes.into_iter() {
        let has_panic = o["threads"].as_array().unwrap().iter().any(|s| !s.as_str().unwrap_or("").split(' ').all(ok_token));
        if kept.len() < max_out || has_panic {
            kept.push(o);
        }
    }
    json!({"outcomes": kept, "rounds": rounds, "distinct": distinct, "panics": panics}).to_string()
}

#[allow(dead_code)]
fn ok_token(t: &str) -> bool {
    !(t.starts_with("PANIC:") || t.starts_with("RUN-ERROR:") || t.starts_with("SCRIPT-ERROR:") || t.starts_with("BAD-RESULT:")
        || t == "NO-RUN-FN" || t == "MISSING")
}

#[cfg(not(feature = "arc"))]
fn run_stress(_spec: &Value) -> String {
    "NOT-ARC".to_string()
}

fn unhex_str(s: &str) -> String {
    String::from_utf8_lossy(&kvh::unhex(s).unwrap_or_default()).to_string()
}

fn runner_main() {
    kvh::quiet_panics();
    kvh::worker::serve(|line| {
        let toks: Vec<&str> = line.split(' ').filter(|x| !x.is_empty()).collect();
        match toks.first().copied() {
            Some("feature") => FEATURE.to_string(),
            Some("prog") => {
                let src = unhex_str(toks.get(1).copied().unwrap_or("x"));
                let path = toks.get(2).map(|p| unhex_str(p));
                run_prog(&src, path.as_deref())
            }
            Some("cell") => kvh::catch(|| run_cell(&toks[1..])).unwrap_or_else(|p| format!("RUNNER-PANIC {}", p)),
            Some("ops") => match serde_json::from_str::<Value>(&unhex_str(toks.get(1).copied().unwrap_or("x"))) {
                Ok(v) => run_ops(&v),
                Err(e) => format!("BAD-SPEC {}", e),
            },
            Some("stress") => match serde_json::from_str::<Value>(&unhex_str(toks.get(1).copied().unwrap_or("x"))) {
                Ok(v) => run_stress(&v),
                Err(e) => format!("BAD-SPEC {}", e),
            },
            _ => "bad-request".to_string(),
        }
    });
}

// =================================================================================================
// child processes (rc runner = this executable, arc runner = --arc-bin)

enum Reply {
    Ok(String),
    Timeout,
    Died(String),
}

struct Child {
    exe: std::path::PathBuf,
    child: std::process::Child,
    stdin: std::process::ChildStdin,
    rx: Receiver<String>,
    restarts: u64,
}

impl Child {
    fn spawn(exe: &std::path::Path) -> Child {
        let mut child = Command::new(exe)
            .arg("--runner")
            .stdin(Stdio::piped())
            .stdout(Stdio::piped())
            .stderr(Stdio::null())
            .spawn()
            .unwrap_or_else(|e| panic!("cannot start runner {:?}: {}", exe, e));
        let stdin = child.stdin.take().unwrap();
        let stdout = child.stdout.take().unwrap();
        let (tx, rx) = channel();
        std::thread::spawn(move || {
            for line in BufReader::new(stdout).lines() {
                match line {
                    Ok(l) => {
                        if tx.send(l).is_err() {
                            break;
                        }
                    }
                    Err(_) => break,
                }
            }
        });
        Child { exe: exe.to_path_buf(), child, stdin, rx, restarts: 0 }
    }
    fn restart(&mut self) {
        let _ = self.child.kill();
        let _ = self.child.wait();
        let n = self.restarts + 1;
        *self = Child::spawn(&self.exe.clone());
        self.restarts = n;
    }
    fn request(&mut self, line: &str, timeout: Duration) -> Reply {
        if self.stdin.write_all(line.as_bytes()).is_err() || self.stdin.write_all(b"\n").is_err() || self.stdin.flush().is_err() {
            let st = self.child.wait().map(|s| s.to_string()).unwrap_or_default();
            self.restart();
            return Reply::Died(st);
        }
        match self.rx.recv_timeout(timeout) {
            Ok(s) => Reply::Ok(s),
            Err(RecvTimeoutError::Timeout) => {
                self.restart();
                Reply::Timeout
            }
            Err(RecvTimeoutError::Disconnected) => {
                let st = self.child.wait().map(|s| s.to_string()).unwrap_or_default();
                self.restart();
                Reply::Died(st)
            }
        }
    }
    fn ask(&mut self, line: &str, timeout: Duration) -> String {
        match self.request(line, timeout) {
            Reply::Ok(s) => s,
            Reply::Timeout => "TIMEOUT".into(),
            Reply::Died(st) => format!("DIED {}", st),
        }
    }
}

impl Drop for Child {
    fn drop(&mut self) {
        let _ = self.child.kill();
        let _ = self.child.wait();
    }
}

include!("c19_parts/ops.rs");
include!("c19_parts/gen.rs");
include!("c19_parts/stress.rs");
include!("c19_parts/table.rs");
include!("c19_parts/run.rs");
include!("c19_parts/reentrant.rs");
include!("c19_parts/objects.rs");
