//! C06 — host safety: no input makes compile, format, run or display panic.
//!
//! Three parts (DESIGN §6 C06):
//!  (K) panic kernels of `lean/KotoVerif/Model/Guards.lean` vs the real functions, on a boundary
//!      value pool (direct Rust calls in-process under catch_unwind, or tiny scripts in workers);
//!      outcome ∈ {ok value, error, panic}; the model says `panic` ⇔ the implementation panics.
//!  (D) exploration — search support, NOT proof: (a) compile + format + error Display on the
//!      corpus, its single-token delete/duplicate/swap neighbourhood, token soups, byte noise,
//!      truncations; (b) every core-library entry point × argument tuples from the pool;
//!      (c) generated small programs mixing operators on pool values. Every case runs in an
//!      isolated worker process (memory-limited, wall-clock limit).
//!  Known findings are identified by panic *site* (source file + enclosing function resolved by
//!  scanning the source at run time + message pattern) and the API that reaches it; a panic at any
//!  other site / through any other API is a VIOLATION.
use koto::prelude::*;
use koto::runtime::{KotoFile, KotoRead, KotoWrite};
use kvh::worker::{Reply, Worker};
use kvh::{Args, Driver, Report, Rng};
use serde_json::{json, Value};
use std::cell::RefCell;
use std::collections::{BTreeMap, BTreeSet, HashMap};
use std::sync::atomic::{AtomicUsize, Ordering};
use std::sync::Mutex;
use std::time::Duration;

include!("c06_parts/worker.rs");
include!("c06_parts/pool.rs");
include!("c06_parts/attrib.rs");
include!("c06_parts/gen.rs");
include!("c06_parts/kernels.rs");
include!("c06_parts/sites.rs");
include!("c06_parts/run.rs");
